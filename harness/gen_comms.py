"""Tables for the communication model (lean/PlumpyModel/Gen/Comms.lean), derived from the source by AST.

Called by gen_tables.py.  What is extracted from src/plumpy/processes.py:

* `rpcDispatch` / `broadcastDispatch`: for every `if intent == Intent.X:` (resp. `if subject == Intent.X:`) of
  `Process.message_receive` / `Process.broadcast_receive`, in branch order, the pair (X, name of the method the branch
  hands to `_schedule_rpc`, or of the first method of `self` it calls);
* `rpcUnknownIntentRaises`: the exception class raised after the chain of `message_receive`;
* `statusInfoKeys`: the keys `get_status_info` writes;
* `stateChangedSubject`: the pieces of the `state_changed…` subject with `<from>` / `<to>` for the two labels, OBSERVED on a
  trivial process with a recording communicator (`probe_subject`; robust against renamed locals), else parsed from the
  f-string of `on_entered`;
* `broadcastSubjectFilter`: the regular expression given to the `BroadcastFilter` in `Process.init`;
* `subscriberIdentifier`: the expression passed as `identifier=` when subscribing.
"""
import ast
import os


def lean_str(s):
    return '"' + str(s).replace('\\', '\\\\').replace('"', '\\"') + '"'


def lean_list(items):
    return '[' + ', '.join(items) + ']'


def _intent_of(test):
    """`<x> == Intent.NAME` / `<x> == process_comms.Intent.NAME` -> NAME"""
    if isinstance(test, ast.Compare) and len(test.comparators) == 1 and isinstance(test.ops[0], ast.Eq):
        c = test.comparators[0]
        if isinstance(c, ast.Attribute):
            v = c.value
            if (isinstance(v, ast.Attribute) and v.attr == 'Intent') or (isinstance(v, ast.Name) and v.id == 'Intent'):
                return c.attr
    return None


def _callee_of(body):
    """name of the method a dispatch branch runs"""
    calls = [n for stmt in body for n in ast.walk(stmt) if isinstance(n, ast.Call)]
    for call in calls:
        f = call.func
        if isinstance(f, ast.Attribute) and f.attr == '_schedule_rpc' and call.args:
            a = call.args[0]
            if isinstance(a, ast.Attribute):
                return a.attr
            return ast.unparse(a)
    for call in calls:
        f = call.func
        if isinstance(f, ast.Attribute) and isinstance(f.value, ast.Name) and f.value.id == 'self':
            return f.attr
    return '?'


def dispatch_table(fn):
    rows = []
    for node in ast.walk(fn):
        if isinstance(node, ast.If):
            name = _intent_of(node.test)
            if name is not None:
                rows.append((node.lineno, name, _callee_of(node.body)))
    rows.sort()
    return [(n, c) for _l, n, c in rows]


def final_raise(fn):
    for stmt in reversed(fn.body):
        if isinstance(stmt, ast.Raise) and stmt.exc is not None:
            e = stmt.exc
            if isinstance(e, ast.Call):
                e = e.func
            return ast.unparse(e).split('.')[-1]
    return ''


def status_keys(fn):
    keys = []
    for node in ast.walk(fn):
        if isinstance(node, ast.Dict):
            keys += [k.value for k in node.keys if isinstance(k, ast.Constant) and isinstance(k.value, str)]
        if isinstance(node, ast.Subscript) and isinstance(node.slice, ast.Constant) and isinstance(node.ctx, ast.Store):
            keys.append(node.slice.value)
    return sorted(set(keys))


def subject_parts(fn):
    """pieces of the f-string that builds the `state_changed…` subject (whatever the variable is called)"""
    for node in ast.walk(fn):
        if isinstance(node, ast.JoinedStr) and node.values and isinstance(node.values[0], ast.Constant) \
                and str(node.values[0].value).startswith('state_changed'):
            parts = []
            for v in node.values:
                if isinstance(v, ast.Constant):
                    parts.append(str(v.value))
                else:
                    src = ast.unparse(v.value)
                    if 'from' in src:
                        parts.append('<from>')
                    elif src in ('self.state.value', 'self._state.LABEL.value', 'state_label.value', 'to_label'):
                        parts.append('<to>')
                    else:
                        parts.append('<' + src + '>')
            return parts
    return []


def probe_subject(plumpy):
    """The subject template, observed rather than parsed (robust against renamed locals): run a trivial process with a recording
    communicator, take the announcement of created -> running (two distinct labels) and abstract the labels; accept the
    template only if it reproduces all three announcements.  None when the probe is inconclusive (then the AST is used)."""
    import asyncio
    import kiwipy

    class Rec(kiwipy.LocalCommunicator):
        def __init__(self):
            super().__init__()
            self.sent = []

        def broadcast_send(self, body, sender=None, subject=None, correlation_id=None):
            self.sent.append(subject)
            return True

    class Probe(plumpy.Process):
        def run(self):
            return None

    loop = asyncio.new_event_loop()
    try:
        comm = Rec()
        Probe(loop=loop, communicator=comm, pid='probe').execute()
    except Exception:  # noqa
        return None
    finally:
        loop.close()
    want = [(None, 'created'), ('created', 'running'), ('running', 'finished')]
    if len(comm.sent) != 3 or not all(isinstance(x, str) for x in comm.sent):
        return None
    mid = comm.sent[1]
    if mid.count('created') != 1 or mid.count('running') != 1:
        return None
    tmpl = mid.replace('created', '\x00F').replace('running', '\x00T')
    for (a, b), got in zip(want, comm.sent):
        if tmpl.replace('\x00F', str(a)).replace('\x00T', b) != got:
            return None
    parts, cur, i = [], '', 0
    while i < len(tmpl):
        if tmpl[i] == '\x00':
            if cur:
                parts.append(cur)
            cur = ''
            parts.append('<from>' if tmpl[i + 1] == 'F' else '<to>')
            i += 2
        else:
            cur += tmpl[i]
            i += 1
    if cur:
        parts.append(cur)
    return parts


def init_facts(fn):
    flt, ident = '', ''
    for node in ast.walk(fn):
        if isinstance(node, ast.Call) and isinstance(node.func, ast.Attribute) and node.func.attr == 'BroadcastFilter':
            for kw in node.keywords:
                if kw.arg == 'subject':
                    v = kw.value
                    if isinstance(v, ast.Call) and v.args and isinstance(v.args[0], ast.Constant):
                        flt = v.args[0].value
                    elif isinstance(v, ast.Constant):
                        flt = v.value
        if isinstance(node, ast.Call) and isinstance(node.func, ast.Attribute) and node.func.attr == 'add_rpc_subscriber':
            for kw in node.keywords:
                if kw.arg == 'identifier':
                    ident = ast.unparse(kw.value)
    return flt, ident


def probe_dispatch(plumpy):
    """(rpcDispatch, broadcastDispatch, exception class raised for an unknown intent, status keys), PROBED on a real process:
    `_schedule_rpc` of the instance is replaced by a recorder, then `message_receive` / `broadcast_receive` are called with
    every Intent constant and an unknown one.  How the dispatch is written (if-chain, dictionary, shared helper) does not
    matter.  Returns None when the probe is inconclusive (then the AST is used)."""
    import asyncio
    pc = plumpy.process_comms

    class Probe(plumpy.Process):
        def run(self):
            return None
    loop = asyncio.new_event_loop()
    try:
        p = Probe(loop=loop)
        called = []

        def recorder(callback, *a, **k):
            called.append(getattr(callback, '__name__', repr(callback)))
            import kiwipy
            return kiwipy.Future()      # what the real `_schedule_rpc` returns (a caller may test it against None)
        p._schedule_rpc = recorder
        intents = [(k, v) for k, v in vars(pc.Intent).items() if not k.startswith('_') and isinstance(v, str)]
        order = {'PLAY': 0, 'PAUSE': 1, 'KILL': 2, 'STATUS': 3}
        intents.sort(key=lambda kv: order.get(kv[0], 9))
        rpc, bc = [], []
        for name, value in intents:
            del called[:]
            try:
                r = p.message_receive(None, {pc.INTENT_KEY: value, pc.MESSAGE_TEXT_KEY: None})
            except Exception:  # noqa
                continue
            if called:
                rpc.append((name, called[0]))
            elif isinstance(r, dict):
                rpc.append((name, 'get_status_info'))
        for name, value in intents:
            del called[:]
            try:
                p.broadcast_receive(None, {pc.MESSAGE_TEXT_KEY: None}, None, value, None)
            except Exception:  # noqa
                continue
            if called:
                bc.append((name, called[0]))
        try:
            p.message_receive(None, {pc.INTENT_KEY: 'no-such-intent', pc.MESSAGE_TEXT_KEY: None})
            unknown = ''
        except Exception as e:  # noqa
            unknown = type(e).__name__
        info = {}
        p.get_status_info(info)
        return rpc, bc, unknown, sorted(info)
    except Exception:  # noqa
        return None
    finally:
        loop.close()


def failure_candidates():
    """name -> exception class, the broadcast failures tried by `probe_tolerated`: the three kinds the property names first (in
    the order of the source), then every proper base class of theirs up to Exception, then unrelated classes."""
    import asyncio
    import kiwipy
    import aio_pika.exceptions as ae
    out = {'ConnectionClosed': ae.ConnectionClosed, 'ChannelInvalidStateError': ae.ChannelInvalidStateError,
           'TimeoutError': kiwipy.TimeoutError}
    named = set(out.values())
    for cls in list(out.values()):
        for base in cls.__mro__[1:]:
            if base in (BaseException, object) or base in named:
                continue
            named.add(base)
            out[f'{base.__module__}.{base.__name__}'] = base
    for cls in (RuntimeError, ValueError, KeyError, OSError, ConnectionError, asyncio.TimeoutError, asyncio.InvalidStateError,
                getattr(kiwipy, 'UnroutableError', RuntimeError), getattr(kiwipy, 'CommunicatorClosed', RuntimeError),
                getattr(ae, 'AMQPError', RuntimeError), getattr(ae, 'ChannelClosed', RuntimeError)):
        if cls not in named:
            named.add(cls)
            out[f'{cls.__module__}.{cls.__name__}'] = cls
    return out


def probe_tolerated(plumpy):
    """Names of the candidate failures of the state-change broadcast the process survives, PROBED: a trivial process whose
    communicator raises the candidate at the created -> running announcement must still finish.  None when inconclusive."""
    import asyncio
    import kiwipy

    class Probe(plumpy.Process):
        def run(self):
            return None

    class Failing(kiwipy.LocalCommunicator):
        def __init__(self, exc):
            super().__init__()
            self.exc, self.n = exc, 0

        def broadcast_send(self, body, sender=None, subject=None, correlation_id=None):
            self.n += 1
            if self.n == 2:
                raise self.exc
            return True

    tolerated = []
    try:
        for name, cls in failure_candidates().items():
            try:
                exc = cls('injected')
            except Exception:  # noqa
                exc = cls()
            loop = asyncio.new_event_loop()
            try:
                comm = Failing(exc)
                p = Probe(loop=loop, communicator=comm, pid='probe')
                try:
                    p.execute()
                    ok = p.state == plumpy.ProcessState.FINISHED and comm.n == 3
                except BaseException:  # noqa
                    ok = False
            finally:
                loop.close()
            if ok:
                tolerated.append(name)
        return tolerated
    except Exception:  # noqa
        return None


def gen_comms(plumpy, repo, header):
    src = open(os.path.join(repo, 'src', 'plumpy', 'processes.py')).read()
    tree = ast.parse(src)
    fns = {}
    for node in ast.walk(tree):
        if isinstance(node, ast.ClassDef) and node.name == 'Process':
            for ch in node.body:
                if isinstance(ch, (ast.FunctionDef, ast.AsyncFunctionDef)):
                    fns[ch.name] = ch
    out = [header, 'namespace Gen', '']

    def table(name, rows):
        out.append(f'def {name} : List (String × String) := ' + lean_list(f'({lean_str(a)}, {lean_str(b)})' for a, b in rows))

    probed = probe_dispatch(plumpy)
    if probed is not None:
        rpc, bc, unknown, skeys = probed
    else:
        rpc = dispatch_table(fns['message_receive']) if 'message_receive' in fns else []
        bc = dispatch_table(fns['broadcast_receive']) if 'broadcast_receive' in fns else []
        unknown = final_raise(fns['message_receive']) if 'message_receive' in fns else ''
        skeys = status_keys(fns['get_status_info']) if 'get_status_info' in fns else []
    table('rpcDispatch', rpc)
    table('broadcastDispatch', bc)
    out.append(f'def rpcUnknownIntentRaises : String := {lean_str(unknown)}')
    out.append('def statusInfoKeys : List String := ' + lean_list(lean_str(k) for k in skeys))
    parts = probe_subject(plumpy) or (subject_parts(fns['on_entered']) if 'on_entered' in fns else [])
    out.append('def stateChangedSubject : List String := ' + lean_list(lean_str(p) for p in parts))
    flt, ident = init_facts(fns['init']) if 'init' in fns else ('', '')
    out.append(f'def broadcastSubjectFilter : String := {lean_str(flt)}')
    out.append(f'def subscriberIdentifier : String := {lean_str(ident)}')
    out.append('')
    out.append('end Gen')
    return '\n'.join(out) + '\n'
