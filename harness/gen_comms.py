"""Tables for the communication model (lean/PlumpyModel/Gen/Comms.lean), derived from the source by AST.

Called by gen_tables.py.  What is extracted from src/plumpy/processes.py:

* `rpcDispatch` / `broadcastDispatch`: for every `if intent == Intent.X:` (resp. `if subject == Intent.X:`) of
  `Process.message_receive` / `Process.broadcast_receive`, in branch order, the pair (X, name of the method the branch
  hands to `_schedule_rpc`, or of the first method of `self` it calls);
* `rpcUnknownIntentRaises`: the exception class raised after the chain of `message_receive`;
* `statusInfoKeys`: the keys `get_status_info` writes;
* `stateChangedSubject`: the pieces of the f-string that builds the `state_changed…` subject in `on_entered`
  (`<from>` stands for the label of the state left, `<to>` for `self.state.value`);
* `broadcastSubjectFilter`: the regular expression given to the `BroadcastFilter` in `Process.init`;
* `subscriberIdentifier`: the expression passed as `identifier=` when subscribing.
"""
import ast
import os


def lean_str(s):
    return '"' + str(s).replace('\\', '\\\\').replace('"', '\\"') + '"'


def lean_list(items):
    return '[' + ', '.join(items) + ']'


def _intent_of(test):
    """`<x> == Intent.NAME` / `<x> == process_comms.Intent.NAME` -> NAME"""
    if isinstance(test, ast.Compare) and len(test.comparators) == 1 and isinstance(test.ops[0], ast.Eq):
        c = test.comparators[0]
        if isinstance(c, ast.Attribute):
            v = c.value
            if (isinstance(v, ast.Attribute) and v.attr == 'Intent') or (isinstance(v, ast.Name) and v.id == 'Intent'):
                return c.attr
    return None


def _callee_of(body):
    """name of the method a dispatch branch runs"""
    calls = [n for stmt in body for n in ast.walk(stmt) if isinstance(n, ast.Call)]
    for call in calls:
        f = call.func
        if isinstance(f, ast.Attribute) and f.attr == '_schedule_rpc' and call.args:
            a = call.args[0]
            if isinstance(a, ast.Attribute):
                return a.attr
            return ast.unparse(a)
    for call in calls:
        f = call.func
        if isinstance(f, ast.Attribute) and isinstance(f.value, ast.Name) and f.value.id == 'self':
            return f.attr
    return '?'


def dispatch_table(fn):
    rows = []
    for node in ast.walk(fn):
        if isinstance(node, ast.If):
            name = _intent_of(node.test)
            if name is not None:
                rows.append((node.lineno, name, _callee_of(node.body)))
    rows.sort()
    return [(n, c) for _l, n, c in rows]


def final_raise(fn):
    for stmt in reversed(fn.body):
        if isinstance(stmt, ast.Raise) and stmt.exc is not None:
            e = stmt.exc
            if isinstance(e, ast.Call):
                e = e.func
            return ast.unparse(e).split('.')[-1]
    return ''


def status_keys(fn):
    keys = []
    for node in ast.walk(fn):
        if isinstance(node, ast.Dict):
            keys += [k.value for k in node.keys if isinstance(k, ast.Constant) and isinstance(k.value, str)]
        if isinstance(node, ast.Subscript) and isinstance(node.slice, ast.Constant) and isinstance(node.ctx, ast.Store):
            keys.append(node.slice.value)
    return sorted(set(keys))


def subject_parts(fn):
    """pieces of the f-string that builds the `state_changed…` subject (whatever the variable is called)"""
    for node in ast.walk(fn):
        if isinstance(node, ast.JoinedStr) and node.values and isinstance(node.values[0], ast.Constant) \
                and str(node.values[0].value).startswith('state_changed'):
            parts = []
            for v in node.values:
                if isinstance(v, ast.Constant):
                    parts.append(str(v.value))
                else:
                    src = ast.unparse(v.value)
                    if 'from' in src:
                        parts.append('<from>')
                    elif src in ('self.state.value', 'self._state.LABEL.value', 'state_label.value', 'to_label'):
                        parts.append('<to>')
                    else:
                        parts.append('<' + src + '>')
            return parts
    return []


def init_facts(fn):
    flt, ident = '', ''
    for node in ast.walk(fn):
        if isinstance(node, ast.Call) and isinstance(node.func, ast.Attribute) and node.func.attr == 'BroadcastFilter':
            for kw in node.keywords:
                if kw.arg == 'subject':
                    v = kw.value
                    if isinstance(v, ast.Call) and v.args and isinstance(v.args[0], ast.Constant):
                        flt = v.args[0].value
                    elif isinstance(v, ast.Constant):
                        flt = v.value
        if isinstance(node, ast.Call) and isinstance(node.func, ast.Attribute) and node.func.attr == 'add_rpc_subscriber':
            for kw in node.keywords:
                if kw.arg == 'identifier':
                    ident = ast.unparse(kw.value)
    return flt, ident


def gen_comms(plumpy, repo, header):
    src = open(os.path.join(repo, 'src', 'plumpy', 'processes.py')).read()
    tree = ast.parse(src)
    fns = {}
    for node in ast.walk(tree):
        if isinstance(node, ast.ClassDef) and node.name == 'Process':
            for ch in node.body:
                if isinstance(ch, (ast.FunctionDef, ast.AsyncFunctionDef)):
                    fns[ch.name] = ch
    out = [header, 'namespace Gen', '']

    def table(name, rows):
        out.append(f'def {name} : List (String × String) := ' + lean_list(f'({lean_str(a)}, {lean_str(b)})' for a, b in rows))

    table('rpcDispatch', dispatch_table(fns['message_receive']) if 'message_receive' in fns else [])
    table('broadcastDispatch', dispatch_table(fns['broadcast_receive']) if 'broadcast_receive' in fns else [])
    out.append(f'def rpcUnknownIntentRaises : String := {lean_str(final_raise(fns["message_receive"]) if "message_receive" in fns else "")}')
    out.append('def statusInfoKeys : List String := ' + lean_list(
        lean_str(k) for k in (status_keys(fns['get_status_info']) if 'get_status_info' in fns else [])))
    out.append('def stateChangedSubject : List String := ' + lean_list(
        lean_str(p) for p in (subject_parts(fns['on_entered']) if 'on_entered' in fns else [])))
    flt, ident = init_facts(fns['init']) if 'init' in fns else ('', '')
    out.append(f'def broadcastSubjectFilter : String := {lean_str(flt)}')
    out.append(f'def subscriberIdentifier : String := {lean_str(ident)}')
    out.append('')
    out.append('end Gen')
    return '\n'.join(out) + '\n'
