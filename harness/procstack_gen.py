"""C18 — scenario generators, line protocol and Python monitors for the process-stack component (no plumpy import here).

Scenario / schedule format: see harness/procstack.py.
"""
END_TOK = {'next': 'N', 'wait': 'W', 'finish': 'F', 'raise': 'R', 'base': 'B'}


def code_toks(code):
    return [str(len(code))] + list(code)


def scn_line(scn):
    t = ['scn', str(len(scn['top']))] + [str(k) for k in scn['top']] + [str(len(scn['classes']))]
    for steps in scn['classes']:
        t.append(str(len(steps)))
        for st in steps:
            t.append(END_TOK[st['end']])
            t += code_toks(st['code'])
    t.append(str(len(scn['cbs'])))
    for c in scn['cbs']:
        t += code_toks(c)
    if scn.get('cbraise'):   # trailer only when there is something to say: the lines of the older scenarios are unchanged
        t += [str(len(scn['cbraise']))] + [str(k) for k in scn['cbraise']]
    return ' '.join(t)


def show_cur(c):
    return '-' if c is None else str(c)


def show_obs(o, with_stack=True):
    owner, kind, cur, stack = o[:4]
    st = '.'.join(str(x) for x in (stack or [])) if with_stack else '?'
    return f"{owner}:{kind}:{show_cur(cur)}:{st}"


def impl_lines(r, with_stack=True):
    """canonical observation lines of a run, one per op (same format as `pmodel procstack`)"""
    out = []
    for ch in r['chunks']:
        if 'obs' not in ch:
            out.append('incomplete')
            continue
        out.append(f"obs={','.join(show_obs(o, with_stack) for o in ch['obs'])} ready={','.join(map(str, ch['ready']))} "
                   f"parked={','.join(map(str, ch['parked']))} loop={show_cur(ch['loop_cur'])}")
    return out


def strip_stacks(line):
    """model line with the stack column replaced by '?' (used when the implementation no longer exposes PROCESS_STACK)"""
    if not line.startswith('obs='):
        return line
    head, _, rest = line.partition(' ')
    obs = head[4:]
    if obs:
        obs = ','.join(':'.join(o.split(':')[:3] + ['?']) for o in obs.split(','))
    return f'obs={obs} {rest}'


def op_lines(scn, r):
    return [scn_line(scn)] + [ch['op'] for ch in r['chunks'][1:]]


# ------------------------------------------------------------------------------------------------- monitors (Python, model-free)

LIFECYCLE_HOOKS = ['on_create', 'on_entering', 'on_entered', 'on_exiting', 'on_run', 'on_running', 'on_exit_running',
                   'on_wait', 'on_waiting', 'on_exit_waiting', 'on_finish', 'on_finished', 'on_except', 'on_excepted',
                   'on_kill', 'on_killed', 'on_terminated', 'on_close']


CBEXC = 'h.callback_excepted'


def is_lifecycle(kind):
    return kind.startswith('h.') and kind[2:] in LIFECYCLE_HOOKS


def is_outside_hook(kind):
    """hooks that the code runs outside _process_scope: the lifecycle hooks and callback_excepted"""
    return is_lifecycle(kind) or kind == CBEXC


def sandwiched(stack):
    """the same process twice on the stack with another one in between (a part of `outer` run from code of `inner` that runs
    inside a step of `outer`): the shape that tells `pop()` from `remove(self)`"""
    if not stack:
        return False
    for i, p in enumerate(stack):
        for j in range(i + 2, len(stack)):
            if stack[j] == p and any(q != p for q in stack[i + 1:j]):
                return True
    return False


def expected_final(steps):
    for st in steps:
        if st['end'] == 'raise':
            return ('excepted', 'Boom')
        if st['end'] == 'finish':
            return ('finished', None)
        if st['end'] == 'base':
            return ('running', None)            # a BaseException is not handled by step(): no transition, the stepping ends
    return ('excepted', 'AttributeError')   # Continue/Wait to a step that does not exist (never generated)


def monitor(scn, r, class_of=None):
    """The property's clauses evaluated on the observations of one run of the real code. -> list of (signature, clause, detail)

    * in-scope code points (step segments, continuations, after awaits, callbacks, output hooks, code right after
      launch/execute/call_soon/out returned): `Process.current()` must be the owner            -> current-wrong:<kind>
    * lifecycle hooks: the property text says the owner as well. The code runs them outside the scope -> known finding
      `hook-outside-scope:<hook>` when they observe the *previous* value (what the code that created the process saw);
      any other value is a failure of the restore clause                                          -> hook-current-unexpected:<hook>
    * restore clause on the stack itself: every code point finds the stack its task inherited (+ its own entry inside a
      scope), however many scopes were entered and left meanwhile                                  -> stack-not-restored:<kind>
    * harness code between two callbacks sees None, or the process whose step is inside `execute()` -> loop-context-wrong
    * no scope assertion / stray exception: every process ends as its program says                 -> scope-assertion-failed, unexpected-final
      (a process whose step was left through a cancellation stays in the state it was in; one whose step raised a BaseException
      stays RUNNING: neither is a transition)
    * `h.callback_excepted` (the public hook called after a scheduled callback raised, i.e. after the callback's scope was left, in
      the callback's task): must observe the *previous value* — what the code that called `call_soon` observed at that moment —
      and the stack that code had.  Any other value                                                -> hook-current-unexpected:callback_excepted
      (+ stack-not-restored:h.callback_excepted); the previous value, when it is not the owner, is one more hook outside the scope
                                                                                                   -> hook-outside-scope:callback_excepted (F14)
    The kinds `absorbed` (the `except` clause of a parent that awaited a child inline and got a BaseException / cancellation out
    of it) and `iret` (after that statement) are in-scope code points of the parent: "after the scope is left - also through a
    BaseException or a cancellation - the previous value is restored" is `current-wrong:absorbed` / `stack-not-restored:absorbed`.
    """
    out = []
    creator = r['creator']
    for i, ch in enumerate(r['chunks']):
        for o in ch.get('obs', []):
            owner, kind, cur, stack, expect = o[:5]
            if kind == CBEXC:
                prev = o[5][0] if len(o) > 5 else None
                if cur != prev:
                    out.append(('hook-current-unexpected:callback_excepted',
                                'once scoped code returned, the previous value is what other code observes',
                                dict(op_index=i, owner=owner, observed=cur, previous=prev)))
                elif cur != owner:
                    out.append(('hook-outside-scope:callback_excepted', 'current() is the process inside its hooks',
                                dict(op_index=i, owner=owner, observed=cur)))
            elif is_lifecycle(kind):
                if cur != owner:
                    prev = creator.get(owner, creator.get(str(owner)))
                    if cur == prev:
                        out.append((f'hook-outside-scope:{kind[2:]}', 'current() is the process inside its hooks',
                                    dict(op_index=i, owner=owner, observed=cur)))
                    else:
                        out.append((f'hook-current-unexpected:{kind[2:]}',
                                    'once scoped code returned, the previous value is what other code observes',
                                    dict(op_index=i, owner=owner, observed=cur, previous=prev)))
            else:
                if cur != owner:
                    out.append((f'current-wrong:{kind}', 'current() is the process whose step / continuation / callback / '
                                'output hook is running', dict(op_index=i, owner=owner, observed=cur)))
            if expect is not None and stack is not None and stack != expect:
                out.append((f'stack-not-restored:{kind}', 'the stack of a task is what it inherited plus the scopes it is in',
                            dict(op_index=i, owner=owner, observed=stack, expected=expect)))
        if 'loop_cur' in ch and ch['loop_cur'] != ch['loop_expected']:
            out.append(('loop-context-wrong', 'code outside any process scope observes the previous value',
                        dict(op_index=i, observed=ch['loop_cur'], expected=ch['loop_expected'])))
    if r.get('error'):
        out.append((f"run-error:{r['error'].split(':')[0]}", 'the run completes', dict(error=r['error'])))
    elif class_of is not None:
        interrupted = {int(k): v for k, v in (r.get('interrupted') or {}).items()}
        for pid, fin in enumerate(r['finals']):
            exp = ((interrupted[pid], None) if pid in interrupted else ('killed', None) if pid in r.get('killed', [])
                   else expected_final(scn['classes'][class_of[pid]]))
            if fin is None or tuple(fin) != exp:
                sig = 'scope-assertion-failed' if fin and fin[1] == 'AssertionError' else f'unexpected-final:{fin[0] if fin else None}:{fin[1] if fin else None}'
                out.append((sig, 'the assertion of _process_scope never fails; processes end as their program says',
                            dict(pid=pid, final=fin, expected=exp)))
    return out


# ------------------------------------------------------------------------------------------------- scenario generators

def S(code, end='finish'):
    return {'code': list(code), 'end': end}


def corpus():
    """small scenarios explored over ALL interleavings (name, scenario)"""
    leaf1 = [S(['o', 'a', 'o'])]
    leaf2 = [S(['a', 'o', 'a'])]
    out = [
        ('witness-F14', dict(classes=[[S([])]], cbs=[], top=[0])),
        ('two-1await', dict(classes=[leaf1], cbs=[], top=[0, 0])),
        ('two-2await', dict(classes=[leaf2], cbs=[], top=[0, 0])),
        ('three-1await', dict(classes=[leaf1], cbs=[], top=[0, 0, 0])),
        ('four-1await', dict(classes=[[S(['a'])]], cbs=[], top=[0, 0, 0, 0])),
        ('two-3await-cont', dict(classes=[[S(['a', 'a'], 'next'), S(['a', 'o'])]], cbs=[], top=[0, 0])),
        ('launch-child', dict(classes=[[S(['l1', 'a', 'o'])], leaf1], cbs=[], top=[0])),
        ('launch-child+peer', dict(classes=[[S(['a', 'l1', 'a'])], [S(['a', 'o'])]], cbs=[], top=[0, 1])),
        ('launch-two-children', dict(classes=[[S(['l1', 'l1', 'a'])], [S(['a', 'u'])]], cbs=[], top=[0])),
        ('grandchild', dict(classes=[[S(['l1', 'a'])], [S(['a', 'l2'])], [S(['a', 'o'])]], cbs=[], top=[0])),
        ('nested-execute+peer', dict(classes=[[S(['a', 'x1', 'o'])], leaf1], cbs=[], top=[0, 1])),
        ('nested-execute-twice', dict(classes=[[S(['x1', 'a', 'x1'])], [S(['a'])]], cbs=[], top=[0, 1])),
        ('nested-in-nested+peer', dict(classes=[[S(['x1', 'o'])], [S(['a', 'x2'])], [S(['a', 'o'])]], cbs=[], top=[0, 2])),
        ('two-nesters', dict(classes=[[S(['a', 'x1', 'a'])], [S(['a', 'o'])]], cbs=[], top=[0, 0])),
        ('nested-raises', dict(classes=[[S(['x1', 'o', 'a'])], [S(['a'], 'raise')]], cbs=[], top=[0, 1])),
        ('callback-await', dict(classes=[[S(['c0', 'a', 'o'])]], cbs=[['a', 'o']], top=[0, 0])),
        ('callback-after-termination', dict(classes=[[S(['c0', 'c0'])]], cbs=[['o', 'a', 'a']], top=[0, 0])),
        ('callback-chain-nested', dict(classes=[[S(['c0', 'a'])], [S(['a', 'o'])]], cbs=[['c1', 'x1'], ['o', 'a']], top=[0])),
        ('wait-resume+peer', dict(classes=[[S(['o'], 'wait'), S(['a', 'o'])], leaf1], cbs=[], top=[0, 1])),
        ('wait-in-nested', dict(classes=[[S(['x1', 'o'])], [S(['a'], 'wait'), S(['o'])]], cbs=[], top=[0, 0])),
        ('out-continue-raise', dict(classes=[[S(['u', 'a', 'u'], 'next'), S(['a'], 'raise')]], cbs=[], top=[0, 0])),
        ('child-of-nested', dict(classes=[[S(['x1', 'a'])], [S(['l2', 'a'])], [S(['a', 'o'])]], cbs=[], top=[0])),
        ('kill-while-waiting+peer', dict(classes=[[S(['o'], 'wait'), S(['o'])], [S(['a', 'o'])]], cbs=[], top=[0, 1], kills=[0])),
        ('kill-nested-while-waiting', dict(classes=[[S(['x1', 'o', 'a'])], [S(['a'], 'wait'), S(['o'])]], cbs=[], top=[0, 0],
                                           kills=[2, 3])),
        ('kill-child-while-waiting', dict(classes=[[S(['l1', 'a'], 'wait'), S([])], [S(['u'], 'wait'), S(['o'])]], cbs=[['o']],
                                          top=[0], kills=[0, 1], ext=[[0, 0]])),
        ('external-callback', dict(classes=[[S(['a', 'o'])]], cbs=[['o', 'a', 'o']], top=[0], ext=[[0, 0]])),
        ('external-callbacks+peer', dict(classes=[[S(['a'])], [S(['a', 'o'])]], cbs=[['o']], top=[0, 1], ext=[[0, 0], [1, 0]])),
        ('external-callback-in-nested', dict(classes=[[S(['x1', 'o'])], [S(['a'])]], cbs=[['a', 'o']], top=[0], ext=[[0, 0]])),
        ('sync-steps-only', dict(classes=[[S(['o', 'u', 'l1', 'x1', 'c0'], 'next'), S(['o'])], [S(['o'])]], cbs=[['o']], top=[0, 0])),
    ]
    for name, scn in list(out):
        if scn['cbs']:
            out.append((name + '+marked', dict(scn, cbmark=list(range(len(scn['cbs']))))))
    return out


def random_code(rng, k, n_classes, n_cbs, in_cb=False, cb_index=0, max_len=5):
    """acts of a step of class k (or of callback cb_index): children / nested only of later classes, so that every program
    is finite; callbacks only execute the last class (a leaf) and schedule later callbacks"""
    code = []
    n_aw = 0
    n_spawn = 0
    for _ in range(rng.randint(0, max_len)):
        choices = ['o', 'a', 'a']
        if not in_cb:
            choices.append('u')
            if n_cbs:
                choices.append('c')
            if k + 1 < n_classes:
                choices += ['l', 'x']
        else:
            if cb_index + 1 < n_cbs:
                choices.append('c')
            choices.append('x')
        a = rng.choice(choices)
        if a == 'a':
            if n_aw >= 3:
                continue
            n_aw += 1
            code.append('a')
        elif a in 'lxc' and n_spawn >= 2:
            continue
        elif a == 'l':
            n_spawn += 1
            code.append(f'l{rng.randint(k + 1, n_classes - 1)}')
        elif a == 'x':
            n_spawn += 1
            code.append(f'x{n_classes - 1}' if in_cb else f'x{rng.randint(k + 1, n_classes - 1)}')
        elif a == 'c':
            n_spawn += 1
            code.append(f'c{rng.randint(cb_index + 1, n_cbs - 1)}' if in_cb else f'c{rng.randrange(n_cbs)}')
        else:
            code.append(a)
    return code


def random_scenario(rng, big=False):
    n_classes = rng.randint(1, 4)
    n_cbs = rng.randint(0, 2)
    classes = []
    for k in range(n_classes):
        leaf = (k == n_classes - 1)
        steps = []
        n_steps = rng.randint(1, 3)
        for i in range(n_steps):
            if leaf:
                code = [a for a in random_code(rng, k, n_classes, 0, max_len=4)]
            else:
                code = random_code(rng, k, n_classes, n_cbs, max_len=6 if big else 5)
            last = (i == n_steps - 1)
            end = (rng.choice(['finish', 'finish', 'finish', 'raise']) if last else rng.choice(['next', 'next', 'wait']))
            steps.append(S(code, end))
        classes.append(steps)
    cbs = [random_code(rng, 0, n_classes, n_cbs, in_cb=True, cb_index=j, max_len=4) for j in range(n_cbs)]
    top = [rng.randrange(n_classes) for _ in range(rng.randint(1, 4))]
    ext = [[rng.randrange(len(top)), rng.randrange(n_cbs)] for _ in range(rng.choice([0, 0, 1, 2]))] if n_cbs else []
    has_wait = any(st['end'] == 'wait' for c in classes for st in c)
    kills = sorted({rng.randrange(len(top) + 2) for _ in range(rng.choice([0, 1, 2]))}) if has_wait else []
    scn = dict(classes=classes, cbs=cbs, top=top, ext=ext, kills=kills)
    if cbs and rng.random() < 0.3:
        scn['cbmark'] = [j for j in range(n_cbs) if rng.random() < 0.7]   # rendering only (marked plain functions), not in the model line
    return scn


def scenario_size(scn):
    return (sum(len(st['code']) + 1 for c in scn['classes'] for st in c) + sum(len(c) + 1 for c in scn['cbs']) + len(scn['top'])
            + len(scn.get('ext', [])) + len(scn.get('kills', [])) + len(scn.get('cancels', [])) + len(scn.get('cbraise', [])))


# ------------------------------------------------------------------------------------------------- inline awaits, BaseExceptions, cancellation

def inline_family(depth, awaits, ending, cancel, peer=True):
    """the families of harness/c18_inline.py as scenarios: class k (k < depth-1) awaits class k+1 inline, samples, awaits once
    more; the innermost class has `awaits` await points and ends ok / with an Exception / with a BaseException; a peer process
    with awaits of its own runs in another task; `cancel`: the harness may cancel the stepping task of the outermost process"""
    classes = []
    for k in range(depth - 1):
        classes.append([S([f'i{k + 1}', 'o', 'a', 'o'])])
    classes.append([S(['a'] * awaits + ['o'], {'ok': 'finish', 'exc': 'raise', 'base': 'base'}[ending])])
    top = [0]
    if peer:
        classes.append([S(['o', 'a', 'o', 'a'])])
        top.append(depth)
    return dict(classes=classes, cbs=[], top=top, cancels=[0] if cancel else [])


def corpus_inline():
    """small scenarios with children awaited inline, BaseException endings and cancellations, explored over ALL interleavings
    (the cancellation at every possible moment)"""
    out = []
    for depth in (2, 3):
        for awaits in (1, 2):
            for ending in ('ok', 'exc', 'base'):
                out.append((f'inline-d{depth}-a{awaits}-{ending}', inline_family(depth, awaits, ending, False)))
            out.append((f'inline-d{depth}-a{awaits}-cancel', inline_family(depth, awaits, 'ok', True, peer=(depth == 2))))
    leaf = [S(['a', 'o'])]
    out += [
        ('inline-base-no-handler', dict(classes=[[S(['o', 'a'], 'base')], leaf], cbs=[], top=[0, 1])),
        ('inline-cancel-top-level', dict(classes=[[S(['a', 'o', 'a'])], leaf], cbs=[], top=[0, 1], cancels=[0])),
        ('inline-cancel-twice', dict(classes=[[S(['i1', 'a', 'i1'])], [S(['a', 'a'])]], cbs=[], top=[0], cancels=[0, 0])),
        ('inline-two-children-base', dict(classes=[[S(['i1', 'i2', 'o'])], [S(['a'], 'base')], [S(['o', 'a'], 'raise')]], cbs=[], top=[0, 2])),
        ('inline-child-waits', dict(classes=[[S(['i1', 'o'])], [S(['o'], 'wait'), S(['a'])]], cbs=[], top=[0, 0])),
        ('inline-child-waits-kill', dict(classes=[[S(['i1', 'a'])], [S(['u'], 'wait'), S(['o'])], leaf], cbs=[], top=[0, 2], kills=[1])),
        ('inline-child-waits-cancel', dict(classes=[[S(['i1', 'o', 'a'])], [S([], 'wait'), S(['o'])]], cbs=[], top=[0], kills=[1], cancels=[0])),
        ('inline-child-continue-base', dict(classes=[[S(['i1', 'a', 'o'], 'next'), S(['o'])], [S(['a'], 'next'), S(['o'], 'base')]], cbs=[], top=[0, 0])),
        ('inline-in-callback', dict(classes=[[S(['c0', 'a'])], [S(['a', 'o'], 'base')]], cbs=[['i1', 'a', 'o']], top=[0], cancels=[1])),
        ('inline-external-callback-cancel', dict(classes=[[S(['a'])], [S(['a', 'u'])]], cbs=[['o', 'i1', 'o']], top=[0], ext=[[0, 0]], cancels=[1])),
        ('inline-child-launches', dict(classes=[[S(['i1', 'o'])], [S(['l2', 'a', 'c0'], 'base')], leaf], cbs=[['o']], top=[0], cancels=[1])),
        ('inline-child-executes', dict(classes=[[S(['i1', 'o'])], [S(['x2', 'a'])], [S(['a'], 'base')]], cbs=[], top=[0], cancels=[0, 1])),
        ('inline-in-nested', dict(classes=[[S(['x1', 'o'])], [S(['i2', 'a'])], [S(['a', 'o'], 'base')]], cbs=[], top=[0, 2], cancels=[2])),
        ('inline-launched-parent', dict(classes=[[S(['l1', 'a'])], [S(['i2', 'o'], 'base')], [S(['a'], 'raise')]], cbs=[], top=[0], cancels=[1])),
        ('inline-cancel-before-start', dict(classes=[[S(['i1'])], [S(['o'])]], cbs=[], top=[0, 0], cancels=[1, 0])),
        ('inline-sync-child', dict(classes=[[S(['i1', 'i1', 'o'])], [S(['o', 'u'], 'base')]], cbs=[], top=[0])),
    ]
    return out


def random_scenario_inline(rng, big=False):
    """a random scenario in which some children are awaited inline, some classes end with a BaseException and the harness may
    cancel some tasks"""
    scn = random_scenario(rng, big)
    n = len(scn['classes'])
    codes = [st['code'] for c in scn['classes'] for st in c] + scn['cbs']
    for code in codes:
        for j, a in enumerate(code):
            if a[0] in 'lx' and rng.random() < 0.6:
                code[j] = 'i' + a[1:]
    if not any(a[0] == 'i' for code in codes for a in code):
        if n == 1:
            scn['classes'].append([S(rng.choice([['a'], ['a', 'o'], ['o', 'a', 'a'], []]))])
            n = 2
        k = rng.randrange(n - 1)
        code = rng.choice(scn['classes'][k])['code']
        code.insert(rng.randint(0, len(code)), f'i{rng.randint(k + 1, n - 1)}')
    for c in scn['classes']:
        if rng.random() < 0.3:
            c[-1]['end'] = 'base'
    # tasks to cancel: mostly the stepping tasks of top-level processes that await a child inline (task id = position in `top`),
    # else any of the first tasks (other top-level processes, launched children, callbacks, nested executions)
    awaiting = [t for t, k in enumerate(scn['top']) if any(a[0] == 'i' for st in scn['classes'][k] for a in st['code'])]
    scn['cancels'] = [rng.choice(awaiting) if awaiting and rng.random() < 0.7 else rng.randrange(len(scn['top']) + 3)
                      for _ in range(rng.choice([0, 1, 1, 2, 3]))]
    return scn


# ------------------------------------------------------------------------------------------------- callbacks on the creator, callbacks that raise

def corpus_cbexc():
    """small scenarios with callbacks scheduled on the CREATOR of the running process ('p<k>') and callbacks that end by raising
    (sample in `callback_excepted`, after the callback's scope), explored over ALL interleavings.  The first ones are exactly the
    shape that tells `stack.pop()` from `stack.remove(self)` at the exit of `_process_scope`: the step of `outer` executes /
    awaits inline / launches `inner`, the step of `inner` schedules a callback on `outer`; the callback's task inherits
    [outer, inner], its scope makes it [outer, inner, outer], and what runs after that scope must find [outer, inner] again"""
    leaf = [S(['a', 'o'])]
    out = [
        ('cbexc-execute-sandwich', dict(classes=[[S(['x1', 'o'])], [S(['p0', 'a', 'a', 'o'])]], cbs=[['o']], top=[0], cbraise=[0])),
        ('cbexc-inline-sandwich', dict(classes=[[S(['i1', 'o', 'a'])], [S(['p0', 'a', 'o'])]], cbs=[['o', 'a']], top=[0], cbraise=[0])),
        ('cbexc-launch-sandwich', dict(classes=[[S(['l1', 'a', 'o'])], [S(['a', 'p0', 'o'])]], cbs=[['a', 'o']], top=[0], cbraise=[0])),
        ('cbexc-sandwich+peer', dict(classes=[[S(['x1'])], [S(['p0', 'a'])], leaf], cbs=[['a']], top=[0, 2], cbraise=[0])),
        ('cbexc-sandwich-then-scopes', dict(classes=[[S(['x1', 'o'])], [S(['p0', 'a', 'o'])], [S(['o'])]],
                                            cbs=[['o', 'c1', 'x2', 'i2'], ['o']], top=[0], cbraise=[1])),
        ('cbexc-depth3', dict(classes=[[S(['x1', 'o'])], [S(['a', 'x2', 'o'])], [S(['p0', 'a'])]], cbs=[['p1', 'o'], ['o', 'a']],
                              top=[0], cbraise=[0, 1])),
        ('cbexc-inline-depth3', dict(classes=[[S(['i1', 'o'])], [S(['i2', 'p0'])], [S(['p0', 'a'])]], cbs=[['o']], top=[0, 0], cbraise=[0])),
        ('cbexc-returns-on-creator', dict(classes=[[S(['x1', 'a'])], [S(['p0', 'a', 'p0'])], leaf], cbs=[['o', 'a']], top=[0, 2])),
        ('cbexc-own-callback', dict(classes=[[S(['c0', 'a', 'o'])]], cbs=[['o', 'a']], top=[0, 0], cbraise=[0])),
        ('cbexc-external', dict(classes=[[S(['a', 'o'])], leaf], cbs=[['a', 'o']], top=[0, 1], ext=[[0, 0]], cbraise=[0])),
        ('cbexc-external-in-nested', dict(classes=[[S(['x1', 'o'])], [S(['a'])]], cbs=[['o']], top=[0], ext=[[0, 0]], cbraise=[0])),
        ('cbexc-after-termination', dict(classes=[[S(['l1'])], [S(['a', 'p0', 'a', 'p1'])]], cbs=[['o'], ['a']], top=[0], cbraise=[0, 1])),
        ('cbexc-top-level-has-no-creator', dict(classes=[[S(['p0', 'o', 'c0'])]], cbs=[['p0', 'o']], top=[0], cbraise=[0])),
        ('cbexc-cancelled-callback', dict(classes=[[S(['x1', 'o'])], [S(['p0', 'a', 'a'])]], cbs=[['a', 'o']], top=[0], cbraise=[0], cancels=[2])),
        ('cbexc-inline-child-absorbed', dict(classes=[[S(['i1', 'o'])], [S(['p0', 'a'], 'base')], [S(['a'], 'base')]],
                                             cbs=[['i2', 'o']], top=[0], cbraise=[0], cancels=[1])),
        ('cbexc-waiting-creator', dict(classes=[[S(['l1'], 'wait'), S(['o'])], [S(['a', 'p0'], 'wait'), S(['p0'])]], cbs=[['o']],
                                       top=[0], cbraise=[0], kills=[0, 1])),
        ('cbexc-chain-up', dict(classes=[[S(['l1', 'a'])], [S(['x2', 'a'])], [S(['p0', 'a'])]], cbs=[['o', 'p1'], ['o', 'a']],
                                top=[0], cbraise=[1])),
        ('cbexc-sync-only', dict(classes=[[S(['x1', 'x1', 'o'])], [S(['p0', 'o', 'p1'])]], cbs=[['o', 'c1'], ['o']], top=[0], cbraise=[0, 1])),
    ]
    return out


def _safe_cbs(cbs):
    """callbacks that instantiate nothing, directly or through the callbacks they schedule (which are later ones)"""
    safe = [False] * len(cbs)
    for j in range(len(cbs) - 1, -1, -1):
        safe[j] = all(a[0] not in 'xil' and (a[0] not in 'cp' or safe[int(a[1:])]) for a in cbs[j])
    return [j for j in range(len(cbs)) if safe[j]]


def _cb_spawnable(scn):
    """the classes that callbacks instantiate, directly or through the children of those: such a class may only schedule `safe`
    callbacks on its creator (a callback that instantiates it again would never end); the generators give them no `c` acts"""
    spawns = lambda code: {int(a[1:]) for a in code if a[0] in 'lxi'}  # noqa: E731
    todo = set().union(*[spawns(c) for c in scn['cbs']]) if scn['cbs'] else set()
    seen = set()
    while todo:
        k = todo.pop()
        if k in seen:
            continue
        seen.add(k)
        for st in scn['classes'][k]:
            todo |= spawns(st['code'])
    return seen


def random_scenario_cbexc(rng, big=False):
    """a random scenario (half of them with inline awaits / BaseException endings / cancellations) in which processes also
    schedule callbacks on their creator and some callbacks end by raising"""
    scn = random_scenario_inline(rng, big) if rng.random() < 0.5 else random_scenario(rng, big)
    if len(scn['classes']) == 1:
        # somebody has to be created by a process: a new first class that executes / awaits inline / launches the old one
        scn['classes'].insert(0, [S([rng.choice('xil') + '1'] + rng.choice([[], ['o'], ['a'], ['a', 'o']]))])
        scn['cbs'] = [[a[0] + str(int(a[1:]) + 1) if a[0] in 'xi' else a for a in c] for c in scn['cbs']]
        scn['top'] = ([0] + [k + 1 for k in scn['top']])[:4] if rng.random() < 0.5 else [0] * len(scn['top'])
    n = len(scn['classes'])
    if not scn['cbs']:
        scn['cbs'] = [rng.choice([['o'], ['a', 'o'], ['o', 'a'], []])]
    n_cbs = len(scn['cbs'])
    # callbacks schedule later callbacks on the creator of their process
    for j, c in enumerate(scn['cbs'][:-1]):
        if rng.random() < 0.3:
            c.insert(rng.randint(0, len(c)), f'p{rng.randint(j + 1, n_cbs - 1)}')
    safe = _safe_cbs(scn['cbs'])
    restricted = _cb_spawnable(scn)
    targets = lambda k: safe if k in restricted else list(range(n_cbs))  # noqa: E731
    placed = 0
    for k in range(1, n):
        for st in scn['classes'][k]:
            if targets(k) and rng.random() < 0.6:
                st['code'].insert(rng.randint(0, len(st['code'])), f'p{rng.choice(targets(k))}')
                placed += 1
    if not placed:
        k = rng.randrange(1, n)
        if targets(k):
            code = rng.choice(scn['classes'][k])['code']
            code.insert(rng.randint(0, len(code)), f'p{rng.choice(targets(k))}')
    if targets(0) and rng.random() < 0.25:   # also on the first class: mostly instantiated at top level (no creator, nothing scheduled)
        code = rng.choice(scn['classes'][0])['code']
        code.insert(rng.randint(0, len(code)), f'p{rng.choice(targets(0))}')
    scn['cbraise'] = [j for j in range(n_cbs) if rng.random() < 0.6] or [rng.randrange(n_cbs)]
    return scn
