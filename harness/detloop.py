"""Deterministic scheduling of the real code: an asyncio loop that runs exactly one ready callback per `step_one()`.

Importing this module replaces asyncio's C-accelerated Future/Task by CPython's own pure-Python implementations
(`asyncio.futures._PyFuture`, `asyncio.tasks._PyTask`) so that the callback about to run can be labelled (the stepping task
of a process, an `_awaitable_done`, `try_killing`, ...).  It must therefore be imported BEFORE plumpy
(`import harness.detloop` first; it then imports plumpy from $PLUMPY_REPO or /repo).  The swap is validated by a
cross-check stream that re-runs schedules on the C classes (harness/pm.py, `crosscheck`).
"""
import asyncio
import asyncio.futures
import asyncio.tasks
import os
import sys

if os.environ.get('VERIF_C_ASYNCIO') != '1':
    asyncio.Future = asyncio.futures.Future = asyncio.futures._PyFuture
    asyncio.Task = asyncio.tasks.Task = asyncio.tasks._PyTask

_src = os.path.join(os.environ.get('PLUMPY_REPO', '/repo'), 'src')
if _src not in sys.path:
    sys.path.insert(0, _src)

import plumpy  # noqa: E402,F401

# Class-level state of the state machine (states map, `sealed`) is built lazily, per class: build it for the BASE class before
# any generated subclass is used, as a program does that ran a plain plumpy.Process first (state left over from an earlier,
# unrelated operation must not change what a subclass does).
try:
    plumpy.Process.get_states_map()
except Exception:  # noqa
    pass


class DetLoop(asyncio.SelectorEventLoop):
    """`step_one()` runs the FIFO head of the ready queue and nothing else; the harness decides what happens in between."""

    _closed = True      # a loop object created without __init__ (an aborted deep copy) must still be collectable quietly

    def __init__(self):
        super().__init__()
        self._vtime = 0.0

    def time(self):
        return self._vtime

    def _purge(self):
        while self._ready and self._ready[0]._cancelled:
            self._ready.popleft()

    def n_ready(self):
        return sum(1 for h in self._ready if not h._cancelled)

    def head_callback(self):
        self._purge()
        return self._ready[0]._callback if self._ready else None

    def head_label(self):
        """('task', coro qualname) | ('cb', qualname) | None"""
        cb = self.head_callback()
        if cb is None:
            return None
        owner = getattr(cb, '__self__', None)
        if isinstance(owner, asyncio.tasks._PyTask):
            return ('task', owner.get_coro().__qualname__, owner)
        fn = getattr(cb, 'func', cb)
        return ('cb', getattr(fn, '__qualname__', getattr(fn, '__name__', repr(fn))), cb)

    def step_one(self):
        self._purge()
        if not self._ready:
            return False
        h = self._ready.popleft()
        rest = list(self._ready)
        self._ready.clear()
        self._ready.append(h)
        asyncio.events._set_running_loop(self)
        try:
            self._run_once()
        finally:
            asyncio.events._set_running_loop(None)
        new = list(self._ready)
        self._ready.clear()
        self._ready.extend(rest + new)
        return True

    def drain(self, limit=10000):
        n = 0
        while n < limit and self.step_one():
            n += 1
        return n


_DECOY = None


def use_loop(loop, foreign=False):
    """Make `loop` the thread's current event loop - or, with `foreign`, a DIFFERENT loop that is never run, as in a program
    whose processes live on a loop of their own (`Process(loop=...)`, `LoadSaveContext(loop=...)`) while the calling thread's
    current loop is another one.  Callbacks run by `step_one()` see the running loop as usual; code called from OUTSIDE a callback
    (the harness' pause / kill / resume / future().cancel() / unbundle) then sees the decoy: everything a process creates for
    itself must belong to ITS loop, not to whatever loop happens to be current."""
    global _DECOY
    if foreign == 'none':
        # no current loop at all (a worker thread that drives `Process(loop=...)` by hand): `asyncio.get_event_loop()` raises
        # outside a callback, so anything the process creates for itself without naming its loop fails at once
        asyncio.set_event_loop(None)
    elif foreign:
        if _DECOY is None or _DECOY.is_closed():
            _DECOY = DetLoop()
        asyncio.set_event_loop(_DECOY)
    else:
        asyncio.set_event_loop(loop)
