"""C18 — scenarios, real-code executor and reference for the process-stack component (`Process.current()`).

A *scenario* is a table of generated process classes and callback bodies plus the classes instantiated at top level:

    scn = {'classes': [[step, ...], ...], 'cbs': [code, ...], 'top': [class index, ...], 'ext': [[pid, cb], ...], 'kills': [pid, ...],
           'cancels': [tid, ...], 'cbraise': [cb index, ...]}
    cbraise = [k, ...]: the callbacks that end with `raise Boom()` (an Exception): `ProcessCallback.run` catches it after
           `_run_task` - hence the scope of the process - was left and calls the public hook `callback_excepted` of the process the
           callback was scheduled on.  The generated classes override that hook to take the sample `h.callback_excepted` and nothing
           else (the default implementation calls `fail()`: C03's subject).  Expected there: the *previous value* of the callback's
           task, i.e. what the code that called `call_soon` observed at that moment (a task starts with a copy of its creator's context)
    kills = [pid, ...]: processes that the harness may kill() (instead of resuming them) while they are parked in WAITING
    cancels = [tid, ...]: tasks that the harness may `task.cancel()` (once per entry) between two callbacks, at a moment of its
           choice, while the task is suspended at an await point (a bare yield, the future of a WAITING process) or has not started;
           the CancelledError is thrown into the coroutine when the task runs next
    ext  = callbacks that code outside any task (here: the harness, between two callbacks, at a moment of its choice)
           schedules on a top-level process with `proc.call_soon(cb)` — what an RPC handler does
    step = {'code': [act, ...], 'end': 'next' | 'wait' | 'finish' | 'raise' | 'base'}   (the last step ends with finish/raise/base;
           'raise' raises an Exception, 'base' a BaseException that is not an Exception)
    act  = 'o' sample | 'a' await (bare yield) | 'u' self.out(..) | 'c<k>' self.call_soon(cb k)
         | 'l<k>' self.launch(class k) | 'x<k>' Class_k(...).execute()  (re-entrant, nest_asyncio)
         | 'i<k>' child = Class_k(...); `try: await child.step_until_terminated()` in THIS task (the child's steps run in the
           awaiting task and context) `except (BaseBoom, CancelledError):` sample 'absorbed'; then sample 'iret' and carry on
         | 'p<k>' `if creator is not None: creator.call_soon(cb k)`, then sample 'pcret'; creator = the process whose code (step or
           callback) launched / executed / inline-awaited the process whose code is running (None for a top-level process).  The
           callback belongs to the creator, its task inherits the context of the code that scheduled it: with the creator's step
           still on the stack below (execute / inline await) the callback runs on [.., creator, .., me, creator]

A *schedule* is a list of integers: at every decision of the event loop (outermost or nested inside an `execute()`), the
harness lists the enabled operations (`tick <tid>` for every ready task in task-id order, then `resume <tid>` for every process
parked in WAITING, then `kill <tid>` for the parked processes listed in `kills`, then `ext <pid> <cb>` for every external call_soon not
issued yet, then `cancel <tid>` for every entry of `cancels` not issued yet whose task exists, is not done and is not inside a nested
`execute()`) and takes entry `choice % len(enabled)`.

Every code point records (owner pid, kind, Process.current(), PROCESS_STACK); the harness records Process.current() itself at
every decision (kind `loop`).
"""
import inspect
import asyncio
import logging

from harness import detloop  # noqa: F401  (must precede plumpy: pure-Python Task/Future, repo on sys.path)
import plumpy
from plumpy import processes as _pp

LIFECYCLE_HOOKS = ['on_create', 'on_entering', 'on_entered', 'on_exiting', 'on_run', 'on_running', 'on_exit_running',
                   'on_wait', 'on_waiting', 'on_exit_waiting', 'on_finish', 'on_finished', 'on_except', 'on_excepted',
                   'on_kill', 'on_killed', 'on_terminated', 'on_close']
OUTPUT_HOOKS = ['on_output_emitting', 'on_output_emitted']
# kinds of code points that the property puts inside the scope of their process (everything but lifecycle hooks)
INSCOPE_KINDS = (['seg', 'aw', 'o', 'cbseg', 'cbaw', 'lret', 'xret', 'csret', 'pcret', 'uret', 'iret', 'absorbed']
                 + ['h.' + h for h in OUTPUT_HOOKS])


class Boom(Exception):
    """the exception raised by a generated step that ends with 'raise'"""


class CbBoom(Boom):
    """raised by a generated callback that ends by raising; carries what the code that scheduled the callback observed"""

    def __init__(self, base, prev):
        super().__init__()
        self.verif_base, self.verif_prev = base, prev


class BaseBoom(BaseException):
    """raised by a generated step that ends with 'base': not an Exception, so neither Running.execute nor step() catch it"""


# what the `except BaseException` of generated user code absorbs: everything the scenarios can raise through a step.  (Not
# literally BaseException: the harness' own control-flow exceptions below must still reach the top level.)
ABSORBED = (BaseBoom, asyncio.CancelledError)


class Deadlock(BaseException):
    pass


MAX_DECISIONS = 1500


class TooLong(BaseException):
    """a run that does not come to an end (never the case for generated programs on the unchanged code)"""


class ScheduleExhausted(BaseException):
    """raised out of the event loop when an exploration prefix has been consumed (exhaustive enumeration)"""

    def __init__(self, n_options):
        super().__init__(n_options)
        self.n_options = n_options


# ------------------------------------------------------------------------------------------------- the controlled loop

class _NestBase(detloop.DetLoop):
    """the class that nest_asyncio patches (it patches `loop.__class__`); CtlLoop overrides `_run_once` on top of the patch"""


class _Policy(plumpy.PlumpyEventLoopPolicy):
    """plumpy's re-entrant loop policy, producing the harness' deterministic loop class"""
    _loop_factory = _NestBase


_policy_installed = False


def install_policy():
    """plumpy.set_event_loop_policy() with our loop class: PlumpyEventLoopPolicy.get_event_loop applies nest_asyncio"""
    global _policy_installed
    if _policy_installed:
        return
    asyncio.set_event_loop_policy(_Policy())
    base = asyncio.get_event_loop_policy().get_event_loop()
    assert getattr(_NestBase, '_nest_patched', False), 'nest_asyncio did not patch the loop class'
    base.close()
    _policy_installed = True


class CtlLoop(_NestBase):
    """Every `_run_once` (outermost or inside a nested run_until_complete) runs exactly one handle, chosen by `decide`."""

    def __init__(self, decide):
        super().__init__()
        self._decide = decide
        self._n_tasks = 0
        self._tasks = []         # index = tid
        self._pool = []
        self.set_task_factory(self._factory)

    def _factory(self, loop, coro, **kw):
        t = asyncio.tasks._PyTask(coro, loop=loop, **kw)
        t._verif_tid = self._n_tasks
        self._n_tasks += 1
        self._tasks.append(t)
        return t

    @staticmethod
    def tid_of(handle):
        owner = getattr(handle._callback, '__self__', None)
        return getattr(owner, '_verif_tid', None)

    def _collect(self):
        """move what asyncio queued into the pool the harness chooses from (also visible to nested loops)"""
        self._pool.extend(self._ready)
        self._ready.clear()
        self._pool = [h for h in self._pool if not h._cancelled]

    def live_handles(self):
        self._collect()
        return list(self._pool)

    def _run_once(self):
        live = self.live_handles()
        plumbing = [h for h in live if self.tid_of(h) is None]
        if plumbing:
            h = plumbing[0]  # done-callbacks of futures (try_killing, ...): no effect on the stack, run silently
        else:
            h = self._decide(self)
            self._collect()
        self._pool.remove(h)
        self._ready.append(h)
        try:
            super()._run_once()   # nest_asyncio's: runs the single handle in `_ready`
        finally:
            self._collect()


# ------------------------------------------------------------------------------------------------- one run of the real code

def _pid_of(p):
    return None if p is None else getattr(p, '_verif_pid', '?')


def read_stack():
    """`PROCESS_STACK` (the anchor state of the property) as pids, bottom first; None when the variable is not there"""
    var = getattr(_pp, 'PROCESS_STACK', None)
    try:
        return [_pid_of(p) for p in var.get()]
    except Exception:  # noqa
        return None


class Run:
    def __init__(self, scn, schedule, rng=None, stop_at_end=False):
        self.scn, self.schedule, self.rng, self.stop_at_end = scn, list(schedule), rng, stop_at_end
        self.pos = 0
        self.taken = []          # choices actually made (index, number of options)
        self.chunks = []         # one per op: dict(op, obs, ready, parked, loop_cur, loop_expected)
        self.cur_obs = []        # observations since the last decision
        self.procs = []          # generated process instances, index = pid
        self.creator = {}        # pid -> pid of the process whose code instantiated it | None
        self.class_of = []       # pid -> class index
        self.stepper_of = {}     # pid -> tid of its stepping task
        self.resumed = set()
        self.nest = []           # pids of the processes whose code is inside `other.execute()`, innermost last
        self.max_nest = 0
        self.fatal = None
        self.kills = set(scn.get('kills', []))
        self.killed = []
        self.pending_ext = [tuple(e) for e in scn.get('ext', [])]
        self.pending_cancel = list(scn.get('cancels', []))
        self.nest_tids = []      # tids of the tasks whose code is inside `other.execute()`
        self.chain = {}          # tid -> pids whose step_until_terminated() is active in that task, innermost last
        self.interrupted = {}    # pid -> state value it was left in when a cancellation hit its step
        self.absorbed = []       # class names of what the `except` clauses of inline awaits absorbed
        self.max_inline = 0      # deepest chain of inline awaits in one task
        self.n_on_creator = 0    # callbacks scheduled on the creator of the running process
        self.inline_depth = {}
        self.classes = [make_class(self, k) for k in range(len(scn['classes']))]
        self.loop = CtlLoop(self.decide)

    # -- observations
    def rec(self, proc, kind, expect=None, prev=None):
        """(owner, kind, Process.current(), PROCESS_STACK, stack expected by the restore clause | None); for the kind
        `h.callback_excepted` a sixth entry [previous value]: what the code that scheduled the callback observed"""
        o = (proc._verif_pid, kind, _pid_of(plumpy.Process.current()), read_stack(), expect)
        self.cur_obs.append(o + (prev,) if prev is not None else o)

    def instantiate(self, k, creator, launch_from=None):
        pid = len(self.procs)
        self.procs.append(None)
        self.creator[pid] = creator
        self.class_of.append(k)
        cls = self.classes[k]
        cls._next_pid = pid
        if launch_from is not None:
            p = launch_from.launch(cls, pid=pid)
        else:
            p = cls(pid=pid, loop=self.loop)
        return p

    # -- scheduling
    def parked_pid_of(self):
        """tid -> the process parked in that task (a task steps several processes when children are awaited inline)"""
        out = {}
        for p in self.procs:
            if p is not None and p.state == plumpy.ProcessState.WAITING and p._verif_pid not in self.resumed:
                out[self.stepper_of[p._verif_pid]] = p._verif_pid
        return out

    def parked(self):
        out = []
        for p in self.procs:
            if p is not None and p.state == plumpy.ProcessState.WAITING and p._verif_pid not in self.resumed:
                out.append(self.stepper_of[p._verif_pid])
        return sorted(out)

    def cancellable(self):
        out = []
        for t in self.pending_cancel:
            if t < len(self.loop._tasks) and not self.loop._tasks[t].done() and t not in self.nest_tids and t not in out:
                out.append(t)
        return out

    def set_stepper(self, pid, tid):
        self.stepper_of[pid] = tid
        self.chain.setdefault(tid, []).append(pid)

    def ready_tids(self):
        return sorted({t for t in (CtlLoop.tid_of(h) for h in self.loop.live_handles()) if t is not None})

    def close_chunk(self):
        """harness code between two callbacks: attach what happened since the last decision, sample current()"""
        if not self.chunks:
            self.chunks.append(dict(op='scn'))
        self.chunks[-1].update(obs=self.cur_obs, ready=self.ready_tids(), parked=self.parked(),
                               loop_cur=_pid_of(plumpy.Process.current()),
                               loop_expected=self.nest[-1] if self.nest else None)
        self.cur_obs = []

    def decide(self, loop):
        """called by the loop whenever it is about to run a callback: choose the operation, record it.
        A harness error raised inside a nested loop would be swallowed by the task that runs that loop: keep it and
        raise it again at every later decision until it reaches the top level."""
        if self.fatal is not None:
            raise self.fatal
        try:
            return self._decide(loop)
        except BaseException as e:  # noqa
            self.fatal = e
            raise

    def _decide(self, loop):
        while True:
            self.close_chunk()
            ready, parked = self.chunks[-1]['ready'], self.chunks[-1]['parked']
            pid_of = self.parked_pid_of()
            options = ([('tick', t) for t in ready] + [('resume', t) for t in parked]
                       + [('kill', t) for t in parked if pid_of[t] in self.kills] + [('ext', e) for e in self.pending_ext]
                       + [('cancel', t) for t in self.cancellable()])
            if not options:
                raise Deadlock()
            if self.pos >= MAX_DECISIONS:
                raise TooLong()
            if self.pos < len(self.schedule):
                c = self.schedule[self.pos] % len(options)
            elif self.stop_at_end:
                raise ScheduleExhausted(len(options))
            elif self.rng is not None:
                c = self.rng.randrange(len(options))
            else:
                c = 0
            self.pos += 1
            self.taken.append((c, len(options)))
            kind, t = options[c]
            if kind == 'ext':
                self.chunks.append(dict(op=f'ext {t[0]} {t[1]}'))
                self.pending_ext.remove(t)
                proc = self.procs[t[0]]
                proc.call_soon(make_cb(self, proc, t[1]))
                continue
            self.chunks.append(dict(op=f'{kind} {t}'))
            if kind == 'resume':
                self.resumed.add(pid_of[t])
                self.procs[pid_of[t]].resume()
                continue
            if kind == 'kill':
                self.resumed.add(pid_of[t])
                self.killed.append(pid_of[t])
                self.procs[pid_of[t]].kill()
                continue
            if kind == 'cancel':
                self.pending_cancel.remove(t)
                ch = self.chain.get(t) or []
                if ch:   # the process whose step is suspended in that task: it is left in the state it is in
                    self.interrupted[ch[-1]] = self.procs[ch[-1]].state.value
                for p, tt in self.stepper_of.items():
                    if tt == t and self.procs[p] is not None and self.procs[p].state == plumpy.ProcessState.WAITING:
                        self.resumed.add(p)   # its waiting future is cancelled: neither resumable nor killable any more
                loop._tasks[t].cancel()
                continue
            for h in loop.live_handles():
                if CtlLoop.tid_of(h) == t:
                    return h
            raise AssertionError('chosen task has no handle')

    def go(self):
        """run in a fresh context whose stack variable holds a fresh empty list, so that nothing can leak from one run of
        this worker into the next (e.g. through a shared default value if the code mutated it in place)"""
        import contextvars
        return contextvars.Context().run(self._go)

    def _go(self):
        loop = self.loop
        var = getattr(_pp, 'PROCESS_STACK', None)
        if var is not None and hasattr(var, 'set'):
            var.set([])
        try:
            for k in self.scn['top']:
                p = self.instantiate(k, None)
                task = loop.create_task(p.step_until_terminated())
                self.set_stepper(p._verif_pid, task._verif_tid)
            asyncio.events._set_running_loop(loop)
            try:
                while loop.live_handles() or self.parked() or self.pending_ext:
                    loop._run_once()
            finally:
                asyncio.events._set_running_loop(None)
            self.close_chunk()
        finally:
            self.finals = []
            for p in self.procs:
                if p is None:
                    self.finals.append(None)
                    continue
                exc = None
                if p.state == plumpy.ProcessState.EXCEPTED:
                    e = p.exception()
                    exc = type(e).__name__
                self.finals.append((p.state.value if p.state is not None else None, exc))
            # drop everything that is still pending, then close
            for h in loop.live_handles():
                h.cancel()
            for t in asyncio.all_tasks(loop):
                t._log_destroy_pending = False
                try:
                    t.get_coro().close()
                except BaseException:  # noqa
                    pass
            loop.close()
        return self


def make_class(run, k):
    spec = run.scn['classes'][k]

    def hook(name):
        def f(self, *a, **kw):
            if name == 'on_create':
                self._verif_base = read_stack()   # the context the stepping task is about to inherit
            if name == 'on_exit_waiting':
                run.resumed.discard(self._verif_pid)   # may wait (and be resumed) again
            expect = None
            if name in OUTPUT_HOOKS:
                expect = self._verif_scope
            elif getattr(self, '_verif_constructed', False):
                expect = self._verif_base         # lifecycle hook in the stepping task: what it was before any scope
            run.rec(self, 'h.' + name, expect)
            return getattr(plumpy.Process, name)(self, *a, **kw)
        f.__name__ = name
        return f

    class Gen(plumpy.Process):
        def __len__(self):
            # a process class with a notion of size (remaining work items): an instance may be FALSY - and is still the process
            return 0

        @classmethod
        def define(cls, spec_):
            super().define(spec_)
            spec_.outputs.dynamic = True

        def __init__(self, *a, **kw):
            self._verif_pid = type(self)._next_pid
            run.procs[self._verif_pid] = self
            super().__init__(*a, **kw)

        def init(self):
            super().init()
            self._verif_constructed = True

        def callback_excepted(self, _callback, exception, trace):
            # public hook, called by ProcessCallback.run in the callback's task after `_run_task` (the scope) was left through
            # the exception.  Sample only: the default implementation would call self.fail(..)
            if isinstance(exception, CbBoom):
                run.rec(self, 'h.callback_excepted', exception.verif_base, [exception.verif_prev])
            else:   # never the case for generated programs on the unchanged code
                run.rec(self, 'h.callback_excepted', None, ['?' + type(exception).__name__])

        @property
        def _verif_scope(self):
            b = getattr(self, '_verif_base', None)
            return None if b is None else b + [self._verif_pid]

    Gen.__name__ = Gen.__qualname__ = f'Gen{k}'
    for h in LIFECYCLE_HOOKS + OUTPUT_HOOKS:
        setattr(Gen, h, hook(h))

    def make_step(i):
        st = spec[i]
        code, end = st['code'], st['end']

        def ending(self):
            if end == 'next':
                return plumpy.Continue(getattr(self, f'step{i + 1}'))
            if end == 'wait':
                return plumpy.Wait(getattr(self, f'step{i + 1}'))
            if end == 'raise':
                raise Boom()
            if end == 'base':
                raise BaseBoom()
            return None

        if needs_async(code):
            async def step(self):
                await interp_async(run, self, code, 'seg', 'aw', self._verif_scope, run.stepper_of[self._verif_pid])
                return ending(self)
        else:
            def step(self):
                interp_sync(run, self, code, 'seg', self._verif_scope, run.stepper_of[self._verif_pid])
                return ending(self)
        step.__name__ = 'run' if i == 0 else f'step{i}'
        return step

    for i in range(len(spec)):
        fn = make_step(i)
        setattr(Gen, fn.__name__, fn)
    return Gen


def needs_async(code):
    return any(a == 'a' or a[0] == 'i' for a in code)


def make_cb(run, proc, j):
    """to be passed to `proc.call_soon` at once: the task that call_soon creates is the next one"""
    code = run.scn['cbs'][j]
    base = read_stack()   # the context the callback's task inherits
    prev = _pid_of(plumpy.Process.current())   # what the scheduling code observes (public API)
    expect = None if base is None else base + [proc._verif_pid]
    tid = run.loop._n_tasks
    raising = j in run.scn.get('cbraise', ())
    if needs_async(code) and j in run.scn.get('cbmark', ()):
        # an OBJECT whose __call__ is a coroutine function (a configured reporter): callable, awaitable result, not a function
        class AsyncCallable:
            async def __call__(self):
                await interp_async(run, proc, code, 'cbseg', 'cbaw', expect, tid)
                if raising:
                    raise CbBoom(base, prev)
        cb = AsyncCallable()
    elif needs_async(code):
        async def cb():
            await interp_async(run, proc, code, 'cbseg', 'cbaw', expect, tid)
            if raising:
                raise CbBoom(base, prev)
    elif j in run.scn.get('cbmark', ()):
        # a plain function that is a coroutine function to `inspect` (a decorator that wraps an `async def` and marks itself):
        # its body runs when it is CALLED, what it returns is awaited.  Same observations as the plain form, so the model is unchanged.
        async def tail():
            if raising:
                raise CbBoom(base, prev)

        def cb():
            interp_sync(run, proc, code, 'cbseg', expect, tid)
            return tail()
        inspect.markcoroutinefunction(cb)
    else:
        def cb():
            interp_sync(run, proc, code, 'cbseg', expect, tid)
            if raising:
                raise CbBoom(base, prev)
    return cb


def do_act(run, proc, act, expect, tid):
    if act == 'o':
        run.rec(proc, 'o', expect)
    elif act == 'u':
        proc._n_out = getattr(proc, '_n_out', 0) + 1
        proc.out(f'o{proc._n_out}', proc._n_out)
        run.rec(proc, 'uret', expect)
    elif act[0] == 'c':
        proc.call_soon(make_cb(run, proc, int(act[1:])))
        run.rec(proc, 'csret', expect)
    elif act[0] == 'p':
        par = run.creator.get(proc._verif_pid)
        if par is not None:
            target = run.procs[par]
            run.n_on_creator += 1
            target.call_soon(make_cb(run, target, int(act[1:])))   # the callback belongs to the creator; scheduled from MY code
        run.rec(proc, 'pcret', expect)
    elif act[0] == 'l':
        child = run.instantiate(int(act[1:]), proc._verif_pid, launch_from=proc)
        run.set_stepper(child._verif_pid, run.loop._n_tasks - 1)
        run.rec(proc, 'lret', expect)
    elif act[0] == 'x':
        other = run.instantiate(int(act[1:]), proc._verif_pid)
        run.set_stepper(other._verif_pid, run.loop._n_tasks)  # the task execute() is about to create
        run.nest.append(proc._verif_pid)
        run.nest_tids.append(tid)
        run.max_nest = max(run.max_nest, len(run.nest))
        try:
            other.execute()
        except (Boom, plumpy.KilledError) + ABSORBED:   # the outcome of the nested task (its BaseException, its cancellation)
            pass
        finally:
            run.nest.pop()
            run.nest_tids.pop()
        run.rec(proc, 'xret', expect)
    else:
        raise ValueError(act)


def interp_sync(run, proc, code, k0, expect, tid):
    run.rec(proc, k0, expect)
    for act in code:
        do_act(run, proc, act, expect, tid)


async def interp_async(run, proc, code, k0, k1, expect, tid):
    run.rec(proc, k0, expect)
    for act in code:
        if act == 'a':
            await asyncio.sleep(0)
            run.rec(proc, k1, expect)
        elif act[0] == 'i':
            child = run.instantiate(int(act[1:]), proc._verif_pid)
            run.set_stepper(child._verif_pid, tid)
            run.inline_depth[tid] = run.inline_depth.get(tid, 0) + 1
            run.max_inline = max(run.max_inline, run.inline_depth[tid])
            try:
                await child.step_until_terminated()     # inline: the child's steps run in THIS task and context
            except ABSORBED as e:
                run.absorbed.append(type(e).__name__)
                run.rec(proc, 'absorbed', expect)
            finally:
                run.chain[tid].pop()
                run.inline_depth[tid] -= 1
            run.rec(proc, 'iret', expect)
        else:
            do_act(run, proc, act, expect, tid)


def run_impl(scn, schedule, seed=None, stop_at_end=False):
    """Run the real code on (scenario, schedule); choices beyond the schedule are random (seed) or 0.
    -> dict(chunks=[{op, obs, ready, parked, loop_cur, loop_expected}], finals, taken, creator, error, max_nest)"""
    import random
    logging.disable(logging.CRITICAL)
    install_policy()
    r = Run(scn, schedule, random.Random(seed) if seed is not None else None, stop_at_end)
    err = None
    try:
        r.go()
    except ScheduleExhausted:
        err = 'exhausted'
    except Deadlock:
        err = 'deadlock'
    except BaseException as e:  # noqa
        err = f'{type(e).__name__}:{e}'[:200]
    return dict(chunks=r.chunks, finals=r.finals, taken=r.taken, creator=r.creator, error=err, max_nest=r.max_nest,
                n_procs=len(r.procs), n_tasks=r.loop._n_tasks, class_of=r.class_of, killed=r.killed,
                interrupted=r.interrupted, absorbed=r.absorbed, max_inline=r.max_inline, n_on_creator=r.n_on_creator)
