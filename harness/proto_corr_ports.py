"""Scratch correspondence for input parsing/validation (C11): real Process construction vs the Lean model."""
import random, subprocess, sys, asyncio, collections, copy
import plumpy
from plumpy import processes, ports, utils

TYPES = {0: int, 1: str}
NAMES = ['a', 'b', 'c', 'd']

class Atom:  # not used: atoms are real ints / strs so isinstance works
    pass

def mk_atom(ty, ident):
    return (ident + 1) if ty == 0 else ('s%d' % ident)          # never falsy
def atom_id(v):
    return (v - 1) if isinstance(v, int) else int(v[1:])
def atom_ty(v):
    return 0 if isinstance(v, int) else 1

def gen_value(rng, depth, leaf_only=False):
    if leaf_only or depth == 0 or rng.random() < 0.6:
        return ('A', rng.randint(0, 1), rng.randint(0, 3))
    n = rng.randint(0, 2)
    return ('D', [(k, gen_value(rng, depth - 1)) for k in rng.sample(NAMES + ['z'], n)])

def to_py(v):
    if v[0] == 'A': return mk_atom(v[1], v[2])
    return {k: to_py(x) for k, x in v[1]}
def enc_v(v):
    if v[0] == 'A': return f'A {v[1]} {v[2]}'
    return 'D %d %s' % (len(v[1]), ' '.join(f'{k} {enc_v(x)}' for k, x in v[1])) if v[1] else 'D 0'

def mentions(value, n):
    if isinstance(value, collections.abc.Mapping): return any(mentions(x, n) for x in value.values())
    return atom_id(value) == n
def mk_validator(n):
    def validator(value, port):
        return 'rejected' if mentions(value, n) else None
    return validator

def gen_port(rng, depth):
    optn = lambda p, hi: rng.randint(0, hi) if rng.random() < p else None
    if depth == 0 or rng.random() < 0.6:
        ty = optn(0.5, 1)
        # a plain default must itself be valid for the port (InputPort validates it in its constructor)
        d = None
        if rng.random() < 0.4:
            d = ('A', ty if ty is not None else rng.randint(0, 1), rng.randint(0, 3))
        vd = optn(0.25, 3)
        if d is not None and vd is not None and d[2] == vd: vd = None
        return ('L', rng.random() < 0.6, ty, d, vd, rng.random() < 0.5)
    n = rng.randint(0, 3)
    sub = [(k, gen_port(rng, depth - 1)) for k in rng.sample(NAMES, n)]
    d = None
    if rng.random() < 0.15: d = ('D', [(k, gen_value(rng, 1)) for k in rng.sample(NAMES, rng.randint(0, 2))])
    ty = optn(0.3, 1)
    dyn = True if ty is not None else rng.random() < 0.3
    return ('N', rng.random() < 0.6, ty, d, dyn, rng.random() < 0.75, optn(0.2, 3), sub)

def enc_port(p):
    o = lambda x: '-' if x is None else str(x)
    if p[0] == 'L':
        req = p[1] and p[3] is None            # required_override
        return f"L {int(req)} {o(p[2])} {'-' if p[3] is None else enc_v(p[3])} {o(p[4])}"
    return (f"N {int(p[1])} {o(p[2])} {'-' if p[3] is None else enc_v(p[3])} {int(p[4])} {int(p[5])} {o(p[6])} "
            f"{len(p[7])} " + ' '.join(f'{k} {enc_port(x)}' for k, x in p[7])).strip()

def build(ns, sub):
    for k, p in sub:
        if p[0] == 'L':
            kw = dict(required=p[1], valid_type=None if p[2] is None else TYPES[p[2]], validator=None if p[4] is None else mk_validator(p[4]))
            if p[3] is not None:
                val = to_py(p[3]); kw['default'] = (lambda v=val: v) if p[5] else val
            ns[k] = ports.InputPort(k, **kw)
        else:
            kw = dict(required=p[1], valid_type=None if p[2] is None else TYPES[p[2]], dynamic=p[4], populate_defaults=p[5],
                      validator=None if p[6] is None else mk_validator(p[6]))
            if p[3] is not None: kw['default'] = to_py(p[3])
            ns[k] = ports.PortNamespace(k, **kw); build(ns[k], p[7])

def show(v):
    if isinstance(v, collections.abc.Mapping):
        return '{' + ','.join(f'{k}={show(v[k])}' for k in sorted(v)) + '}'
    return f'A{atom_ty(v)}:{atom_id(v)}'

def gen_raw(rng, sub, depth):
    items = []
    for k, p in sub:
        r = rng.random()
        if r < 0.45: continue
        if p[0] == 'L': items.append((k, gen_value(rng, 1, leaf_only=rng.random() < 0.85)))
        else:
            if rng.random() < 0.12: items.append((k, gen_value(rng, 0)))
            else:
                inner = gen_raw(rng, p[7], depth - 1)
                if rng.random() < 0.3: inner[1].append((rng.choice(['z', 'y']), gen_value(rng, 1)))
                items.append((k, inner))
    return ('D', items)

def main():
    import logging; logging.disable(logging.CRITICAL)
    rng = random.Random(int(sys.argv[1]) if len(sys.argv) > 1 else 0)
    N = int(sys.argv[2]) if len(sys.argv) > 2 else 3000
    loop = asyncio.new_event_loop(); asyncio.set_event_loop(loop)
    lines, expected, stats = [], [], collections.Counter()
    for i in range(N):
        sub = [(k, gen_port(rng, 2)) for k in rng.sample(NAMES, rng.randint(1, 4))]
        top_ty = rng.choice([None, None, 0]); top_dyn = True if top_ty is not None else rng.random() < 0.2
        raw = gen_raw(rng, sub, 2)
        if rng.random() < 0.15: raw[1].append(('zz', gen_value(rng, 1)))
        def define(cls, spec, sub=sub, top_ty=top_ty, top_dyn=top_dyn):
            super(P, cls).define(spec)
            if top_ty is not None: spec.inputs.valid_type = TYPES[top_ty]
            else: spec.inputs.dynamic = top_dyn
            build(spec.inputs, sub)
        P = type('P%d' % i, (processes.Process,), {})
        P.define = classmethod(define)
        inputs = to_py(raw); before = copy.deepcopy(inputs)
        try:
            p = P(inputs=inputs, loop=loop)
            res = 'ok ' + show(p.inputs); stats['ok'] += 1
            assert inputs == before, 'caller dict mutated'
            assert (p.raw_inputs is None and not before) or show(p.raw_inputs) == show(before), 'raw_inputs changed'
        except AssertionError: raise
        except Exception as e:  # noqa
            res = 'err'; stats['err:' + type(e).__name__] += 1
            assert inputs == before, 'caller dict mutated'
        o = lambda x: '-' if x is None else str(x)
        lines.append(f"{int(top_dyn)} {o(top_ty)} {len(sub)} " + ' '.join(f'{k} {enc_port(x)}' for k, x in sub) + ' RAW ' + enc_v(raw))
        expected.append(res)
    out = subprocess.run(['/root/proto/lean/.lake/build/bin/ports'], input='\n'.join(lines) + '\n', capture_output=True, text=True).stdout.split('\n')
    bad = [(l, e, m) for l, e, m in zip(lines, expected, out) if e != m]
    print('cases', N, dict(stats), 'divergences', len(bad))
    for b in bad[:4]: print('---\n  ', b[0], '\n   impl :', b[1], '\n   model:', b[2])
main()
