"""Scratch correspondence for PortNamespace.absorb (C15 selection) vs the Lean model."""
import random, subprocess, sys, itertools
from plumpy.ports import PortNamespace, InputPort
NAMES = ['a', 'ab', 'abc', 'b', 'a_b', 'x']
def gen_tree(rng, depth):
    n = rng.randint(1, 4); names = rng.sample(NAMES, n); out = []
    for nm in names:
        if depth > 0 and rng.random() < 0.45: out.append((nm, gen_tree(rng, depth - 1)))
        else: out.append((nm, None))
    return out
def build(ns, tree):
    for nm, sub in tree:
        if sub is None: ns[nm] = InputPort(nm)
        else:
            ns[nm] = PortNamespace(nm); build(ns[nm], sub)
def enc(tree):
    toks = [str(len(tree))]
    def go(t):
        for nm, sub in t:
            if sub is None: toks.extend(['L', nm])
            else: toks.extend(['N', nm, str(len(sub))]); go(sub)
    go(tree); return ' '.join(toks)
def paths(tree, pre=()):
    for nm, sub in tree:
        yield pre + (nm,)
        if sub is not None: yield from paths(sub, pre + (nm,))
def leaf_paths(ns, pre=()):
    out = []
    for k, v in ns.items():
        if isinstance(v, PortNamespace): out.extend(leaf_paths(v, pre + (k,)))
        else: out.append('.'.join(pre + (k,)))
    return out
def no_ancestor(rules):
    rs = [r.split('.') for r in rules]
    return not any(i != j and a == b[:len(a)] and a != b for i, a in enumerate(rs) for j, b in enumerate(rs))
def main():
    rng = random.Random(int(sys.argv[1]) if len(sys.argv) > 1 else 0)
    lines, expected = [], []
    for _ in range(int(sys.argv[2]) if len(sys.argv) > 2 else 3000):
        tree = gen_tree(rng, 3); allp = ['.'.join(p) for p in paths(tree)] + ['zz', 'a.zz', 'ab.x.y']
        mode = rng.choice(['none', 'ex', 'inc', 'exempty', 'incempty'])
        ex = inc = None
        if mode == 'ex': ex = rng.sample(allp, rng.randint(1, min(3, len(allp))))
        if mode == 'inc':
            for _ in range(20):
                inc = rng.sample(allp, rng.randint(1, min(3, len(allp))))
                if no_ancestor(inc): break
            else: inc = inc[:1]
        if mode == 'exempty': ex = []
        if mode == 'incempty': inc = []
        src = PortNamespace('src'); build(src, tree); dst = PortNamespace('dst')
        dst.absorb(src, exclude=ex, include=inc)
        f = lambda r: '-' if r is None else ('()' if r == [] else ','.join(r))
        lines.append(f'{f(ex)} {f(inc)} {enc(tree)}'); expected.append(' '.join(leaf_paths(dst)))
    out = subprocess.run(['/root/proto/lean/.lake/build/bin/expose'], input='\n'.join(lines) + '\n', capture_output=True, text=True).stdout.split('\n')
    bad = [(l, e, m) for l, e, m in zip(lines, expected, out) if e != m]
    print('cases', len(lines), 'nonempty-selection', sum(1 for e in expected if e), 'strict-subset', sum(1 for l, e in zip(lines, expected) if e and not l.startswith('- -')), 'divergences', len(bad))
    for b in bad[:5]: print(b)
main()
