"""Executor of C20 cases on the REAL plumpy adapters with real asyncio / kiwipy (concurrent) futures.

A case is a list of groups `(thread, [op, ...])`; op tokens are those of `lean/Driver/Futures.lean`.  Every group is executed
atomically with respect to the event loop, which runs in its own thread (`Env.thread`, the "loop thread"):

* thread `L`: the ops run inside ONE loop callback (submitted with `call_soon_threadsafe`), as code running on the loop does;
* thread `C`: the ops run in the calling thread (the "communicator thread") while the loop thread is held inside a callback,
  which is how a communicator thread sees a busy loop (`call_soon_threadsafe` / `run_coroutine_threadsafe` only enqueue).

After each group the loop is released and run until it has nothing ready (`drain`).  The state of every handle is observed
after every op.  asyncio futures are only ever completed on the loop thread, as asyncio requires.
"""
import asyncio
import concurrent.futures
import logging
import threading

from harness import common

TIMEOUT = 8.0         # a group that does not come back within this is blocked (it takes milliseconds)
_ENV = None


class UserExc(Exception):
    def __init__(self, n):
        super().__init__(n)
        self.n = n


class BaseExc(BaseException):
    def __init__(self, n):
        super().__init__(n)
        self.n = n


class _Counter(logging.Handler):
    def __init__(self):
        super().__init__(level=logging.ERROR)
        self.n = 0

    def emit(self, record):
        self.n += 1


class Env:
    """one event loop in its own thread, one Process (for `_schedule_rpc`), one LoopCommunicator; reused by all cases of a worker"""

    def __init__(self):
        common.ensure_repo_on_path()
        import kiwipy
        import plumpy
        from plumpy import communications, futures
        self.kiwipy, self.plumpy, self.futures, self.communications = kiwipy, plumpy, futures, communications
        logging.getLogger('plumpy').setLevel(logging.CRITICAL)
        self.cb_errors = _Counter()
        lg = logging.getLogger('concurrent.futures')
        lg.addHandler(self.cb_errors)
        lg.propagate = False
        self.loop_errors = 0
        self.loop = asyncio.new_event_loop()
        self.loop.set_exception_handler(self._on_loop_error)
        asyncio.set_event_loop(self.loop)  # the communicator thread refers to the same loop, as plumpy's callers do
        self.thread = threading.Thread(target=self._run, daemon=True)
        self.thread.start()

        class P(plumpy.Process):
            def run(self):
                return None
        self.proc = P(loop=self.loop)
        self.local = kiwipy.LocalCommunicator()
        self.lc = communications.LoopCommunicator(self.local, self.loop)
        self.n_sub = 0

    def _run(self):
        asyncio.set_event_loop(self.loop)
        self.loop.run_forever()

    def _on_loop_error(self, loop, context):
        # only exceptions that escaped from a callback run by the loop; not "never retrieved" / "destroyed" notes of the GC
        if 'handle' in context and context.get('exception') is not None:
            self.loop_errors += 1

    def in_loop(self, fn):
        done = threading.Event()
        box = {}

        def cb():
            try:
                box['r'] = fn()
            except BaseException as e:  # noqa
                box['e'] = e
            done.set()
        self.loop.call_soon_threadsafe(cb)
        if not done.wait(TIMEOUT):
            raise TimeoutError('loop thread did not run the group')
        if 'e' in box:
            raise box['e']
        return box['r']

    def park(self):
        parked, release = threading.Event(), threading.Event()

        def hold():
            parked.set()
            release.wait(TIMEOUT)
        self.loop.call_soon_threadsafe(hold)
        if not parked.wait(TIMEOUT):
            raise TimeoutError('loop thread did not park')
        return release

    def drain(self):
        done = threading.Event()
        idle = [0]

        def probe():
            if len(self.loop._ready) == 0:
                idle[0] += 1
                if idle[0] >= 3:
                    done.set()
                    return
            else:
                idle[0] = 0
            self.loop.call_soon(probe)
        self.loop.call_soon_threadsafe(probe)
        if not done.wait(TIMEOUT):
            raise TimeoutError('loop did not become idle')


def env():
    global _ENV
    if _ENV is None:
        _ENV = Env()
    return _ENV


CANCELLED_CLASS_CODE = 77


def marked_cancelled():
    """an exception OUTCOME whose class is kiwipy's CancelledError (a failure that mentions a cancellation is not a cancellation):
    to the model it is the user exception 77"""
    import kiwipy

    class FailedNotCancelled(kiwipy.CancelledError):
        n = CANCELLED_CLASS_CODE
    return FailedNotCancelled('a consulted future had been cancelled')


def exc_name(e):
    import plumpy.futures as pf
    if isinstance(e, UserExc):
        return f'u{e.n}'
    if getattr(e, 'n', None) == CANCELLED_CLASS_CODE and isinstance(e, concurrent.futures.CancelledError):
        return f'u{CANCELLED_CLASS_CODE}'
    if isinstance(e, BaseExc):
        return f'b{e.n}'
    if isinstance(e, (asyncio.CancelledError, concurrent.futures.CancelledError)):
        return 'cerr'
    if isinstance(e, (asyncio.InvalidStateError, concurrent.futures.InvalidStateError)):
        return 'inv'
    if isinstance(e, pf.InvalidStateError):
        return 'act'
    if isinstance(e, TypeError):
        return 'type'
    if isinstance(e, RuntimeError) and isinstance(e.__cause__, UserExc):
        return f'w{e.__cause__.n}'
    return type(e).__name__


def describe(f, depth=24):
    if depth == 0:
        return '...'
    if not f.done():
        return 'P'
    if f.cancelled():
        return 'C'
    e = f.exception()
    if e is not None:
        return 'X' + exc_name(e)
    r = f.result()
    if isinstance(r, concurrent.futures.Future):
        return 'Rk(' + describe(r, depth - 1) + ')'
    if isinstance(r, asyncio.Future):
        return 'Ra(' + describe(r, depth - 1) + ')'
    return f'V{r}'


class Run:
    def __init__(self, e):
        self.e = e
        self.H = []
        self.calls = {}
        e.cb_errors.n = 0
        e.loop_errors = 0

    # -- oracles ------------------------------------------------------------------------------------------------------
    def coro_fn(self, spec):
        H = self.H
        awaits = []
        while spec.startswith('a'):
            h, spec = spec[1:].split('.', 1)
            awaits.append(int(h))
        kind, arg = spec[0], spec[1:]
        if kind == 'W' and not awaits:
            return lambda *a, **k: H[int(arg)]  # a plain function returning an awaitable

        async def co(*a, **k):
            for h in awaits:
                await H[h]
            if kind == 'r':
                return int(arg)
            if kind == 'f':
                return H[int(arg)]
            if kind == 'x':
                raise UserExc(int(arg))
            if kind == 'c':
                raise asyncio.CancelledError()
            if kind in 'wW':
                return await H[int(arg)]
            raise AssertionError(spec)
        return co

    def call_fn(self, spec, counter=None):
        H, calls = self.H, self.calls
        cancels = spec.startswith('k')  # the function gets its own action cancelled while it runs
        if cancels:
            spec = spec[1:]
        kind, arg = spec[0], int(spec[1:])

        def fn(*a, **k):
            if counter is not None:
                calls[counter] = calls.get(counter, 0) + 1
                if cancels:
                    H[counter].cancel()
            if kind == 'r':
                return arg
            if kind == 'f':
                return H[arg]
            if kind == 'x':
                raise (marked_cancelled() if arg == CANCELLED_CLASS_CODE else UserExc(arg))
            if kind == 'b':
                raise BaseExc(arg)
            raise AssertionError(spec)
        return fn

    # -- ops ----------------------------------------------------------------------------------------------------------
    def op(self, tok):
        e, H = self.e, self.H
        p = tok.split(':')
        k = p[0]
        if k == 'nk':
            H.append(e.kiwipy.Future())
        elif k == 'na':
            H.append(e.loop.create_future())
        elif k in ('res', 'ref', 'exc'):
            f = H[int(p[1])]
            try:
                if k == 'res':
                    f.set_result(int(p[2]))
                elif k == 'ref':
                    f.set_result(H[int(p[2])])
                elif int(p[2]) == CANCELLED_CLASS_CODE:
                    f.set_exception(marked_cancelled())
                else:
                    f.set_exception(UserExc(int(p[2])))
            except (asyncio.InvalidStateError, concurrent.futures.InvalidStateError):
                return 'E'
        elif k == 'can':
            H[int(p[1])].cancel()
        elif k == 'unwrap':
            H.append(e.futures.unwrap_kiwi_future(H[int(p[1])]))
        elif k == 'mirror':
            H.append(e.communications.plum_to_kiwi_future(H[int(p[1])]))
        elif k == 'task':
            # every other task is scheduled while ANOTHER loop is the thread's current one (as a communicator thread does):
            # the task and its outcome future belong to the loop that was passed, not to the current one
            foreign = len(H) % 2 == 1
            if foreign:
                if getattr(e, 'decoy', None) is None:
                    e.decoy = asyncio.new_event_loop()
                asyncio.set_event_loop(e.decoy)
            try:
                H.append(e.futures.create_task(self.coro_fn(p[1]), e.loop))
            finally:
                if foreign:
                    asyncio.set_event_loop(e.loop)
        elif k == 'rpc':
            H.append(e.proc._schedule_rpc(self.call_fn(p[1])))
        elif k == 'comm':
            spec = p[1]
            if spec[0] in 'rfx' and len(H) % 2 == 0:
                # a plain (non-coroutine) subscriber, wrapped by ensure_coroutine
                inner = self.call_fn(spec)
                sub = lambda comm, msg: inner()  # noqa: E731
            else:
                co = self.coro_fn(spec)

                async def sub(comm, msg):
                    return await co()
            e.n_sub += 1
            ident = f's{e.n_sub}'
            e.lc.add_rpc_subscriber(sub, identifier=ident)
            try:
                H.append(e.lc.rpc_send(ident, None))
            finally:
                e.lc.remove_rpc_subscriber(ident)
        elif k == 'act':
            idx = len(H)
            self.calls[idx] = 0
            H.append(e.futures.CancellableAction(self.call_fn(p[1], counter=idx)))
        elif k == 'run':
            try:
                H[int(p[1])].run()
            except BaseException as ex:  # noqa
                return 'E' + exc_name(ex)
        else:
            raise ValueError(tok)
        return 'ok'

    def observe(self):
        e = self.e
        hs = []
        for i, f in enumerate(self.H):
            hs.append((f'A{self.calls[i]}:' if i in self.calls else '') + describe(f))
        return ','.join(hs) + f'|c{e.cb_errors.n}l{e.loop_errors}'

    def ops(self, toks, out):
        for t in toks:
            r = self.op(t)
            out.append(r + '|' + self.observe())


def run_case(groups):
    """-> list of observation tokens, one per op and one per drain (same order as `model_line`)"""
    e = env()
    r = Run(e)
    out = []
    for thread, toks in groups:
        if thread == 'L':
            e.in_loop(lambda: r.ops(toks, out))
        else:
            release = e.park()
            try:
                r.ops(toks, out)
            finally:
                release.set()
        e.drain()
        out.append('ok|' + r.observe())
    return out


def model_line(groups):
    toks = []
    for _, g in groups:
        toks.extend(g)
        toks.append('drain')
    return ' '.join(toks)


def corpus_f20():
    """Process-level witness of finding F20 (fixed by 93ed834): an RPC `pause` arrives during a step, then `play` before the
    step ends cancels the pausing action; the reply future of the pause must not stay pending for ever."""
    common.ensure_repo_on_path()
    import plumpy
    from plumpy import process_comms
    logging.getLogger('plumpy').setLevel(logging.CRITICAL)
    loop = asyncio.new_event_loop()
    try:
        def spin(n):
            for _ in range(n):
                loop.call_soon(loop.stop)
                loop.run_forever()

        class P(plumpy.Process):
            async def run(self):
                await asyncio.sleep(0.02)
        p = P(loop=loop)
        loop.create_task(p.step_until_terminated())
        spin(3)
        # private attribute: when a refactoring renames it, fall back to what the schedule guarantees (the step is in flight)
        stepping = bool(getattr(p, '_stepping', True))
        pause = p.message_receive(None, {process_comms.INTENT_KEY: process_comms.Intent.PAUSE})
        spin(3)
        play = p.message_receive(None, {process_comms.INTENT_KEY: process_comms.Intent.PLAY})
        loop.run_until_complete(asyncio.wait_for(p.future(), 10))
        spin(5)
        return dict(stepping=stepping, state=p.state.value, pause_reply=describe(pause), play_reply=describe(play))
    finally:
        loop.close()
