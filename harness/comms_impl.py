"""Executor for C16: real plumpy processes controlled through the real communicator path
(`RemoteProcessThreadController` -> `LoopCommunicator` -> an in-process kiwipy communicator -> `Process.message_receive` /
`broadcast_receive` -> `_schedule_rpc`) on the deterministic loop, a TWIN controlled by direct calls, and the monitors of the
property (independent of the Lean model).

A case is (prog, sched, fail):
  prog   name of a program below (same corpus as `PMF.progOf`)
  sched  {position: [op, ...]}: ops placed before the position-th callback of the remotely controlled run
         op: 'rpc <intent>' | 'bcast <subject>' | 'env resume'
  fail   None | (transition index, exception class name): `broadcast_send` raises it for that state-change broadcast

Everything is observed through public API: `state`, `paused`, `status`, `future()`, `killed_msg()`, `outputs`, a
state-ENTERED callback, `add_cleanup`, overriding the public methods `message_receive`, `broadcast_receive`, `pause`, `play`,
`kill` in the generated subclasses (to learn *when* a handler runs), and the communicator the harness supplies.
"""
import ast
import asyncio
import inspect
import logging
import os
import sys
import textwrap
import warnings

import harness.detloop as dl  # noqa: F401  (must precede plumpy: swaps in the pure-Python Future/Task)
import kiwipy
import plumpy
from plumpy import communications, process_comms
from plumpy import process_states as ps
from plumpy.base.state_machine import StateEventHook

logging.disable(logging.CRITICAL)
# runs that end at an injected non-tolerated failure leave scheduled message coroutines behind
warnings.filterwarnings('ignore', category=RuntimeWarning, message='coroutine .* was never awaited')

PID = 'pid'
SIBLING_PID = 'sibling'
MSG = 'm'
STATE_OF_STR = {str(s): s.value for s in ps.ProcessState}
TERMINAL = ('finished', 'excepted', 'killed')


class Injected(Exception):
    """a broadcast failure that is NOT one of the tolerated kinds"""


_TOLERATED = None


def tolerated_classes():
    global _TOLERATED
    if _TOLERATED is None:
        _TOLERATED = _probe_tolerated_classes()
    return dict(_TOLERATED)


def _probe_tolerated_classes():
    """the exception classes plumpy tolerates as failures of the state-change broadcast, by name (PROBED as gen_tables does: a
    trivial process must survive the failure; no source is read)"""
    import plumpy
    sys.path.insert(0, os.path.dirname(os.path.abspath(__file__)))
    import gen_comms
    cands = gen_comms.failure_candidates()
    names = gen_comms.probe_tolerated(plumpy)
    if names is None:
        names = list(property_kinds())
    return {n: cands[n] for n in names if n in cands}


def property_kinds():
    """the tolerated kinds as the PROPERTY names them (closed connection, invalid channel, timeout), resolved without looking at
    plumpy's source: the reference of the monitors"""
    import aio_pika.exceptions as ae
    return {'ConnectionClosed': ae.ConnectionClosed, 'ChannelInvalidStateError': ae.ChannelInvalidStateError,
            'TimeoutError': kiwipy.TimeoutError}


def make_exc(clsname):
    cls = tolerated_classes().get(clsname) or property_kinds().get(clsname)
    if cls is None:
        return Injected('injected')
    try:
        return cls('injected')
    except Exception:  # noqa
        return cls()


# --------------------------------------------------------------------------------------------- communicator
class HComm(kiwipy.LocalCommunicator):
    """In-process communicator of the harness: delivers broadcasts POSITIONALLY (as kiwipy's RMQ communicator does), tracks
    subscriptions through the public add_/remove_ methods and can make the state-change broadcast number `fail[0]` raise."""

    def __init__(self, fail=None):
        super().__init__()
        self.fail = fail
        self.n_state = 0          # state-change broadcasts attempted by the process so far = transition index
        self.injected = None      # index at which the injected exception was raised
        self.rpc_ids, self.bc_ids = set(), set()

    def add_rpc_subscriber(self, subscriber, identifier=None):
        ident = super().add_rpc_subscriber(subscriber, identifier)
        self.rpc_ids.add(ident)
        return ident

    def remove_rpc_subscriber(self, identifier):
        if self.fail is not None and self.fail[0] == 'unsub' and identifier == PID and not getattr(self, 'unsub_failed', False):
            # the communicator fails while the terminating process unsubscribes (a timeout on a broken connection): what comes
            # after in the process's clean-up - removing the broadcast subscriber - must still happen
            self.unsub_failed = True
            raise make_exc(self.fail[1])
        super().remove_rpc_subscriber(identifier)
        self.rpc_ids.discard(identifier)

    def add_broadcast_subscriber(self, subscriber, identifier=None):
        ident = super().add_broadcast_subscriber(subscriber, identifier)
        self.bc_ids.add(ident)
        return ident

    def remove_broadcast_subscriber(self, identifier):
        super().remove_broadcast_subscriber(identifier)
        self.bc_ids.discard(identifier)

    def broadcast_send(self, body, sender=None, subject=None, correlation_id=None):
        if sender == SIBLING_PID:
            return True         # the announcements of the sibling process are not part of the observation
        if isinstance(subject, str) and subject.startswith('state_changed') and sender is not None:
            idx = self.n_state
            self.n_state += 1
            if self.fail is not None and self.fail[0] == idx and not isinstance(self.fail[0], str):
                self.injected = idx
                raise make_exc(self.fail[1])
        self._ensure_open()
        for sub in list(self._broadcast_subscribers.values()):
            sub(self, body, sender, subject, correlation_id)
        return True


class Recorder:
    """independent broadcast subscriber: (subject, sender, state of the process when the broadcast arrives)"""

    def __init__(self):
        self.log = []
        self.proc = None

    def __call__(self, _comm, body, sender, subject, correlation_id):
        st = None
        if self.proc is not None and self.proc.state is not None:
            st = self.proc.state.value
        self.log.append((subject, sender, st))


# --------------------------------------------------------------------------------------------- programs
RAW_PID = 'raw-7'


class Hooked:
    """mixin of the generated process classes"""
    RECORDER = None

    @property
    def pid(self):
        # the process id is what the public `pid` property says (a class may derive it, e.g. prefix a tenant): it is constructed
        # with RAW_PID and is known to everybody - subscriptions, announcements, controllers - as PID
        raw = super().pid
        return PID if raw == RAW_PID else raw

    def __init__(self, *a, **k):
        super().__init__(*a, **k)
        self.h_entered = []     # (from, to) from the public ENTERED callback
        self.h_trace = []       # user functions called, with the paused flag
        self.h_events = []      # handlers that ran during the current callback
        self.h_cleanups = []
        self.h_escaped = []     # exceptions that left on_entered (they propagate into transition_to)
        self.h_by_harness = False
        if Hooked.RECORDER is not None:
            Hooked.RECORDER.proc = self
        self.add_state_event_callback(
            StateEventHook.ENTERED_STATE,
            lambda sm, _hook, frm: self.h_entered.append((frm.LABEL.value if frm is not None else None, sm.state.value)))

    def _rec(self, name, *a, **k):
        self.h_trace.append((name, a, tuple(sorted(k.items())), self.paused))

    def on_entered(self, from_state):
        try:
            return super().on_entered(from_state)
        except Exception as e:  # noqa
            self.h_escaped.append(type(e).__name__)
            raise

    # the points where a message's handler runs
    def message_receive(self, *a, **k):
        msg = a[1] if len(a) > 1 else k.get('msg')
        ev = ['recv', 'rpc', msg.get(process_comms.INTENT_KEY) if isinstance(msg, dict) else None, None]
        self.h_events.append(ev)
        try:
            r = super().message_receive(*a, **k)
        except Exception as e:  # noqa
            ev[3] = ('raised', type(e).__name__)
            raise
        ev[3] = ('ret', r)
        return r

    def broadcast_receive(self, *a, **k):
        subject = a[3] if len(a) > 3 else k.get('subject')
        ev = ['recv', 'bcast', subject, None]
        self.h_events.append(ev)
        try:
            r = super().broadcast_receive(*a, **k)
        except Exception as e:  # noqa
            ev[3] = ('raised', type(e).__name__)
            raise
        ev[3] = ('ret', r)
        return r

    def _ctl(self, name, *a, **k):
        if self.h_by_harness:
            return getattr(super(), name)(*a, **k)
        ev = ['call', name, None]
        self.h_events.append(ev)
        r = getattr(super(), name)(*a, **k)
        ev[2] = r
        return r

    def pause(self, *a, **k):
        return self._ctl('pause', *a, **k)

    def play(self, *a, **k):
        return self._ctl('play', *a, **k)

    def kill(self, *a, **k):
        return self._ctl('kill', *a, **k)


class Sync2(Hooked, plumpy.Process):
    def run(self):
        self._rec('run')
        return ps.Continue(self.nxt, 1, k=2)

    def nxt(self, *a, **k):
        self._rec('nxt', *a, **k)
        return 3


class Async2(Hooked, plumpy.Process):
    async def run(self):
        self._rec('run')
        await asyncio.sleep(0)
        await asyncio.sleep(0)
        return ps.Continue(self.nxt)

    async def nxt(self):
        self._rec('nxt')
        await asyncio.sleep(0)
        return 3


class Waiter(Hooked, plumpy.Process):
    def run(self):
        self._rec('run')
        return ps.Wait(self.nxt)

    def nxt(self, *a):
        self._rec('nxt', *a)
        return 7


class WaitAsync(Hooked, plumpy.Process):
    async def run(self):
        self._rec('run')
        await asyncio.sleep(0)
        return ps.Wait(self.nxt)

    async def nxt(self, *a):
        self._rec('nxt', *a)
        await asyncio.sleep(0)
        return 7


class Failing(Hooked, plumpy.Process):
    async def run(self):
        self._rec('run')
        await asyncio.sleep(0)
        raise ValueError('boom')


class Async6(Hooked, plumpy.Process):
    async def run(self):
        self._rec('run')
        for _ in range(5):
            await asyncio.sleep(0)
        return ps.Continue(self.nxt)

    async def nxt(self):
        self._rec('nxt')
        for _ in range(4):
            await asyncio.sleep(0)
        return 3


class WaitAsync4(Hooked, plumpy.Process):
    async def run(self):
        self._rec('run')
        for _ in range(4):
            await asyncio.sleep(0)
        return ps.Wait(self.nxt)

    async def nxt(self, *a):
        self._rec('nxt', *a)
        for _ in range(4):
            await asyncio.sleep(0)
        return 7


class Failing5(Hooked, plumpy.Process):
    async def run(self):
        self._rec('run')
        for _ in range(5):
            await asyncio.sleep(0)
        raise ValueError('boom')


class Sync4(Hooked, plumpy.Process):
    def run(self):
        self._rec('run')
        return ps.Continue(self.s1)

    def s1(self):
        self._rec('s1')
        return ps.Continue(self.s2)

    def s2(self):
        self._rec('s2')
        return ps.Continue(self.s3)

    def s3(self):
        self._rec('s3')
        return 3


class PauseFault(Hooked, plumpy.Process):
    """a waiting process whose on_pausing hook raises (first pause only): the failure of a pause requested in-step is reported
    through the action future - and so through the reply of a remote pause - some time after the request was handled"""

    def run(self):
        self._rec('run')
        return ps.Wait(self.nxt)

    def nxt(self, *a):
        self._rec('nxt', *a)
        return 7

    def on_pausing(self, msg=None):
        n = self.__dict__['_n_pausing'] = self.__dict__.get('_n_pausing', 0) + 1
        if n == 1:
            raise ValueError('boom')
        super().on_pausing(msg)


class DeferMixin:
    """control calls that answer later: pause() / kill() return a future which is resolved, one loop iteration later, with what the
    base call returns - itself an action future when a step is in flight, so the answer is a future inside a future (a class that
    does some clean-up before it lets itself be killed).  Sits BELOW `Hooked` in the MRO: the remote handler and the direct call of
    the twin both enter through `Hooked.kill`."""

    def _defer(self, name, *a, **k):
        fut = self.loop.create_future()
        base = getattr(super(), name)

        def go():
            try:
                fut.set_result(base(*a, **k))
            except Exception as e:  # noqa
                fut.set_exception(e)
        self.loop.call_soon(go)
        return fut

    def pause(self, *a, **k):
        return self._defer('pause', *a, **k)

    def kill(self, *a, **k):
        return self._defer('kill', *a, **k)


class Deferred(Hooked, DeferMixin, plumpy.Process):
    async def run(self):
        self._rec('run')
        await asyncio.sleep(0)
        await asyncio.sleep(0)
        await asyncio.sleep(0)
        return ps.Continue(self.nxt)

    async def nxt(self):
        self._rec('nxt')
        await asyncio.sleep(0)
        await asyncio.sleep(0)
        return 3


IMPL_ONLY_PROGRAMS = ('PauseFault', 'Deferred')       # programs the communication model does not know: decided by the twin comparison alone
PROGRAMS = {'PauseFault': PauseFault, 'Deferred': Deferred, 'Async6': Async6, 'WaitAsync4': WaitAsync4, 'Failing5': Failing5, 'Sync4': Sync4, 'Sync2': Sync2, 'Async2': Async2, 'Waiter': Waiter, 'WaitAsync': WaitAsync, 'Failing': Failing}
WAITERS = ('Waiter', 'WaitAsync', 'WaitAsync4', 'PauseFault')


# --------------------------------------------------------------------------------------------- rendering
def excname(e):
    if isinstance(e, plumpy.KilledError):
        return 'KilledError'
    if isinstance(e, ValueError) and str(e) == 'boom':
        return 'user0'
    return type(e).__name__


def show_ret(r):
    if asyncio.isfuture(r):
        return 'fut'
    return {True: 'T', False: 'F', None: 'none'}.get(r, repr(r)) if isinstance(r, (bool, type(None))) else type(r).__name__


def show_outcome(f):
    """final value of a direct call's return value / of a reply future"""
    seen = 0
    while True:
        if isinstance(f, (kiwipy.Future, asyncio.Future)):
            if not f.done():
                return 'pending'
            if f.cancelled():
                return 'cancelled'
            if f.exception() is not None:
                return 'exc:' + type(f.exception()).__name__
            f = f.result()
            seen += 1
            if seen > 10:
                return 'nested'
            continue
        if isinstance(f, dict):
            return 'status:%s:%d' % (STATE_OF_STR.get(f.get('state'), '?'), int(bool(f.get('paused')))) if 'paused' in f else 'status:?'
        if isinstance(f, bool) or f is None:
            return {True: 'T', False: 'F', None: 'none'}[f]
        return type(f).__name__


def leaked_future(f):
    """a reply is a VALUE (it crosses a communicator): the first object in the chain of a reply future that is a future of the
    process's own event loop (an action future that was answered instead of awaited), or None"""
    for _ in range(12):
        if isinstance(f, asyncio.Future):
            return f
        if isinstance(f, kiwipy.Future) and f.done() and not f.cancelled() and f.exception() is None:
            f = f.result()
            continue
        return None
    return None


def final_value(f):
    while isinstance(f, (kiwipy.Future, asyncio.Future)) and f.done() and not f.cancelled() and f.exception() is None:
        f = f.result()
    return f


class Sibling(plumpy.Process):
    """a trivial second process sharing the communicator"""

    def run(self):
        return None


class Run:
    """one process on its own deterministic loop with its own communicator"""

    def __init__(self, prog, fail=None, start=True):
        self.prog = prog
        self.loop = dl.DetLoop()
        # the thread's current loop while the process and its communicator live on `self.loop`: that loop, another one that never
        # runs, or none (the messages are handled inside callbacks of self.loop; the direct calls of the twin are made from outside)
        import zlib
        self.loop_mode = ('own', 'foreign', 'none')[zlib.crc32(repr((prog, fail, start)).encode()) % 3]
        dl.use_loop(self.loop, foreign={'own': False, 'foreign': True, 'none': 'none'}[self.loop_mode])
        self.loop_errors = []
        self.loop.set_exception_handler(lambda _l, c: self.loop_errors.append(
            type(c.get('exception')).__name__ if c.get('exception') is not None else str(c.get('message'))))
        self.comm = HComm(fail)
        self.rec = Recorder()
        self.comm.add_broadcast_subscriber(self.rec, identifier='recorder')
        self.lc = communications.LoopCommunicator(self.comm, self.loop)
        self.ctl = process_comms.RemoteProcessThreadController(self.lc)
        self.ctor_error = None
        self.proc = None
        Hooked.RECORDER = self.rec
        try:
            self.proc = PROGRAMS[prog](loop=self.loop, communicator=self.lc, pid=RAW_PID)
        except Exception as e:  # noqa
            self.ctor_error = type(e).__name__
        finally:
            Hooked.RECORDER = None
        self.task = None
        if self.proc is not None:
            # a second process on the same communicator that runs to its end before anything is sent to the first one: the
            # subscriptions (and cleanups) of a process are its own, whatever other processes do
            try:
                sib = Sibling(loop=self.loop, communicator=self.lc, pid=SIBLING_PID)
                self.loop.create_task(sib.step_until_terminated())
                self.loop.drain(200)
                self.sibling_state = sib.state.value
            except Exception as e:  # noqa
                self.sibling_state = 'error:' + type(e).__name__
            self.proc.add_cleanup(lambda: self.proc.h_cleanups.append(1))
            if start:
                self.start()
        self.handed = []
        self.n_state_seen = 0

    def start(self):
        if self.task is None:
            self.task = self.loop.create_task(self.proc.step_until_terminated())

    def close(self):
        try:
            if self.task is not None and not self.task.done():
                self.task.cancel()
                self.loop.drain(50)
        except Exception:  # noqa
            pass
        self.loop.close()

    # -- observations
    def fut_str(self):
        f = self.proc.future()
        if not f.done():
            return 'pending'
        if f.cancelled():
            return 'cancelled'
        if f.exception() is not None:
            return 'exc:' + excname(f.exception())
        return 'result'

    def task_str(self):
        t = self.task
        if t is None or not t.done():
            return 'pending'
        return 'crashed' if (t.cancelled() or t.exception() is not None) else 'done'

    def sub_str(self):
        return '%d%d' % (int(PID in self.comm.rpc_ids), int(PID in self.comm.bc_ids))

    def state_broadcasts(self):
        return [(s, snd) for s, snd, _st in self.rec.log if isinstance(s, str) and s.startswith('state_changed') and snd is not None]

    def model_line(self, ret):
        """the observation compared with the Lean model"""
        if self.proc.h_escaped:
            return 'hookfail'
        sb = self.state_broadcasts()
        fresh = sb[self.n_state_seen:]
        self.n_state_seen = len(sb)
        p = self.proc
        return (f"ret={ret} st={p.state.value} paused={int(p.paused)} fut={self.fut_str()} task={self.task_str()} "
                f"sub={self.sub_str()} blog+={','.join(s for s, _ in fresh) if fresh else '-'}")

    def twin_obs(self):
        """everything the twin comparison looks at (public API)"""
        p = self.proc
        out = None
        try:
            out = dict(p.outputs)
        except Exception:  # noqa
            pass
        km = None
        try:
            km = p.killed_msg()
        except Exception:  # noqa
            km = 'n/a'
        if isinstance(km, dict):
            km = tuple(sorted((k, str(v)) for k, v in km.items()))
        return dict(state=p.state.value, paused=bool(p.paused), status=p.status, fut=self.fut_str(), task=self.task_str(),
                    killed_msg=km, killing=bool(p.is_killing), entered=list(p.h_entered), trace=[repr(t) for t in p.h_trace],
                    outputs=repr(out), sub=self.sub_str(), cleanups=len(p.h_cleanups), broadcasts=self.state_broadcasts(),
                    handed=''.join(show_outcome(a)[0] for a in self.handed), loop_errors=list(self.loop_errors))


def phase_of(p):
    st = p.state.value
    return st + ('+step' if getattr(p, '_stepping', False) else '') + ('+paused' if p.paused else '')


# --------------------------------------------------------------------------------------------- the remotely controlled run
def run_remote(prog, sched, fail=None, max_cb=400, after_checks=True):
    """returns dict(ops, lines, events, replies, run-level facts); `events` drives the twin"""
    late = any(op == 'env start' for ops in sched.values() for op in ops)
    R = Run(prog, fail, start=not late)
    res = dict(prog=prog, ops=[f"case {prog} {'-' if fail is None else '%s:%s' % tuple(fail)}"], lines=[], events=[], replies={},
               msgs={}, ctor_error=R.ctor_error, hookfail_at=None, hist={}, status_checks=[], after=[], after_ids=[],
               escaped=[])
    if R.proc is None:
        res['lines'].append('hookfail')
        res['hookfail_at'] = 0
        res['final'] = None
        res['injected'] = R.comm.injected
        res['escaped'] = list(R.rec.proc.h_escaped) if R.rec.proc is not None else []
        R.close()
        return res
    p = R.proc
    res['lines'].append(R.model_line('none'))
    outstanding = []     # routed messages whose handler has not run: [id, variant, wire]
    scheduled = []       # handlers that returned a future (a _schedule_rpc callback is pending): [id, variant, wire]
    next_id = [0]
    dead = [False]

    def emit(op, ret, kind, **extra):
        line = R.model_line(ret)
        res['ops'].append(op)
        res['lines'].append(line)
        ev = dict(kind=kind, op=op, obs=R.twin_obs(), **extra)
        res['events'].append(ev)
        if line == 'hookfail' and not dead[0]:
            dead[0] = True
            res['hookfail_at'] = len(res['ops']) - 1
        return ev

    def send(op):
        kind, arg = op.split(' ', 1)
        before = R.loop.n_ready()
        ret = None
        fut = None
        if kind == 'env' and arg == 'start':
            # the stepping task is created only now (the process sits in CREATED until then); not an event of the model
            R.start()
            res['events'].append(dict(kind='start', op=op, obs=R.twin_obs()))
            return
        if kind == 'env':
            p.h_by_harness = True
            try:
                if arg == 'resume':
                    try:
                        r = p.resume(5)
                        ret = show_ret(r)
                    except Exception as e:  # noqa
                        ret = 'raised:' + excname(e)
                elif arg == 'play':
                    ret = show_ret(p.play())
            finally:
                p.h_by_harness = False
            emit(('direct ' if arg == 'play' else 'env ') + arg, ret, 'env', arg=arg)
            return
        try:
            if kind == 'rpc':
                if arg == 'pause':
                    fut = R.ctl.pause_process(PID, MSG)
                elif arg == 'play':
                    fut = R.ctl.play_process(PID)
                elif arg == 'kill':
                    fut = R.ctl.kill_process(PID, MSG)
                elif arg == 'status':
                    fut = R.ctl.get_status(PID)
                else:
                    fut = R.lc.rpc_send(PID, {process_comms.INTENT_KEY: arg, process_comms.MESSAGE_TEXT_KEY: MSG})
            else:
                if arg == 'pause':
                    R.ctl.pause_all(MSG)
                elif arg == 'play':
                    R.ctl.play_all()
                elif arg == 'kill':
                    R.ctl.kill_all(MSG)
                else:
                    R.lc.broadcast_send({process_comms.MESSAGE_TEXT_KEY: MSG}, sender=None, subject=arg)
        except kiwipy.UnroutableError:
            ret = 'unroutable'
        except Exception as e:  # noqa
            ret = 'raised:' + type(e).__name__
        if ret is None:
            if R.loop.n_ready() > before:
                mid = next_id[0]
                next_id[0] += 1
                outstanding.append([mid, kind, arg])
                res['msgs'][mid] = (kind, arg)
                if kind == 'rpc':
                    res['replies'][mid] = fut
                ret = f'sent:{mid}'
            elif kind == 'bcast':
                ret = 'nosub' if PID not in R.comm.bc_ids else 'filtered'
            else:
                ret = 'lost'
        emit(op, ret, 'send', result=ret)

    def tick():
        lab = R.loop.head_label()
        if lab is None:
            return False
        name = lab[1]
        before = R.twin_obs()
        ph = phase_of(p)
        p.h_events = []
        R.loop.step_one()
        evs = p.h_events
        p.h_events = []
        recvs = [e for e in evs if e[0] == 'recv']
        calls = [e for e in evs if e[0] == 'call']
        if name.endswith('step_until_terminated') and not evs:
            emit('tick stepper', 'none', 'cb', label='step_until_terminated')
        elif len(recvs) == 1 and not calls:
            _, variant, wire, outcome = recvs[0]
            m = next((m for m in outstanding if m[1] == variant and m[2] == wire), None)
            if m is None:
                emit('tick weird', 'none', 'weird')
                return True
            outstanding.remove(m)
            if outcome[0] == 'raised':
                ret = 'rejected:' + outcome[1]
            elif isinstance(outcome[1], kiwipy.Future):
                ret = 'sched'
                scheduled.append(m)
            elif isinstance(outcome[1], dict):
                ret = show_outcome(outcome[1])
                direct = {}
                p.get_status_info(direct)          # the direct call at the same point, on the same process (read-only)
                res['status_checks'].append(dict(id=m[0], reply=dict(outcome[1]), direct=direct,
                                                 state=str(p.state), paused=bool(p.paused)))
            elif outcome[1] is None:
                ret = 'ignored'
            else:
                ret = 'ret:' + type(outcome[1]).__name__
            res['hist'][f'recv {variant} {wire} @{ph}'] = res['hist'].get(f'recv {variant} {wire} @{ph}', 0) + 1
            emit(f'tick recv {m[0]}', ret, 'recv', id=m[0], variant=variant, wire=wire, changed=(before != R.twin_obs()))
        elif len(calls) == 1 and not recvs and scheduled:
            m = scheduled.pop(0)
            _, callee, r = calls[0]
            if asyncio.isfuture(r) and not any(r is a for a in R.handed):
                R.handed.append(r)
            res['hist'][f'call {m[1]} {m[2]} @{ph}'] = res['hist'].get(f'call {m[1]} {m[2]} @{ph}', 0) + 1
            emit(f'tick call {m[0]}', f'called:{callee}:{show_ret(r)}', 'call', id=m[0], variant=m[1], wire=m[2], callee=callee,
                 handler_ret=r)
        elif evs:
            emit('tick weird', 'none', 'weird')
        else:
            # any other callback: plumbing of the communicator path (future copies, thread-safe hops), which must not touch the
            # process, or a callback of the process itself (done-callbacks of its future, ...), which the twin has too.
            # Which of the two it is is decided when the twin is replayed: the twin has no plumbing.
            after = R.twin_obs()
            res['events'].append(dict(kind='other', label=name, changed=(before != after), obs=after))
        return True

    n = 0
    last = max(sched.keys(), default=-1)
    while n < max_cb and not dead[0]:
        for op in sched.get(n, []):
            if not dead[0]:
                send(op)
        if dead[0]:
            break
        if not tick() and last <= n:
            break
        n += 1
    # finalisation (environment, applied to both twins): start, release a pause, deliver the awaited value, drain
    if R.task is None and not dead[0]:
        send('env start')
    for _ in range(3):
        if dead[0]:
            break
        if not p.has_terminated():
            if p.paused:
                send('env play')
            if prog in WAITERS and p.state == ps.ProcessState.WAITING and not dead[0]:
                send('env resume')
        k = 0
        while k < max_cb and not dead[0] and tick():
            k += 1
    res['terminated'] = bool(p.has_terminated()) if not dead[0] else None
    if after_checks and not dead[0] and p.has_terminated():
        # a terminated process no longer receives messages
        for op in ('rpc pause', 'bcast kill'):
            before = R.twin_obs()
            nready = R.loop.n_ready()
            send(op)
            if res['events'][-1].get('result', '').startswith('sent:'):
                res['after_ids'].append(int(res['events'][-1]['result'].split(':')[1]))
            res['after'].append(dict(op=op, ret=res['events'][-1].get('result'), changed=(before != R.twin_obs()),
                                     scheduled=R.loop.n_ready() - nready))
    res['ops'].append('end')
    if dead[0]:
        res['lines'].append('dead')
    else:
        reps = ','.join(f'{i}:{show_outcome(f)}' for i, f in sorted(res['replies'].items()))
        bl = ','.join(f'{i}:{s}:{snd}' for i, (s, snd) in _indexed(R))
        res['lines'].append(f'replies={reps} announced={R.comm.n_state} blog={bl}')
    res['reply_values'] = {i: show_outcome(f) for i, f in res['replies'].items()}
    res['reply_raw'] = {i: final_value(f) for i, f in res['replies'].items()}
    res['reply_leaks'] = {i: type(x).__name__ for i, x in ((i, leaked_future(f)) for i, f in res['replies'].items()) if x is not None}
    res['final'] = R.twin_obs()
    res['rec_log'] = list(R.rec.log)
    res['n_state'] = R.comm.n_state
    res['injected'] = R.comm.injected
    res['escaped'] = list(p.h_escaped)
    res['loop_left'] = R.loop.n_ready()
    res['replies'] = None
    R.close()
    return res


def _indexed(R):
    """state-change broadcasts with their transition index (the failed one is skipped)"""
    out = []
    i = 0
    for s, snd in R.state_broadcasts():
        if R.comm.injected is not None and i == R.comm.injected:
            i += 1
        out.append((i, (s, snd)))
        i += 1
    return out


# --------------------------------------------------------------------------------------------- the twin
def run_twin(prog, remote):
    """replay the remote run's events on a twin that receives direct calls where the remote run's handlers ran"""
    T = Run(prog, None, start=not any(ev['kind'] == 'start' for ev in remote['events']))
    p = T.proc
    ops = [f'case {prog} -']
    lines = [T.model_line('none')]
    mismatches = []
    returns = {}
    statuses = {}

    def emit(op, ret):
        ops.append(op)
        lines.append(T.model_line(ret))

    def compare(ev, what):
        a, b = ev['obs'], T.twin_obs()
        if a != b and not mismatches:
            diff = {k: (a[k], b[k]) for k in a if a[k] != b.get(k)}
            mismatches.append(dict(at=ev.get('op', ev.get('label')), what=what, remote_vs_direct=diff))

    for ev in remote['events']:
        kind = ev['kind']
        if kind == 'other':
            lab = T.loop.head_label()
            if lab is not None and lab[1] == ev['label']:
                T.loop.step_one()                      # a callback of the process itself: the twin runs it too
                compare(ev, 'after a callback of the process')
            elif ev['changed'] and not mismatches:
                mismatches.append(dict(at=ev['label'], what='a plumbing callback of the communicator path changed the process'))
            continue
        if kind == 'weird':
            if not mismatches:
                mismatches.append(dict(at=ev['op'], what='unexpected combination of handlers inside one callback'))
            break
        if kind == 'send':
            compare(ev, 'sending a message changed the process before any handler ran')
            continue
        if kind == 'start':
            T.start()
            compare(ev, 'after creating the stepping task')
            continue
        if kind == 'cb':
            lab = T.loop.head_label()
            if lab is None or not lab[1].endswith(ev['label']):
                if not mismatches:
                    mismatches.append(dict(at=ev['op'], what='the twin has no such callback ready',
                                           twin_head=None if lab is None else lab[1]))
                break
            T.loop.step_one()
            emit(ev['op'], 'none')
            compare(ev, 'after a process callback')
            continue
        if kind == 'env':
            p.h_by_harness = True
            try:
                if ev['arg'] == 'resume':
                    try:
                        ret = show_ret(p.resume(5))
                    except Exception as e:  # noqa
                        ret = 'raised:' + excname(e)
                else:
                    ret = show_ret(p.play())
            finally:
                p.h_by_harness = False
            emit(ev['op'], ret)
            compare(ev, 'after an environment call')
            continue
        if kind == 'recv':
            if ev['variant'] == 'rpc' and ev['wire'] == process_comms.Intent.STATUS:
                d = {}
                p.get_status_info(d)
                statuses[ev['id']] = d
                emit('direct status', show_outcome(d))
            compare(ev, 'after the message handler ran')
            continue
        if kind == 'call':
            wire = ev['wire']
            p.h_by_harness = True
            try:
                try:
                    if wire == process_comms.Intent.PAUSE:
                        r = p.pause(MSG)
                    elif wire == process_comms.Intent.PLAY:
                        r = p.play()
                    elif wire == process_comms.Intent.KILL:
                        r = p.kill(MSG)
                    else:
                        r = None
                except Exception as e:  # noqa
                    r = e
            finally:
                p.h_by_harness = False
            if asyncio.isfuture(r) and not any(r is a for a in T.handed):
                T.handed.append(r)
            returns[ev['id']] = r
            emit(f'direct {wire}', show_ret(r) if not isinstance(r, Exception) else 'raised:' + excname(r))
            if show_ret(ev['handler_ret']) != show_ret(r) and not mismatches:
                mismatches.append(dict(at=ev['op'], what='return value of the handler differs from the direct call',
                                       remote=show_ret(ev['handler_ret']), direct=show_ret(r)))
            compare(ev, 'after the scheduled call ran')
            continue
    # drain what is left on the twin and compare the final outcome
    T.loop.drain(400)
    final = T.twin_obs()
    ops.append('end')
    bl = ','.join(f'{i}:{s}:{snd}' for i, (s, snd) in _indexed(T))
    lines.append(f'replies= announced={T.comm.n_state} blog={bl}')
    out = dict(ops=ops, lines=lines, mismatches=mismatches, final=final,
               returns={i: ('exc:RuntimeError' if isinstance(r, Exception) else show_outcome(r)) for i, r in returns.items()},
               statuses=statuses)
    T.close()
    return out


def strip_events(res):
    """drop unpicklable members before a result crosses the process boundary"""
    for ev in res.get('events', []):
        ev.pop('handler_ret', None)
    return res


tolerated_classes()     # probed once, at import: never from inside a running event loop (worker processes inherit it by fork)
