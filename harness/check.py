"""./check <Cxx> <quick|thorough>   |   ./check --replay <file>

Pipeline (DESIGN.md 2.2): regenerate tables -> build model driver + property theorems -> audit ->
corpus + correspondence + monitors -> verdict -> evidence.
Exit 0: property held on everything explored (KNOWN-FINDING lines allowed); 1: VIOLATION; 2: no source tree or bad usage.  A harness that raises, blocks or exceeds its wall-clock budget on the tree under check is a
correspondence that no longer checks: exit 1 with `no-failing-input-found` (DESIGN 2.2).
"""
import importlib
import json
import os
import random
import re
import subprocess
import sys
import time
import traceback

sys.path.insert(0, os.path.dirname(os.path.dirname(os.path.abspath(__file__))))
from harness import common  # noqa: E402


class Ctx:
    def __init__(self, prop, tier, seed, model, search=False):
        self.prop, self.tier, self.seed, self.model, self.search = prop, tier, seed, model, search
        self.rng = random.Random(seed * 1000003 + int(prop[1:]))
        self.workers = common.WORKERS
        self.t0 = time.time()
        self.notes = []

    @property
    def thorough(self):
        return self.tier == 'thorough' or self.search

    def note(self, s):
        self.notes.append(s)


def load_prop(prop):
    return importlib.import_module(f'harness.props.{prop.lower()}')


def match_finding(findings, prop, failure):
    for f in findings:
        if f.get('status') != 'known' or f['property'] != prop:
            continue
        if re.fullmatch(f['signature'], failure.get('signature', '')):
            return f
    return None


def write_replay(prop, seed, payload):
    d = os.path.join(common.ROOT, 'replays')
    os.makedirs(d, exist_ok=True)
    path = os.path.join(d, f'{prop}-{seed}-{int(time.time())}.json')
    with open(path, 'w') as fh:
        json.dump(payload, fh, indent=1, default=str)
    return os.path.relpath(path, common.ROOT)


def write_evidence(prop, tier, seed, cov, assumptions, wall, violations):
    d = os.path.join(common.ROOT, 'evidence')
    if os.path.realpath(common.REPO) != '/repo':
        # a run against a scratch copy (seeded mutant, refactoring variant) never overwrites the evidence of /repo
        d = os.path.join(common.ROOT, '.scratch', 'evidence-other-tree')
    os.makedirs(d, exist_ok=True)
    ev = dict(property_id=prop, tier=tier, seed=seed, level='proof', coverage=cov, assumptions=assumptions,
              wall_s=round(wall, 2), violations=violations)
    tmp = os.path.join(d, f'.{prop}.{os.getpid()}.tmp')
    with open(tmp, 'w') as fh:
        json.dump(ev, fh, indent=1, default=str)
    os.replace(tmp, os.path.join(d, f'{prop}.json'))


def _descendants(pid):
    kids = {}
    for d in os.listdir('/proc'):
        if d.isdigit():
            try:
                with open(f'/proc/{d}/stat') as fh:
                    rest = fh.read().rsplit(')', 1)[1].split()
                kids.setdefault(int(rest[1]), []).append(int(d))
            except (OSError, IndexError, ValueError):
                pass
    out, todo = [], [pid]
    while todo:
        for k in kids.get(todo.pop(), []):
            out.append(k)
            todo.append(k)
    return out


def _harden_pool_workers():
    """multiprocessing.Pool workers only catch `Exception`: a BaseException raised by the code under test (asyncio.CancelledError,
    SystemExit, GeneratorExit) would kill the worker and leave `pool.map` waiting for ever.  Turn it into an ordinary error."""
    import multiprocessing.pool as mpp
    if getattr(mpp, '_verif_hardened', False):
        return

    def wrap(orig):
        def safe(args):
            import pickle
            try:
                res = orig(args)
            except Exception as e:
                try:
                    pickle.loads(pickle.dumps(e))
                except Exception:  # noqa  (an exception of the code under test that cannot be rebuilt on the other side)
                    raise RuntimeError(f'a worker raised {type(e).__name__}: {e}') from None
                raise
            except BaseException as e:  # noqa
                raise RuntimeError(f'a worker raised {type(e).__name__}: {e}') from None
            try:
                # an object of the code under test inside a result that cannot be rebuilt by the parent would kill the pool's
                # result thread and leave `map` waiting for ever
                pickle.loads(pickle.dumps(res))
            except Exception as e:  # noqa
                raise RuntimeError(f'a worker result cannot cross the process boundary: {type(e).__name__}: {e}') from None
            return res
        safe.__name__ = orig.__name__
        safe.__qualname__ = orig.__qualname__
        safe.__module__ = orig.__module__        # pickled by reference: multiprocessing.pool.mapstar, which is this wrapper now
        return safe
    mpp.mapstar = wrap(mpp.mapstar)
    mpp.starmapstar = wrap(mpp.starmapstar)
    mpp._verif_hardened = True


def start_watchdog(prop, tier, seed, t0):
    """The exploration of a tier has a wall-clock budget far above what it needs on the unchanged tree (quick: seconds to a
    minute; budget 30 min.  thorough: up to an hour; budget 8 h).  A run that exceeds it is not 'slow': the code under test no
    longer lets the harness make progress (a wait that never ends, state accumulating across runs).  The property is then no
    longer shown to hold: reported as a violation without a failing input, naming the budget in the replay file."""
    import signal
    import threading
    budget = float(os.environ.get('VERIF_BUDGET_S', '1800' if tier == 'quick' else '28800'))

    def expired(reason=None):
        path = os.path.join(common.ROOT, 'replays', f'{prop}-{seed}-{int(time.time())}.json')
        os.makedirs(os.path.dirname(path), exist_ok=True)
        with open(path, 'w') as fh:
            json.dump(dict(property=prop, kind='budget-exceeded', tier=tier, seed=seed, budget_s=budget,
                           broken=[{'kind': 'correspondence', 'what': reason or (f'the correspondence / monitor run of tier {tier} did not complete '
                                    f'within {budget:.0f} s (it takes well under a tenth of that on the unchanged tree)') + ': the harness can no '
                                    'longer drive the code to completion'}]), fh, indent=1)
        rel = os.path.relpath(path, common.ROOT)
        sys.stdout.write(f'{prop} {tier}: ' + (reason or f'exploration did not complete within {budget:.0f} s') + '\n'
                         f'VIOLATION property={prop} replay={rel} no-failing-input-found\n')
        sys.stdout.flush()
        try:
            write_evidence(prop, tier, seed, dict(obligations=0, discharged=0, note='budget exceeded'), [], time.time() - t0, 1)
        except Exception:  # noqa
            pass
        for k in _descendants(os.getpid()):
            try:
                os.kill(k, signal.SIGKILL)
            except OSError:
                pass
        os._exit(1)
    t = threading.Timer(budget, expired)
    t.daemon = True
    t.start()
    t.fire = expired
    return t


def main(argv):
    if len(argv) >= 2 and argv[0] == '--replay':
        return replay(argv[1])
    if len(argv) < 1:
        print(__doc__)
        return 2
    prop = argv[0].upper()
    tier = argv[1] if len(argv) > 1 else os.environ.get('VERIF_TIER', 'quick')
    seed = int(os.environ.get('VERIF_SEED', '0') or 0)
    t0 = time.time()
    mod = load_prop(prop)
    props_module = mod.LEAN_PROPS
    findings = common.load_findings()

    # 1. regenerate tables from the source, 2. build (serialised across concurrent checks)
    with common.build_lock():
        try:
            tables, err = common.gen_tables()
        except subprocess.TimeoutExpired:
            tables, err = None, 'the table generator did not finish within 300 s'
        gen_err = None
        if tables is None:
            if not os.path.isdir(os.path.join(common.REPO, 'src', 'plumpy')):
                print(f'INFRA: no plumpy sources under {common.REPO}: {err}')
                return 2
            # the translator cannot read this tree: the generated tables are not re-derived, so nothing proved about them is
            # tied to it.  A broken obligation like any other: search the real code with the tables of the last good run.
            print(f'table generation failed:\n{err}')
            gen_err, tables = err, {'changed': ['<generation failed>']}
        model_ok, model_log = common.lake_build(['pmodel'])
        proof_ok, proof_log = common.lake_build([props_module])
    broken = []
    if gen_err is not None:
        broken.append({'kind': 'translator', 'what': 'harness/gen_tables.py failed on this tree', 'error': gen_err[-3000:]})
    if not proof_ok:
        errs = re.findall(r'error: ([^\n]*\n(?:[^\n]*\n){0,6})', proof_log)
        broken.append({'kind': 'proof-obligation', 'module': props_module, 'lean_errors': [e.strip() for e in errs[:5]]})
    # 3. audit
    aud = dict(ok=False, problems=['not run: build failed'], axioms={}, obligations=0, theorems=[], modules=[])
    if proof_ok:
        aud = common.audit(props_module)
        if not aud['ok']:
            broken.append({'kind': 'audit', 'problems': aud['problems']})
        if tier == 'thorough' and os.environ.get('VERIF_NO_LEANCHECKER') != '1':
            ok, log = common.leanchecker(props_module)
            if not ok:
                broken.append({'kind': 'leanchecker', 'log': log})

    # 4. corpus + correspondence + monitors
    ctx = Ctx(prop, tier, seed, common.Model(model_ok))
    watchdog = start_watchdog(prop, tier, seed, t0)
    ctx.give_up = watchdog.fire          # a harness that finds it cannot make progress reports so at once
    _harden_pool_workers()
    try:
        out = mod.run(ctx)
    except Exception:
        watchdog.cancel()
        # The harness could not drive this tree at all (on the unchanged tree it can: `vp check`).  The property is then not shown
        # to hold on it: reported like a broken correspondence, with the traceback as the replay, not as an infrastructure error.
        tb = traceback.format_exc()
        print('harness error while exploring\n' + tb)
        path = write_replay(prop, seed, dict(property=prop, kind='harness-error', tier=tier, seed=seed,
                                             broken=[{'kind': 'correspondence', 'what': 'the harness raised while driving the code',
                                                      'traceback': tb[-3000:]}]))
        print(f'VIOLATION property={prop} replay={path} no-failing-input-found')
        try:
            write_evidence(prop, tier, seed, dict(obligations=0, discharged=0, note='harness error'), [], time.time() - t0, 1)
        except Exception:  # noqa
            pass
        return 1

    watchdog.cancel()
    failures = out.get('failures', [])
    divergences = out.get('divergences', [])
    if not model_ok:
        errs = re.findall(r'error: ([^\n]*\n(?:[^\n]*\n){0,6})', model_log)
        broken.append({'kind': 'model-build', 'lean_errors': [e.strip() for e in errs[:5]]})

    unknown = [f for f in failures if not match_finding(findings, prop, f)]
    known = {}
    for f in failures:
        m = match_finding(findings, prop, f)
        if m:
            known.setdefault(m['id'], (m, 0))
            known[m['id']] = (m, known[m['id']][1] + 1)

    verdict, replay_path, tail = 0, None, ''
    searched = None
    if unknown:
        verdict = 1
        f0 = unknown[0]
        replay_path = write_replay(prop, seed, dict(property=prop, kind='failing-input', failure=f0, tier=tier, seed=seed,
                                                    n_failures=len(unknown), broken=broken))
    elif broken or divergences:
        # a broken obligation or correspondence is not by itself a violation: look for a failing input on the real code
        sctx = Ctx(prop, tier, seed, common.Model(model_ok), search=True)
        sctx.hints = divergences[:20]
        try:
            searched = mod.run(sctx)
        except Exception:
            # the search itself could not drive this tree: nothing found, and the obligation stays broken
            tb = traceback.format_exc()
            print('harness error during search\n' + tb)
            broken.append({'kind': 'correspondence', 'what': 'the harness raised while searching for a failing input',
                           'traceback': tb[-3000:]})
            searched = {'failures': [], 'evaluations': 0}
        sunknown = [f for f in searched.get('failures', []) if not match_finding(findings, prop, f)]
        verdict = 1
        if sunknown:
            replay_path = write_replay(prop, seed, dict(property=prop, kind='failing-input', failure=sunknown[0], tier=tier,
                                                        seed=seed, n_failures=len(sunknown), broken=broken,
                                                        divergences=divergences[:3]))
        else:
            tail = ' no-failing-input-found'
            replay_path = write_replay(prop, seed, dict(property=prop, kind='unproved', broken=broken,
                                                        divergences=divergences[:5], tier=tier, seed=seed,
                                                        search_evaluations=searched.get('evaluations', 0),
                                                        note='the theorem / correspondence named here no longer checks and no failing '
                                                             'input was found on the implementation'))

    # 5. evidence
    wall = time.time() - t0
    discharged = aud['obligations'] if (proof_ok and aud['ok']) else 0
    cov = dict(
        obligations=max(aud['obligations'], 1), discharged=discharged,
        checker_cmd=f'cd lean && lake build {props_module} && lake env lean <#print axioms of each property theorem>'
                    + (' && lake env leanchecker ' + props_module if tier == 'thorough' else ''),
        trusted_base=['Lean 4.33.0 kernel', 'axioms: ' + ', '.join(sorted({a for ax in aud['axioms'].values() for a in ax}) or ['none']),
                      'hand-written model tied to the code by generated tables (harness/gen_tables.py) and the differential '
                      'correspondence check (testing)'] + list(getattr(mod, 'TRUSTED', [])),
        property_theorems=aud['theorems'], axioms=aud['axioms'], lean_modules=aud['modules'],
        evaluations=out.get('evaluations', 0), distinct_nontrivial=out.get('distinct_nontrivial', 0),
        rule=out.get('rule', ''), samples=out.get('samples', [])[:5],
        traces_validated_against_impl=out.get('traces_validated', 0),
        divergences=len(divergences), monitor_failures=len(failures), known_findings={k: v[1] for k, v in known.items()},
        exhaustive=bool(out.get('exhaustive', False)), histograms=out.get('histograms', {}),
        tables_changed=tables.get('changed', []), broken=broken, notes=ctx.notes,
    )
    if searched is not None:
        cov['search_evaluations'] = searched.get('evaluations', 0)
    write_evidence(prop, tier, seed, cov, list(getattr(mod, 'ASSUMPTIONS', [])), wall, len(unknown))

    for fid, (m, n) in known.items():
        print(f"KNOWN-FINDING: property={prop} {m['what']} [{fid}, {n} case(s)]")
    print(f"{prop} {tier}: theorems={len(aud['theorems'])} obligations={aud['obligations']} proof_ok={proof_ok and aud['ok']} "
          f"evaluations={out.get('evaluations', 0)} distinct={out.get('distinct_nontrivial', 0)} divergences={len(divergences)} "
          f"failures={len(failures)} wall={wall:.1f}s")
    if verdict:
        print(f'VIOLATION property={prop} replay={replay_path}{tail}')
    return verdict


def replay(path):
    payload = json.load(open(path if os.path.isabs(path) or os.path.exists(path) else os.path.join(common.ROOT, path)))
    prop = payload['property']
    mod = load_prop(prop)
    if payload.get('kind') != 'failing-input':
        print(json.dumps(payload, indent=1))
        return 1
    ctx = Ctx(prop, 'quick', payload.get('seed', 0), common.Model(os.path.exists(common.PMODEL)))
    res = mod.replay(ctx, payload['failure'])
    print(json.dumps(res, indent=1, default=str))
    return 1 if res.get('failures') else 0


if __name__ == '__main__':
    rc = main(sys.argv[1:])
    sys.stdout.flush()
    # objects of abandoned runs (coroutines that were never resumed, closed loops) are finalised at interpreter shutdown, when
    # the builtins are already gone; what they print then says nothing about the run
    sys.unraisablehook = lambda *a, **k: None
    sys.exit(rc)
