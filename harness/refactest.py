"""False-alarm test: run every quick check against behaviour-preserving refactorings of plumpy.
python3 harness/refactest.py <dir with v*/patch.diff> [Cxx ...]   (uses a scratch worktree of /repo through PLUMPY_REPO)"""
import glob
import json
import os
import subprocess
import sys

ROOT = os.path.dirname(os.path.dirname(os.path.abspath(__file__)))
WT = os.environ.get('REFREPO', '/root/work/refrepo')


def sh(cmd, **kw):
    return subprocess.run(cmd, shell=True, capture_output=True, text=True, **kw)


def main():
    vdir = sys.argv[1]
    props = sys.argv[2:] or [json.loads(l)['id'] for l in open(os.path.join(ROOT, 'properties.jsonl'))]
    if not os.path.exists(WT):
        assert sh(f'git -C /repo worktree add --detach {WT} HEAD').returncode == 0
    for v in sorted(glob.glob(os.path.join(vdir, 'v*'))):
        sh(f'git -C {WT} reset --hard -q && git -C {WT} checkout -q --detach $(git -C /repo rev-parse HEAD) && git -C {WT} clean -fdq')
        r = sh(f'git -C {WT} apply {v}/patch.diff')
        if r.returncode != 0:
            print(os.path.basename(v), 'DOES NOT APPLY', r.stderr[-200:], flush=True)
            continue
        row = {}
        for p in props:
            r = sh(f'cd {ROOT} && PLUMPY_REPO={WT} ./check {p} quick', timeout=7200)
            row[p] = 'ok' if r.returncode == 0 else ('ALARM ' + ' '.join(l for l in r.stdout.split('\n') if l.startswith('VIOLATION'))[-120:]
                                                      if r.returncode == 1 else f'exit{r.returncode} ' + r.stdout[-200:])
        print(os.path.basename(v), json.dumps(row), flush=True)
    sh(f'git -C {WT} reset --hard -q')
    sh(f'/venv/bin/python {ROOT}/harness/gen_tables.py /repo {ROOT}/lean/PlumpyModel/Gen')


if __name__ == '__main__':
    main()
