"""Python monitors of the process-control properties, evaluated on a finished `pm.Run` (real plumpy, public API only).
They do not use the Lean model.  Each returns a list of failures {signature, clause, detail}.  The documented lifecycle
graph below is typed from the text of property C01, not read from the code."""
import asyncio

import plumpy
from harness import pm
from harness.pm import monitor, UserExc, excname

DOC_GRAPH = {
    'created': {'running', 'killed', 'excepted'},
    'running': {'running', 'waiting', 'finished', 'killed', 'excepted'},
    'waiting': {'running', 'waiting', 'finished', 'killed', 'excepted'},
    'finished': set(), 'excepted': set(), 'killed': set(),
}
TERMINAL = ('finished', 'excepted', 'killed')
CANCEL_TEXT = 'Killed by future being cancelled'


def F(sig, clause, detail=None):
    return dict(signature=sig, clause=clause, detail=detail)


def _user_exception_possible(r):
    """the run contains a legitimate source of a user exception (failing step, fail(), failing awaitable)"""
    if any(c['op'] == 'fail' and c['live'] for c in r.calls) or any(c['op'] == 'callsoon' and c['arg'] == ['raise'] for c in r.calls):
        return True
    if any(c['op'] == 'complete' and c['arg'][1:2] in (['exc'], ['killed'], ['cancelled']) for c in r.calls):
        return True
    return any(oc[0] == 'raise' for _, oc in r.prog['fns'].values())


@monitor('c01')
def c01(r):
    out = []
    e = r.entered
    if e[0] != 'created':
        out.append(F('c01-start', 'a process starts in CREATED', e[:2]))
    for a, b in zip(e, e[1:]):
        if b not in DOC_GRAPH.get(a, set()):
            out.append(F(f'c01-edge:{a}->{b}', 'state changes follow the documented lifecycle graph', e))
            break
    # a terminal state that was ENTERED (state event, i.e. also in the middle of a callback) is the last one entered and is the
    # state the process reports at the end (the event callbacks are cleared at close: the final label is read from the process)
    for idx, lab in enumerate(e):
        if lab in TERMINAL and (idx != len(e) - 1 or r.p.state.value != lab):
            out.append(F('c01-terminal-changed', 'terminal states are final',
                         dict(entered=e, final=r.p.state.value, ops=r.ops)))
            return out
    if getattr(r, 'left_terminal', None):
        out.append(F('c01-terminal-left', 'terminal states are final', dict(transitions_started_from_a_terminal_state=r.left_terminal,
                                                                              final=r.p.state.value, ops=r.ops)))
        return out
    first = None
    for i, s in enumerate(r.snapshots):
        if s is None:
            if first is not None:
                out.append(F('c01-terminal-left', 'terminal states are final', dict(op=r.ops[i], before=first, after='live')))
                break
            continue
        if first is None:
            first = s
        elif s[:2] != first[:2]:
            out.append(F('c01-terminal-changed', 'terminal states are final',
                         dict(op=r.ops[i], before=first, after=s, ops=r.ops[:i + 1])))
            break
    return out


@monitor('c02')
def c02(r):
    out = []
    p = r.p
    label = p.state.value
    cancelled_by_env = any(c['op'] == 'cancelfut' for c in r.calls)
    # the future is never resolved while the process is live (an external cancel() is the environment's act)
    for i, line in enumerate(r.obs):
        if r.snapshots[i] is None:
            fs = line.split(' fut=')[1].split(' ')[0]
            if fs != 'pending' and not (fs == 'cancelled' and cancelled_by_env):
                out.append(F('c02-future-resolved-while-live', 'the future is never resolved while the process is live',
                             dict(op=r.ops[i], fut=fs, ops=r.ops[:i + 1])))
                break
    if label in TERMINAL and not cancelled_by_env and hasattr(r, 'fut_done') and not r.fut_done:
        out.append(F('c02-future-waiter-not-told', 'the future resolves to the outcome and whoever waits on it is released (a done-callback '
                     'registered on the process future runs, on the loop of the process, once the process has terminated)',
                     dict(final=label, ops=r.ops)))
    if label not in TERMINAL:
        return out
    f = p.future()
    ok_done = f.done() and not f.cancelled()
    if label == 'finished':
        # the very mapping the accessor gives (a class that derives its `outputs` builds a new, equal one on every access)
        same = f.result() is p.outputs or (p.__dict__.get('_verif_derived') and f.result() == p.outputs) if ok_done and f.exception() is None else False
        if not same:
            out.append(F('c02-future-finished', 'FINISHED: the future resolves to the outputs', repr(f)))
        last = p._trace[-1][0] if p._trace else None
        oc = r.prog['fns'].get(last, (0, None))[1] if last is not None else None
        if r.prog['kind'] == 'proc' and oc is not None and oc[0] == 'stop' and oc[1] != 'AW':
            if p.result() != oc[1] or p.successful() != bool(oc[2]):
                out.append(F('c02-result', 'result()/successful() give the last step\'s result',
                             dict(result=p.result(), successful=p.successful(), expected=oc)))
        if r.lis.outputs is not None and r.lis.outputs is not p.outputs and r.lis.outputs != p.outputs:
            out.append(F('c02-listener-outputs', 'listeners are told the outputs', None))
    elif label == 'excepted':
        exc = p.exception()
        if not (ok_done and f.exception() is exc):
            out.append(F('c02-future-excepted', 'EXCEPTED: the future raises the original exception',
                         dict(future=repr(f), exception=repr(exc))))
        try:
            p.result()
            out.append(F('c02-result-excepted', 'EXCEPTED: result() raises the original exception', 'returned'))
        except BaseException as e:  # noqa
            if e is not exc:
                out.append(F('c02-result-excepted', 'EXCEPTED: result() raises the original exception', repr(e)))
    elif label == 'killed':
        if not (ok_done and isinstance(f.exception(), plumpy.KilledError)):
            out.append(F('c02-future-killed', 'KILLED: the future raises KilledError', repr(f)))
        try:
            p.killed_msg()
        except Exception as e:  # noqa
            out.append(F('c02-killed-msg', 'KILLED: killed_msg() carries the kill text', repr(e)))
    terms = [x for x in r.lis.ev if x in ('fin', 'exc', 'kil')]
    want = {'finished': 'fin', 'excepted': 'exc', 'killed': 'kil'}[label]
    if terms != [want]:
        out.append(F('c02-terminal-notification', 'listeners receive exactly one terminal notification',
                     dict(got=terms, state=label)))
    if len(r.cleanups) != 1 or r.cleanups_other != {'raising': 1, 'last': 1, 'late': 1}:
        out.append(F('c02-cleanups', 'registered cleanups run exactly once',
                     dict(first=len(r.cleanups), **r.cleanups_other)))
    try:
        p.add_cleanup(lambda: None)
        out.append(F('c02-not-closed', 'a terminated process is closed', None))
    except plumpy.ClosedError:
        pass
    except Exception as e:  # noqa
        out.append(F('c02-not-closed', 'a terminated process is closed', repr(e)))
    if not r.task.done():
        out.append(F('c02-stepper-blocked', 'step_until_terminated() returns', 'task pending'))
    elif r.task.cancelled() or r.task.exception() is not None:
        out.append(F('c02-stepper-crashed', 'step_until_terminated() returns',
                     'cancelled' if r.task.cancelled() else repr(r.task.exception())))
    return out


@monitor('looperr')
def looperr(r):
    if r.loop_errs:
        return [F('loop-error:' + str(sorted(set(r.loop_errs))[0]), 'no exception escapes into the event loop', r.loop_errs)]
    return []


@monitor('c04')
def c04(r):
    out = []
    p = r.p
    label = p.state.value
    for c in r.calls:
        if c['op'] == 'kill' and c['live'] and c['raised']:
            out.append(F('c04-kill-raised:' + c['raised'], 'kill() on a live process never raises', dict(phase=c['phase'], ops=r.ops[:c['idx'] + 1])))
    live_kills = [k for k in r.kill_results]
    live_cancels = [c for c in r.calls if c['op'] == 'cancelfut' and c['live'] and c['ret'] == 'T']
    pf = getattr(r, 'pre_final', None)
    if pf is not None and pf['state'] not in TERMINAL:
        # quiescent (no callback ready) BEFORE the harness' completing play / resume: every step has yielded, so a kill requested
        # on the live process earlier must have taken effect by now - it does not wait for somebody to wake the process
        n_calls = pf['n_calls']
        before = [c for c in r.calls[:n_calls] if c['op'] == 'kill' and c['live'] and not c.get('term_trans') and not c['raised']]
        if before:
            out.append(F('c04-kill-not-effective', 'the process ends KILLED as soon as the current step yields (here: nothing is '
                         'ready any more and the process is still ' + pf['state'] + ')', dict(ops=r.ops, state=pf['state'], paused=pf['paused'])))
            return out
    if live_kills:
        first = live_kills[0][2]
        if label not in ('killed', 'excepted'):
            out.append(F('c04-kill-lost', 'a kill request is never lost', dict(final=label, ops=r.ops)))
        elif label == 'excepted':
            exc = p.exception()
            if not (isinstance(exc, UserExc) and _user_exception_possible(r)):
                out.append(F('c04-kill-excepted:' + excname(exc), 'ends KILLED, or EXCEPTED only if the step fails',
                             dict(exception=repr(exc), ops=r.ops)))
        # takes effect as soon as the current step yields: no step function is started after the request
        started_after = [i for i, op in enumerate(r.ops) if i > first and _trace_len(r.obs[i]) > _trace_len(r.obs[first])]
        if started_after:
            out.append(F('c04-step-after-kill', 'the process ends KILLED as soon as the current step yields',
                         dict(kill_at=first, activation_at=started_after[0], ops=r.ops[:started_after[0] + 1])))
        for res, msg, idx in live_kills:
            if res == 'raised':
                continue
            true_now = (res is True) or (asyncio.isfuture(res) and res.done() and not res.cancelled()
                                         and res.exception() is None and res.result() is True)
            if label == 'killed' and not true_now:
                st = 'cancelled' if asyncio.isfuture(res) and res.cancelled() else repr(res)[:60]
                out.append(F('c04-kill-result', 'kill() resolves to True exactly when the process ended KILLED',
                             dict(final=label, result=st, ops=r.ops)))
            if label != 'killed' and true_now:
                out.append(F('c04-kill-result', 'kill() resolves to True exactly when the process ended KILLED',
                             dict(final=label, result=True, ops=r.ops)))
    for res, _msg, _idx in getattr(r, 'term_kills', []):
        true_now = (res is True) or (asyncio.isfuture(res) and res.done() and not res.cancelled()
                                     and res.exception() is None and res.result() is True)
        if true_now and label != 'killed':
            out.append(F('c04-kill-result', 'kill() resolves to True exactly when the process ended KILLED',
                         dict(final=label, result=True, issued='inside the transition into a terminal state', ops=r.ops)))
    if label == 'killed':
        texts = {k[1] for k in live_kills} | {k[1] for k in getattr(r, 'term_kills', [])}
        if live_cancels:
            texts.add(CANCEL_TEXT)
        for fid, (_aw, oc) in r.prog['fns'].items():
            if oc[0] == 'kill':
                texts.add(pm.KILL_CMD_MSG if int(fid) % 2 else None)      # even function ids return Kill() without a message
        try:
            msg = p.killed_msg()
            txt = msg.get(plumpy.process_comms.MESSAGE_TEXT_KEY) if isinstance(msg, dict) else msg
        except Exception as e:  # noqa
            txt = repr(e)
        if txt not in texts:
            out.append(F('c04-kill-text', 'the kill text is recorded', dict(text=txt, requested=sorted(map(str, texts)))))
    # "... or EXCEPTED if that step fails": a step function that raised while the process was live excepts the process
    for n, was_terminated in p._raised:
        if not was_terminated and not (label == 'excepted' and isinstance(p.exception(), UserExc)):
            out.append(F('c04-failed-step-not-excepted', 'the process ends EXCEPTED if the step fails, whatever was requested',
                         dict(final=r.outcome(), raised=f'user{n}', ops=r.ops)))
            break
    if live_cancels and not any(op == 'tick trykill' for op in r.ops):
        out.append(F('c04-cancel-hook-never-ran', "cancelling the process's future has the same effect as kill(): the cancellation is "
                     'noticed (the done-callback of the future runs on the loop of the process)', dict(ops=r.ops, final=label)))
    if live_cancels and not live_kills:
        if label == 'excepted' and not (isinstance(p.exception(), UserExc) and _user_exception_possible(r)):
            out.append(F('c04-cancel-excepted:' + excname(p.exception()),
                         'cancelling the process future has the same effect as kill()', dict(ops=r.ops)))
        if label not in TERMINAL:
            out.append(F('c04-cancel-lost', 'cancelling the process future has the same effect as kill()', dict(ops=r.ops)))
    return out


def _trace_len(line):
    tr = line.split(' trace=')[1].split(' notif=')[0]
    return len(tr.split()) if tr.strip() else 0


@monitor('c05')
def c05(r):
    out = []
    p = r.p
    for c in r.calls:
        if c['op'] in ('pause', 'play') and c['raised']:
            out.append(F(f"c05-{c['op']}-raised:{c['raised']}", 'pause()/play() never raise', dict(phase=c['phase'], ops=r.ops[:c['idx'] + 1])))
    for t in p._trace:
        if t[3]:
            out.append(F('c05-step-while-paused', 'no step function runs while the process reports paused', dict(step=t[0], ops=r.ops)))
            break
    # play() leaves the process un-paused and cancels a pause that has not yet taken effect
    unpaused_since = None
    listener_pause_at = {c['idx'] for c in r.calls if c.get('from_listener') and c['op'] == 'pause'}
    listener_play_at = {c['idx'] for c in r.calls if c.get('from_listener') and c['op'] == 'play'}
    for i, op in enumerate(r.ops):
        if op == 'play':
            unpaused_since = i
        elif op == 'pause':
            unpaused_since = None
        if i in listener_pause_at:          # a listener requested a pause during this op
            unpaused_since = None
        elif i in listener_play_at and unpaused_since is None:
            unpaused_since = i + 1 if i + 1 < len(r.ops) else None
        if unpaused_since is not None and r.paused_at[i]:      # (live or terminated: play() ALWAYS leaves the process un-paused)
            out.append(F('c05-paused-after-play', 'play() leaves the process un-paused', dict(play_at=unpaused_since, at=i, ops=r.ops[:i + 1])))
            break
    return out


def only_transparent_ops(r):
    return all(c['op'] in ('pause', 'play', 'resume', 'complete') and not (c['op'] == 'complete' and c['arg'][1] in ('exc', 'killed', 'cancelled')) for c in r.calls)


_REF = {}


def reference(prog):
    key = repr(sorted(prog['fns'].items())) + prog['kind']
    if key not in _REF:
        _REF[key] = pm.reference_trace(prog)
    return _REF[key]


@monitor('c05-transparent')
def c05_transparent(r):
    """for schedules made of pause/play/resume(5)/complete-ok only: same steps, same result as the uninterrupted run"""
    if not only_transparent_ops(r):
        return []
    if any(c['op'] == 'resume' and c['arg'] != ['5'] for c in r.calls):
        return []
    ref = reference(r.prog)
    got = [(x[0], x[1], x[2]) for x in r.p._trace]
    out = []
    if got != ref['trace']:
        out.append(F('c05-trace-differs', 'the executed steps are those of the uninterrupted run', dict(got=got, reference=ref['trace'], ops=r.ops)))
    elif r.outcome() != ref['outcome']:
        out.append(F('c05-outcome-differs', 'the final result is that of the uninterrupted run', dict(got=r.outcome(), reference=ref['outcome'], ops=r.ops)))
    return out


@monitor('c05-status')
def c05_status(r):
    """the status message present before the pause is restored by play"""
    out = []
    before = None
    for i, op in enumerate(r.ops):
        prev_paused = r.paused_at[i - 1] if i else False
        if r.paused_at[i] and not prev_paused:
            before = r.status_at[i - 1] if i else r.status0
        if op == 'play' and prev_paused and not r.paused_at[i] and r.snapshots[i] is None:
            if r.status_at[i] != before:
                out.append(F('c05-status-not-restored', 'the status message present before the pause is restored by play',
                             dict(before=before, after=r.status_at[i], ops=r.ops[:i + 1])))
                break
    return out


@monitor('c06')
def c06(r):
    out = []
    p = r.p
    label = p.state.value
    if label not in TERMINAL:
        out.append(F('c06-stuck:' + r.phase(), 'a woken process never stays WAITING forever', dict(ops=r.ops)))
        return out
    pf = getattr(r, 'pre_final', None)
    if pf is not None and pf['state'] == 'waiting':
        # quiescent and still WAITING before the harness' completing play/resume: legitimate only if the process was not woken
        # or is not playing.  "Playing" is decided by the REQUESTS (the last of pause/play is a play that returned True, or
        # there was no pause at all), not by what the process reports.
        calls = r.calls[:pf['n_calls']]
        pp = [c for c in calls if c['op'] in ('pause', 'play') and not c['raised']]
        playing = not pp or (pp[-1]['op'] == 'play' and pp[-1]['ret'] == 'T')
        if r.prog['kind'] == 'proc':
            woken = any(c['op'] == 'resume' and not c['raised'] and c['phase'].startswith('waiting') for c in calls) and \
                sum(1 for e in r.entered if e == 'waiting') == 1
        else:
            woken = bool(pf['futs_done']) and all(pf['futs_done'])
        if woken and playing and not any(c['op'] in ('kill', 'fail', 'cancelfut') for c in calls):
            out.append(F('c06-stuck-while-playing', 'a resumed process continues once it is playing (the last request was play(), '
                         'or it was never paused), however the wake-up was interleaved', dict(ops=r.ops, paused_reported=pf['paused'])))
            return out
    for c in r.calls:
        if c['op'] == 'resume' and c['raised'] and c['phase'].startswith('waiting'):
            out.append(F('c06-resume-raised:' + c['raised'], 'resume() on a waiting process is accepted', dict(ops=r.ops[:c['idx'] + 1])))
    if r.prog['kind'] == 'proc' and label == 'finished' and all(c['op'] in ('pause', 'play', 'resume') for c in r.calls):
        # k-th wait epoch: the first resume accepted while WAITING in that epoch is what the k-th continuation receives
        conts = {oc[1] for _, oc in r.prog['fns'].values() if oc[0] == 'wait'}
        act_idx = []      # op index at which each continuation activation appeared
        seen = 0
        for i, line in enumerate(r.obs):
            n = _trace_len(line)
            while seen < n:
                if p._trace[seen][0] in conts:
                    act_idx.append((i, p._trace[seen]))
                seen += 1
        epoch_first = {}
        for val, phase, idx in r.resumes:
            if not phase.startswith('waiting'):
                continue
            ep = sum(1 for (i, _t) in act_idx if i < idx)
            epoch_first.setdefault(ep, val)
        for ep, (i, t) in enumerate(act_idx):
            if ep in epoch_first:
                want = () if epoch_first[ep] is None else (None,) if epoch_first[ep] == 'N' else (epoch_first[ep],)
                if tuple(t[1]) != want:
                    out.append(F('c06-resume-value', 'the value of the first resume() is delivered exactly once to the continuation',
                                 dict(epoch=ep, got=t[1], want=want, ops=r.ops)))
                    break
    return out


@monitor('c10')
def c10(r):
    """barrier: a step after a step with awaitables starts only when all are done, with each result in the context"""
    out = []
    if r.prog['kind'] != 'chain':
        return out
    p = r.p
    completed = {}
    for c in r.calls:
        if c['op'] == 'complete':
            f = int(c['arg'][0])
            completed.setdefault(f, (c['arg'][1], {'E': pm.EXC_VALUE_CODE, 'U': pm.UNCOPYABLE_CODE}.get(c['arg'][2]) or int(c['arg'][2])) if c['arg'][1] not in ('killed', 'cancelled') else ('exc', 'KilledError'))
    fns = r.prog['fns']
    expect_ctx = {}
    for t in p._trace:
        i = t[0]
        if i > 0:
            prev = fns[i - 1][1]
            if prev[0] == 'waiton':
                for f, key in prev[2]:
                    if not t[6][f]:
                        out.append(F('c10-barrier-not-done', 'the next step starts only after every awaited item completed',
                                     dict(step=i, future=f, ops=r.ops)))
                        return out
                    if completed.get(f, ('ok',))[0] == 'exc':
                        out.append(F('c10-step-after-failure', 'if an awaited item fails the following step never runs',
                                     dict(step=i, future=f, ops=r.ops)))
                        return out
                # several items may share a key: the value found is that of one of them (the one whose done-callback ran last;
                # which one that is, is decided by the model correspondence, the monitor accepts any of the candidates)
                fresh = {}
                for f, key in prev[2]:
                    fresh.setdefault(key, set()).add(completed[f][1] if f in completed else None)
                expect_ctx.update(fresh)
            for key, val in expect_ctx.items():
                if t[5].get(key) not in val:
                    out.append(F('c10-context', 'the next step finds each result under its key (later assignment wins)',
                                 dict(step=i, key=key, got=t[5].get(key), want=sorted(map(str, val)), ops=r.ops)))
                    return out
    # failure: an awaited item of the step being waited on failed => EXCEPTED with that error
    if all(c['op'] in ('pause', 'play', 'complete') for c in r.calls):
        last = p._trace[-1][0] if p._trace else None
        if last is not None and fns[last][1][0] == 'waiton':
            failed = [completed[f][1] for f, _k in fns[last][1][2] if f in completed and completed[f][0] == 'exc']
            if failed:
                exc = p.exception()
                names = {f'user{x}' if isinstance(x, int) else x for x in failed}
                if not (p.state.value == 'excepted' and excname(exc) in names):
                    out.append(F('c10-failure-not-excepted', 'if an awaited item fails the workchain ends EXCEPTED with that error',
                                 dict(final=r.outcome(), failed=failed, ops=r.ops)))
    return out


@monitor('c13')
def c13(r):
    """the previous step's return value alone decides the next activation, with exact arguments"""
    out = []
    p = r.p
    if r.prog['kind'] != 'proc':
        return out
    fns = r.prog['fns']
    tr = p._trace
    if tr and (tr[0][0], tuple(tr[0][1]), tuple(tr[0][2])) != (0, (), ()):
        out.append(F('c13-first-step', 'run() is the first step, without arguments', tr[0][:3]))
    accepted = [(v, ph, idx) for v, ph, idx in r.resumes if ph.startswith('waiting')]
    for a, b in zip(tr, tr[1:]):
        oc = fns[a[0]][1]
        if oc[0] == 'cont':
            want = (oc[1], tuple(oc[2]), tuple(sorted(oc[3].items())))
            if (b[0], tuple(b[1]), tuple(b[2])) != want:
                out.append(F('c13-continue-args', 'Continue(f, *a, **k) makes f(*a, **k) the next step', dict(got=b[:3], want=want, ops=r.ops)))
                break
        elif oc[0] == 'wait':
            if b[0] != oc[1] or tuple(b[2]) != () or len(b[1]) > 1:
                out.append(F('c13-wait-continuation', 'after Wait(f) and resume(v), f(v) runs', dict(got=b[:3], want_fn=oc[1], ops=r.ops)))
                break
            vals = {(() if v is None else (None,) if v == 'N' else (v,)) for v, _ph, _i in accepted} | {(5,)}
            if tuple(b[1]) not in vals:
                out.append(F('c13-wait-value', 'after Wait(f) and resume(v), f(v) runs (f() if resumed without a value)',
                             dict(got=b[:3], resumed_with=sorted(map(str, vals)), ops=r.ops))
                           )
                break
        else:
            out.append(F('c13-step-after-stop', 'a plain value, Stop, UnsuccessfulResult or Kill ends the process', dict(after=a[:3], next=b[:3], ops=r.ops)))
            break
    if p.state.value == 'excepted' and isinstance(p.exception(), UserExc) and p.exception().n == pm.EXC_VALUE_CODE:
        out.append(F('c13-resume-value-raised', 'after Wait(f) and resume(v), f(v) runs - whatever v is (here: an exception INSTANCE '
                     'passed as a plain value was raised instead of delivered)', dict(ops=r.ops)))
    if p.state.value == 'excepted' and not isinstance(p.exception(), UserExc) and r.prog['kind'] == 'proc' \
            and all(c['op'] in ('pause', 'play', 'resume', 'kill') for c in r.calls):
        out.append(F('c13-library-exception:' + excname(p.exception()), 'a returned command / value decides what happens next (the process '
                     'excepted with an exception that no step raised and no request caused)', dict(exception=repr(p.exception())[:200], ops=r.ops)))
    undisturbed = all(c['op'] in ('pause', 'play', 'resume') for c in r.calls)
    if tr and undisturbed:
        oc = fns[tr[-1][0]][1]
        lab = p.state.value
        if oc[0] == 'stop':
            want = f"finished:{'-' if oc[1] is None else 99 if oc[1] == 'AW' else oc[1]}:{1 if oc[2] else 0}"
            if r.outcome() != want:
                out.append(F('c13-stop-result', 'a plain value / Stop / UnsuccessfulResult finishes with that result', dict(got=r.outcome(), want=want, ops=r.ops)))
        elif oc[0] == 'kill':
            txt = None
            if lab == 'killed':
                m = p.killed_msg()
                txt = m.get(plumpy.process_comms.MESSAGE_TEXT_KEY) if isinstance(m, dict) else m
            if lab != 'killed' or txt != (pm.KILL_CMD_MSG if int(tr[-1][0]) % 2 else None):
                out.append(F('c13-kill-command', 'Kill(msg) ends KILLED with msg', dict(got=r.outcome(), text=txt, ops=r.ops)))
        elif oc[0] == 'raise':
            if not (lab == 'excepted' and isinstance(p.exception(), UserExc) and p.exception().n == oc[1]):
                out.append(F('c13-raise', 'a failing step ends EXCEPTED with its exception', dict(got=r.outcome(), ops=r.ops)))
    return out


@monitor('c12pm')
def c12pm(r):
    """C12 on the process-control harness: a normal return with a missing required output still ends FINISHED with the result
    preserved, but unsuccessful — whatever pause / play / future-cancellation requests are interleaved (a kill may win)."""
    if not r.prog.get('missing_output'):
        return []
    p = r.p
    lab = p.state.value
    out = []
    if lab == 'finished':
        last = p._trace[-1][0] if p._trace else None
        oc = r.prog['fns'].get(last, (0, None))[1]
        if oc and oc[0] == 'stop' and (p.result() != oc[1] or p.successful()):
            out.append(F('c12-unsuccessful-finish', 'missing outputs: FINISHED with the result preserved, but unsuccessful',
                         dict(result=p.result(), successful=p.successful(), ops=r.ops)))
    elif lab == 'excepted' and not isinstance(p.exception(), UserExc):
        out.append(F('c12-finish-excepted:' + excname(p.exception()), 'missing outputs: still ends FINISHED (unsuccessful), not EXCEPTED',
                     dict(exception=repr(p.exception()), ops=r.ops)))
    elif lab not in ('killed', 'excepted'):
        out.append(F('c12-not-finished', 'missing outputs: still ends FINISHED', dict(state=lab, ops=r.ops)))
    return out
