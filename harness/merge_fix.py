"""Resolve the expected conflicts when merging a component branch: Main.lean (regenerated from the drivers present),
known_findings.json (union by id), MANIFEST.json (regenerated). Usage: python3 harness/merge_fix.py <branch>"""
import json
import os
import re
import subprocess
import sys

ROOT = os.path.dirname(os.path.dirname(os.path.abspath(__file__)))
branch = sys.argv[1]


def show(ref, path):
    r = subprocess.run(['git', '-C', ROOT, 'show', f'{ref}:{path}'], capture_output=True, text=True)
    return r.stdout if r.returncode == 0 else None


# known findings: union by id
ours = json.loads(show('HEAD', 'known_findings.json'))
theirs = json.loads(show(branch, 'known_findings.json') or '{"findings": []}')
ids = {f['id'] for f in ours['findings']}
for f in theirs['findings']:
    if f['id'] not in ids:
        ours['findings'].append(f)
json.dump(ours, open(os.path.join(ROOT, 'known_findings.json'), 'w'), indent=1)

# Main.lean: union of imports and match arms of both sides
def parts(src):
    imps = re.findall(r'^import (\S+)$', src, re.M)
    arms = re.findall(r'^  \| (\[[^\]]*\][^\n]*=> [^\n]*)$', src, re.M)
    return imps, arms
oi, oa = parts(show('HEAD', 'lean/Main.lean'))
ti, ta = parts(show(branch, 'lean/Main.lean'))
imps = oi + [i for i in ti if i not in oi]
arms = oa + [a for a in ta if a not in oa]
cmds = sorted({re.match(r'\["([a-z]+)"', a).group(1) for a in arms})
main = '\n'.join(f'import {i}' for i in imps) + '''

/-- `pmodel <component>`: line-protocol driver over the executable model definitions. -/
def main (args : List String) : IO UInt32 := do
  match args with
''' + '\n'.join(f'  | {a}' for a in arms) + f'''
  | _ => IO.eprintln "usage: pmodel <{'|'.join(cmds)}>"; return 2
'''
open(os.path.join(ROOT, 'lean', 'Main.lean'), 'w').write(main)
print('Main.lean commands:', cmds)

# files where both sides only ADD entries: keep both (drop the conflict markers)
for rel in ('harness/manifest.py', 'lean/PlumpyModel.lean', 'harness/gen_tables.py'):
    p = os.path.join(ROOT, rel)
    s = open(p).read()
    if '<<<<<<< ' in s:
        s = re.sub(r'^<<<<<<< [^\n]*\n', '', s, flags=re.M)
        s = re.sub(r'^=======\n', '', s, flags=re.M)
        s = re.sub(r'^>>>>>>> [^\n]*\n', '', s, flags=re.M)
        open(p, 'w').write(s)
        print('union-resolved', rel)
p = os.path.join(ROOT, 'lean', 'PlumpyModel.lean')
lines = []
for l in open(p).read().split('\n'):
    if l and l not in lines:
        lines.append(l)
open(p, 'w').write('\n'.join(lines) + '\n')
