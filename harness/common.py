"""Shared plumbing of the checks: paths, table regeneration, Lean build + audit, model driver, evidence, verdicts."""
import fcntl
import faulthandler
import hashlib
import json
import os
import re
import shutil
import subprocess
import sys
import time

ROOT = os.path.dirname(os.path.dirname(os.path.abspath(__file__)))
REPO = os.environ.get('PLUMPY_REPO', '/repo')
LEAN = os.path.join(ROOT, 'lean')
PMODEL = os.path.join(LEAN, '.lake', 'build', 'bin', 'pmodel')
PY = sys.executable
ALLOWED_AXIOMS = {'propext', 'Classical.choice', 'Quot.sound'}
FORBIDDEN = re.compile(r'\b(sorry|admit|native_decide|bv_decide|implemented_by)\b|^\s*axiom\s|\bunsafe\s|maxHeartbeats\s+0\b', re.M)
try:      # `kill -USR1 <pid>` prints the Python stack of a check (or one of its workers) to stderr
    import signal as _signal
    faulthandler.register(_signal.SIGUSR1, all_threads=True)
except Exception:  # noqa
    pass
WORKERS = int(os.environ.get('VERIF_WORKERS', str(min(16, os.cpu_count() or 4))))


def ensure_repo_on_path():
    src = os.path.join(REPO, 'src')
    if src not in sys.path:
        sys.path.insert(0, src)


class Lock:
    def __init__(self, path):
        self.path = path

    def __enter__(self):
        os.makedirs(os.path.dirname(self.path), exist_ok=True)
        self.fh = open(self.path, 'w')
        fcntl.flock(self.fh, fcntl.LOCK_EX)
        return self

    def __exit__(self, *a):
        fcntl.flock(self.fh, fcntl.LOCK_UN)
        self.fh.close()


def build_lock():
    return Lock(os.path.join(LEAN, '.lake', 'verif-build.lock'))


def gen_tables():
    """Regenerate lean/PlumpyModel/Gen/*.lean from the repository (fresh interpreter)."""
    r = subprocess.run([PY, os.path.join(ROOT, 'harness', 'gen_tables.py'), REPO, os.path.join(LEAN, 'PlumpyModel', 'Gen')],
                       capture_output=True, text=True, timeout=300)
    if r.returncode != 0:
        return None, r.stderr[-3000:]
    try:
        return json.loads(r.stdout), ''
    except ValueError:
        return None, r.stdout[-2000:] + r.stderr[-2000:]


def lake_build(targets, timeout=1800):
    r = subprocess.run(['lake', 'build'] + list(targets), cwd=LEAN, capture_output=True, text=True, timeout=timeout)
    return r.returncode == 0, (r.stdout + r.stderr)


def strip_comments(src):
    # remove nested block comments and line comments
    out = []
    i, depth, n = 0, 0, len(src)
    while i < n:
        if src.startswith('/-', i):
            depth += 1
            i += 2
        elif depth and src.startswith('-/', i):
            depth -= 1
            i += 2
        elif depth:
            i += 1
        elif src.startswith('--', i):
            j = src.find('\n', i)
            i = n if j < 0 else j
        else:
            out.append(src[i])
            i += 1
    return ''.join(out)


def module_path(mod):
    return os.path.join(LEAN, *mod.split('.')) + '.lean'


def import_closure(mod):
    """project-local modules transitively imported by `mod` (including itself)"""
    seen, todo = [], [mod]
    while todo:
        m = todo.pop()
        if m in seen or not os.path.exists(module_path(m)):
            continue
        seen.append(m)
        for line in open(module_path(m)):
            mm = re.match(r'\s*import\s+(\S+)', line)
            if mm:
                todo.append(mm.group(1))
    return seen


DECL = re.compile(r'^\s*(?:private\s+|protected\s+)?(?:theorem|lemma)\s+([^\s:({\[]+)', re.M)


def qualified_theorems(src):
    """fully qualified names of the theorems declared in `src` (comment-free), following `namespace X` / `end X` nesting"""
    stack, names = [], []
    for line in src.splitlines():
        m = re.match(r'^\s*namespace\s+(\S+)', line)
        if m:
            stack.append(m.group(1))
            continue
        m = re.match(r'^\s*end\s+(\S+)\s*$', line)
        if m and stack and stack[-1] == m.group(1):
            stack.pop()
            continue
        for t in DECL.findall(line):
            names.append('.'.join(stack + [t]))
    return names


def audit(props_module):
    """Source audit + `#print axioms` of every theorem stated in the property module.
    Returns dict(ok, problems, axioms{thm: [..]}, obligations, theorems[list])"""
    problems = []
    mods = import_closure(props_module)
    obligations = 0
    for m in mods:
        src = strip_comments(open(module_path(m)).read())
        for hit in FORBIDDEN.finditer(src):
            problems.append(f'{m}: forbidden token {hit.group(0).strip()!r}')
        obligations += len(DECL.findall(src))
    src = strip_comments(open(module_path(props_module)).read())
    names = qualified_theorems(src)
    axioms = {}
    if names:
        d = os.path.join(LEAN, '.lake', 'audit')
        os.makedirs(d, exist_ok=True)
        f = os.path.join(d, props_module.split('.')[-1] + f'_{os.getpid()}.lean')
        with open(f, 'w') as fh:
            fh.write(f'import {props_module}\n' + ''.join(f'#print axioms {n}\n' for n in names))
        r = subprocess.run(['lake', 'env', 'lean', f], cwd=LEAN, capture_output=True, text=True, timeout=900)
        os.unlink(f)
        out = r.stdout + r.stderr
        for n in names:
            m = re.search(r"'" + re.escape(n) + r"' depends on axioms: \[([^\]]*)\]", out, re.S)
            if m:
                axioms[n] = [a.strip() for a in m.group(1).replace('\n', ' ').split(',') if a.strip()]
            elif re.search(r"'" + re.escape(n) + r"' does not depend on any axioms", out):
                axioms[n] = []
            else:
                problems.append(f'axioms of {n} could not be printed: {out[-400:]}')
        for n, ax in axioms.items():
            bad = [a for a in ax if a not in ALLOWED_AXIOMS]
            if bad:
                problems.append(f'{n} depends on non-standard axioms {bad}')
    else:
        problems.append(f'no theorem found in {props_module}')
    return dict(ok=not problems, problems=problems, axioms=axioms, obligations=obligations, theorems=names, modules=mods)


def leanchecker(props_module, timeout=3000):
    r = subprocess.run(['lake', 'env', 'leanchecker', props_module], cwd=LEAN, capture_output=True, text=True, timeout=timeout)
    return r.returncode == 0, (r.stdout + r.stderr)[-2000:]


class Model:
    """Line-protocol access to the native model driver. `available` is False when the driver does not build."""

    def __init__(self, available):
        self.available = available

    def run(self, component, lines, args=()):
        if not self.available:
            return None
        data = '\n'.join(lines) + '\n'
        r = subprocess.run([PMODEL, component] + list(args), input=data, capture_output=True, text=True, timeout=3600)
        if r.returncode != 0:
            raise RuntimeError(f'pmodel {component} failed: {r.stderr[-500:]}')
        out = r.stdout.split('\n')
        if out and out[-1] == '':
            out.pop()
        return out

    def run_parallel(self, component, chunks, args=()):
        """chunks: list of line lists; returns list of output line lists (runs WORKERS drivers concurrently)."""
        if not self.available:
            return None
        from concurrent.futures import ThreadPoolExecutor
        with ThreadPoolExecutor(max_workers=WORKERS) as ex:
            return list(ex.map(lambda ch: self.run(component, ch, args), chunks))


def digest(obj):
    return hashlib.sha1(json.dumps(obj, sort_keys=True, default=str).encode()).hexdigest()


def load_findings():
    p = os.path.join(ROOT, 'known_findings.json')
    if not os.path.exists(p):
        return []
    return json.load(open(p))['findings']


def scratch_dir(prop):
    d = os.path.join(ROOT, '.scratch', f'{prop}-{os.getpid()}')
    os.makedirs(d, exist_ok=True)
    return d


def rm_scratch(d):
    shutil.rmtree(d, ignore_errors=True)


def probe_first(ctx, cases, work, failed, n_probe=600, timeout=240):
    """Fail-fast probe shared by the harnesses: every k-th case (about `n_probe`) in a fresh pool first.  If `failed(result)` holds for
    one of them, the exploration is cut down to the probe, so a tree that breaks the property broadly (or makes every run slower
    than the one before, e.g. through state accumulating across runs) is reported with a failing input within seconds.  Returns
    the list of cases to explore."""
    import multiprocessing as mp
    if len(cases) <= 2 * n_probe or getattr(ctx, 'search', False):
        return cases
    stride = max(1, len(cases) // n_probe)
    probe = cases[::stride]
    pool = mp.Pool(ctx.workers)
    try:
        res = pool.map_async(work, probe, chunksize=4).get(timeout=timeout)
    except mp.TimeoutError:
        pool.terminate()
        msg = (f'a probe of {len(probe)} cases did not complete within {timeout} s (it takes seconds on the unchanged tree): '
               'the code under test blocks or no longer terminates')
        if getattr(ctx, 'give_up', None) is not None:
            ctx.give_up(msg)
        ctx.note(msg)
        return cases
    finally:
        pool.terminate()
    if any(failed(r) for r in res):
        ctx.note(f'probe of {len(probe)} cases already fails: exploration cut down to the probe')
        return probe
    return cases


def _run_chunk(args):
    fn, chunk = args
    return [fn(x) for x in chunk]


def robust_map(fn, items, workers, chunksize=64, died=lambda item: ['crash:worker-died']):
    """`pool.map` that survives the death of a worker process (a segfault, a fatal recursion, os._exit in the code under test):
    multiprocessing.Pool would wait for the lost task for ever.  Chunks whose worker died are re-run item by item, each in a
    process of its own; an item that kills its process gets `died(item)` as its result."""
    import concurrent.futures as cf
    import multiprocessing as mp
    chunks = [items[i:i + chunksize] for i in range(0, len(items), chunksize)]
    results = [None] * len(chunks)
    ctx = mp.get_context('fork')
    with cf.ProcessPoolExecutor(max_workers=workers, mp_context=ctx) as ex:
        futs = {ex.submit(_run_chunk, (fn, ch)): i for i, ch in enumerate(chunks)}
        broken = False
        for f in cf.as_completed(futs):
            try:
                results[futs[f]] = f.result()
            except BaseException:  # noqa  (BrokenProcessPool, or a BaseException raised by `fn` in the worker)
                broken = True
    if broken:
        for i, ch in enumerate(chunks):
            if results[i] is not None:
                continue
            out = []
            for item in ch:
                with cf.ProcessPoolExecutor(max_workers=1, mp_context=ctx) as ex1:
                    try:
                        out.append(ex1.submit(fn, item).result(timeout=120))
                    except BaseException:  # noqa  (BrokenProcessPool, TimeoutError, a BaseException raised by `fn`)
                        out.append(died(item))
            results[i] = out
    return [r for ch in results for r in ch]


def plain(x, depth=0):
    """plain data only: what a worker hands back must be rebuildable by the parent whatever the code under test put into it"""
    if isinstance(x, (int, float, str, bool, type(None))):
        return x
    if depth > 40:
        return 'object <deep>'
    if isinstance(x, dict):
        return {(k if isinstance(k, (int, float, str, bool, type(None), tuple)) else 'object ' + type(k).__name__): plain(v, depth + 1)
                for k, v in x.items()}
    if isinstance(x, list):
        return [plain(v, depth + 1) for v in x]
    if isinstance(x, tuple):
        return tuple(plain(v, depth + 1) for v in x)
    if isinstance(x, (set, frozenset)):
        return sorted((plain(v, depth + 1) for v in x), key=repr)
    return 'object ' + type(x).__name__
