"""Persistence harness shared by C07 and C08: generated Process / WorkChain classes whose behaviour depends only on
persisted state, a custom object loader, the abstraction `view_of` (real process -> persisted view as a model line),
canonical rendering of real bundles (same syntax as `pmodel persist`), and a small driver on the deterministic loop.

Program descriptions
  plain process  {'kind': 'proc', 'fns': {i: (awaits, outcome)}, 'outs': {i: [(port, value), ...]}, 'inputs': {...}|None}
      outcome := ('cont', fn, [args], {key: val}) | ('wait', fn[, msg, data]) | ('stop', v_or_None, ok) | ('kill',) | ('raise', n)
      every step also emits the output `t<i>` = [args, sorted kwargs] it was called with (so lost arguments show in outputs)
  work chain     {'kind': 'outline', 'block': <outline_gen block>, 'tabs': <oracle tables>}
      the oracle counters and the call trace live in `self.ctx` (persisted), each step emits the output `c<f>` = call count
pm programs (`harness.pm`) are accepted as they are ({'kind': 'proc'|'chain', ...}: no inputs/outputs, chains await futures).
"""
import harness.detloop as detloop  # noqa: F401  (must precede plumpy)
import asyncio
import copy
import hashlib
import logging
import pickle
import sys
import urllib.parse
import uuid

import yaml

import plumpy
from plumpy import loaders, persistence, process_states as ps, workchains
from plumpy.base.state_machine import StateEventHook

from harness import outline_gen as og

class UserExc(Exception):
    """stand-in for harness.pm.UserExc inside the persistence checks: pm's class rewrites its constructor argument
    (`UserExc(0).args == ('user0',)`), so pickle / YAML / copy rebuild it as UserExc('user0') with args ('useruser0',) — a
    property of that test class, not of plumpy.  This one is rebuilt from exactly its `args`."""

    def __len__(self):          # a FALSY exception object (an aggregate error with no sub-errors): still the exception
        return 0

    @property
    def n(self):
        return self.args[0]


def _patch_pm():
    from harness import pm
    pm.UserExc = UserExc


_patch_pm()

S = ps.ProcessState
KILL_MSG = 'cmdkill'
LOADER_PREFIX = 'X|'
CODEC_MARK = '__enc__'        # key added by the codec of half of the generated classes; not part of the bundle's canonical rendering


class StepError(Exception):
    """raised by generated steps; `args` are exactly the constructor arguments, so pickle and YAML rebuild it"""

    def __len__(self):          # a FALSY exception object (an aggregate error with no sub-errors): still the exception
        return 0


class PrefixLoader(loaders.DefaultObjectLoader):
    """a custom ObjectLoader: identifies every object as 'X|' + the default identifier"""

    def load_object(self, identifier):
        if not identifier.startswith(LOADER_PREFIX):
            raise ValueError(f'identifier `{identifier}` does not carry the prefix of this loader')
        return super().load_object(identifier[len(LOADER_PREFIX):])

    def identify_object(self, obj):
        return LOADER_PREFIX + loaders.DefaultObjectLoader().identify_object(obj)


PREFIX_LOADER_ID = f'{PrefixLoader.__module__}:{PrefixLoader.__name__}'


class RegistryLoader(PrefixLoader):
    """a custom ObjectLoader that cannot be rebuilt from its class name (its constructor needs an argument): legitimate as long
    as it is passed explicitly in the save AND the load context"""

    def __init__(self, registry):
        super().__init__()
        self.registry = registry


REGISTRY_LOADER_ID = f'{RegistryLoader.__module__}:{RegistryLoader.__name__}'


class Listener(plumpy.ProcessListener):
    """a listener without state of its own (the set of listeners is persisted with the process)"""


# ---------------------------------------------------------------------------------------------------------------
# generated classes

_CACHE = {}


def _register(cls, key):
    name = f"{cls.__name__}_{hashlib.sha1(key.encode()).hexdigest()[:10]}"
    cls.__name__ = cls.__qualname__ = name
    cls.__module__ = __name__
    setattr(sys.modules[__name__], name, cls)
    return cls


def _make_proc_body(i, awaits, oc, outs):
    def finish(self):
        k = oc[0]
        if k == 'cont':
            return ps.Continue(getattr(self, f'f{oc[1]}'), *oc[2], **{f'k{a}': b for a, b in oc[3].items()})
        if k == 'wait':
            if len(oc) > 2:
                return ps.Wait(getattr(self, f'f{oc[1]}'), oc[2], oc[3])
            return ps.Wait(getattr(self, f'f{oc[1]}'))
        if k == 'stop':
            if oc[2]:
                return oc[1] if i % 2 == 0 else ps.Stop(oc[1], True)
            return plumpy.UnsuccessfulResult(oc[1]) if i % 2 == 0 else ps.Stop(oc[1], False)
        if k == 'kill':
            return ps.Kill(plumpy.process_comms.MessageBuilder.kill(KILL_MSG))
        if k == 'raise':
            raise StepError(oc[1])
        raise ValueError(oc)

    def begin(self, a, kw):
        call = (i, tuple(a), tuple(sorted((int(k[1:]), v) for k, v in kw.items())))
        self._trace.append(call)
        sorted(self.inputs.keys())      # every step consults its (possibly empty) parsed inputs, which must have been restored
        journal = self.inputs.get('journal')
        if journal is not None:
            journal.append(i)
            self.out(f'j{i}', len(journal))
        nested = self.inputs.get('ns')
        if nested is not None:          # ... and reads a nested input namespace attribute-style, as `self.inputs.ns.d0`
            for key in sorted(nested.keys()):
                getattr(self.inputs.ns, key)
        self.out(f't{i}', [list(a), sorted([k, v] for k, v in kw.items())])
        for port, value in outs:
            self.out(port, copy.deepcopy(value))

    if awaits == 0:
        def body(self, *a, **kw):
            begin(self, a, kw)
            return finish(self)
    else:
        async def body(self, *a, **kw):
            begin(self, a, kw)
            for _ in range(awaits):
                await asyncio.sleep(0)
            return finish(self)
    body.__name__ = f'f{i}'
    return body


def build_proc(prog):
    key = 'proc' + repr(sorted(prog['fns'].items())) + repr(sorted((prog.get('outs') or {}).items())) + str(bool(prog.get('bare')))
    if key in _CACHE:
        return _CACHE[key]
    ns = {}
    for i, (aw, oc) in prog['fns'].items():
        ns[f'f{i}'] = _make_proc_body(i, aw, oc, (prog.get('outs') or {}).get(i, []))
    ns['run'] = ns['f0']

    def define(cls, spec):
        super(klass, cls).define(spec)
        if prog.get('bare'):
            spec.input('a', required=False)      # no defaults at all: a process started without inputs has EMPTY parsed inputs
        else:
            spec.input('a', default=5)
            # a CALLABLE default returning a fresh mutable object: evaluated once, at construction; what the steps put into it
            # is part of the process's inputs from then on and must survive a checkpoint (not be re-evaluated on load)
            spec.input('journal', default=list)
        spec.input('b', required=False)
        spec.input_namespace('ns', dynamic=True, required=False)
        spec.outputs.dynamic = True
        spec.output('typed_int', valid_type=int, required=False)
    ns['define'] = classmethod(define)

    def __init__(self, *a, **kw):
        self._trace = []
        plumpy.Process.__init__(self, *a, **kw)
    ns['__init__'] = __init__

    def load_instance_state(self, saved_state, load_context):
        self._trace = []            # the trace of *this instance*: deliberately not persisted
        plumpy.Process.load_instance_state(self, saved_state, load_context)
    ns['load_instance_state'] = load_instance_state
    if len(prog['fns']) % 2 == 0:
        # half of the classes override the protected codec hooks with a REAL codec (what is stored is not what is held): inputs,
        # raw inputs and outputs must all go through encode on save and decode on load
        def encode_input_args(self, inputs):
            enc_ = copy.deepcopy(inputs)
            if isinstance(enc_, plumpy.utils.AttributesFrozendict):
                enc_ = plumpy.utils.AttributesFrozendict({**enc_, CODEC_MARK: 1})
            else:
                enc_ = {**enc_, CODEC_MARK: 1}
            return enc_                    # (same shape plus a mark: what is stored is not what is held)

        def decode_input_args(self, encoded):
            dec = dict(copy.deepcopy(encoded))
            del dec[CODEC_MARK]            # KeyError for anything that was stored without encode
            return plumpy.utils.AttributesFrozendict(dec) if isinstance(encoded, plumpy.utils.AttributesFrozendict) else dec
        ns['encode_input_args'] = encode_input_args
        ns['decode_input_args'] = decode_input_args
    klass = type('GenP', (plumpy.Process,), ns)
    _CACHE[key] = _register(klass, key)
    return klass


def build_chain(block, tabs):
    """WorkChain whose steps and predicates read oracle tables (class constants) through counters kept in `ctx`."""
    key = 'outline' + repr(block) + repr(sorted(tabs.get('S', {}).items())) + repr(sorted(tabs.get('P', {}).items()))
    if key in _CACHE:
        return _CACHE[key]
    from plumpy.workchains import if_, while_, return_
    fs, ps_ = set(), set()

    def collect(b):
        for i in b:
            if i[0] == 'C':
                fs.add(i[1])
            elif i[0] == 'W':
                ps_.add(i[1]); collect(i[2])
            elif i[0] == 'I':
                for p, bb in i[1]:
                    if p is not None:
                        ps_.add(p)
                    collect(bb)
    collect(block)
    ns = {}

    def ensure(self):
        if 'sc' not in self.ctx.__dict__:
            self.ctx.sc, self.ctx.pc, self.ctx.trace = {}, {}, []
            self.ctx.log = self.ctx.trace       # ONE list under two keys: steps write through `log`, everything reads `trace`

    def mk_step(f):
        def step(self):
            ensure(self)
            i = self.ctx.sc.get(f, 0)
            self.ctx.sc[f] = i + 1
            vals = tabs.get('S', {}).get(f, [])
            r = vals[i] if i < len(vals) else None
            ev = f's{f}:{og.show_ret(r)}'
            self.ctx.log.append(ev)
            self._trace.append(ev)
            self.out(f'c{f}', i + 1)
            return plumpy.ToContext() if r == 'T' else r
        step.__name__ = f's{f}'
        return step

    def mk_pred(p):
        def pred(self):
            ensure(self)
            i = self.ctx.pc.get(p, 0)
            self.ctx.pc[p] = i + 1
            vals = tabs.get('P', {}).get(p, [])
            b = bool(vals[i]) if i < len(vals) else False
            ev = f'p{p}:{1 if b else 0}'
            self.ctx.trace.append(ev)
            self._trace.append(ev)
            return b
        pred.__name__ = f'p{p}'
        return pred

    for f in fs:
        ns[f's{f}'] = mk_step(f)
    for p in ps_:
        ns[f'p{p}'] = mk_pred(p)

    def conv_block(b, cls):
        return [conv(i, cls) for i in b]

    def conv(i, cls):
        if i[0] == 'C':
            return getattr(cls, f's{i[1]}')
        if i[0] == 'R':
            return return_ if i[1] is None else return_(i[1])
        if i[0] == 'W':
            return while_(getattr(cls, f'p{i[1]}'))(*conv_block(i[2], cls))
        (p0, b0), rest = i[1][0], i[1][1:]
        node = if_(getattr(cls, f'p{p0}'))(*conv_block(b0, cls))
        for p, bb in rest:
            node = node.else_(*conv_block(bb, cls)) if p is None else node.elif_(getattr(cls, f'p{p}'))(*conv_block(bb, cls))
        return node

    def define(cls, spec):
        super(klass, cls).define(spec)
        spec.input('a', default=5)
        spec.outputs.dynamic = True
        spec.outline(*conv_block(block, cls))
    ns['define'] = classmethod(define)

    def __init__(self, *a, **kw):
        self._trace = []
        plumpy.WorkChain.__init__(self, *a, **kw)
    ns['__init__'] = __init__

    def load_instance_state(self, saved_state, load_context):
        self._trace = []
        plumpy.WorkChain.load_instance_state(self, saved_state, load_context)
    ns['load_instance_state'] = load_instance_state
    klass = type('GenW', (plumpy.WorkChain,), ns)
    _CACHE[key] = _register(klass, key)
    return klass


def class_of(prog):
    """(class, outline block or None) for a program of this module or of harness.pm"""
    if prog['kind'] == 'outline':
        return build_chain(prog['block'], prog['tabs']), prog['block']
    if prog['kind'] == 'proc' and ('outs' in prog or 'inputs' in prog):
        return build_proc(prog), None
    from harness import pm
    cls = pm.build_class(prog)
    if prog['kind'] == 'chain':
        return cls, [('C', i) for i in range(len(prog['fns']))]
    return cls, None


# ---------------------------------------------------------------------------------------------------------------
# canonical rendering (the syntax of `pmodel persist`)

def q(s):
    return urllib.parse.quote(str(s), safe="._-:|@")


def enc(v):
    """canonical token of a plain value; 'L' if it contains a live awaitable (future / process)"""
    if v is None:
        return 'N'
    if v is True:
        return 'T'
    if v is False:
        return 'F'
    if isinstance(v, int):
        return f'i{v}'
    if isinstance(v, float):
        return '@t' if v > 1e9 else 'f' + q(repr(v))
    if isinstance(v, str):
        return 's' + q(v)
    if isinstance(v, uuid.UUID):
        return '@uuid'
    if isinstance(v, (asyncio.Future, plumpy.Process)):
        return 'L'
    if isinstance(v, (tuple, list)):
        parts = [enc(x) for x in v]
        if 'L' in parts:
            return 'L'
        o, c = ('(', ')') if isinstance(v, tuple) else ('[', ']')
        return o + ','.join(parts) + c
    if isinstance(v, (set, frozenset)):
        parts = sorted(enc(x) for x in v)
        return 'L' if 'L' in parts else 'set[' + ','.join(parts) + ']'
    if isinstance(v, plumpy.utils.AttributesFrozendict):
        return _enc_map('fd', dict(v))
    if isinstance(v, plumpy.utils.AttributesDict):
        return _enc_map('ad', dict(v.__dict__))
    if isinstance(v, dict):
        return _enc_map('', v)
    if isinstance(v, plumpy.ProcessListener):
        return enc(type(v))                      # listener objects are canonicalised to their class
    if isinstance(v, BaseException):
        return 'E' + type(v).__name__ + '(' + ','.join(enc(a) for a in v.args) + ')'
    if isinstance(v, type):
        return 'C' + q(v.__module__ + '.' + v.__qualname__)
    return 'O' + q(type(v).__name__)


def _enc_map(tag, d):
    items = []
    for k in d:
        if k == CODEC_MARK:
            continue
        kk = enc(k) if isinstance(k, (asyncio.Future, plumpy.Process)) else q(k)
        vv = enc(d[k])
        if kk == 'L' or vv == 'L':
            return 'L'
        items.append(f'{kk}:{vv}')
    return tag + '{' + ','.join(sorted(items)) + '}'


def fut_token(f):
    if not f.done():
        return 'P'
    if f.cancelled():
        return 'C'
    if f.exception() is not None:
        return 'X:' + enc(f.exception())
    return 'R:' + enc(f.result())


def st_tokens(stepper):
    """`Outline.St` of a stepper object (reads the private position / child of the stepper: there is no public view)"""
    if stepper is None:
        return None
    if isinstance(stepper, (workchains._FunctionStepper, workchains._ReturnStepper)):
        return ['l']
    pos = 0 if isinstance(stepper, workchains._WhileStepper) else stepper._pos
    child = stepper._child_stepper
    if child is None:
        return ['n', str(pos), '0']
    return ['n', str(pos), '1'] + st_tokens(child)


def view_of(p):
    """abstraction: the persisted view of a real process, as the tokens of a `pmodel persist` view"""
    st = p._state
    ins = enc(getattr(st, 'in_state', None))
    label = p.state.value
    if label in ('created', 'running'):
        state = [label, ins, st.run_fn.__name__, enc(st.args), enc(st.kwargs)]
    elif label == 'waiting':
        cb = st.done_callback.__name__ if st.done_callback is not None else '-'
        state = [label, ins, cb, enc(st.msg), enc(st.data), enc(st._awaiting) if hasattr(st, '_awaiting') else '-']
    elif label == 'finished':
        state = [label, ins, enc(st.result), enc(st.successful)]
    elif label == 'excepted':
        state = [label, ins, enc(st.exception)]
    else:
        state = [label, ins, enc(st.msg)]
    outs = sorted((q(k), enc(v)) for k, v in p.outputs.items())
    eh = p._event_helper
    toks = [enc(p.pid), enc(p.creation_time), enc(p.status), enc(p._pre_paused_status),
            '-' if p._paused is None else fut_token(p._paused), fut_token(p.future()),
            enc(eh._listener_type), enc(set(type(x) for x in eh._listeners)),
            '-' if p.raw_inputs is None else enc(p.raw_inputs), '-' if p.inputs is None else enc(p.inputs),
            str(len(outs))] + [t for kv in outs for t in kv] + state
    if isinstance(p, plumpy.WorkChain):
        stp = p._stepper
        if stp is not None and not isinstance(stp, workchains._BlockStepper):
            s = ['n', '0', '1'] + st_tokens(stp)         # a single instruction is its own top-level stepper
        else:
            s = st_tokens(stp)
        toks += [enc(dict(p.ctx.__dict__)) if p.ctx is not None else 'N'] + (s if s is not None else ['_'])
    return toks


def is_live(view_tokens):
    return 'L' in view_tokens


def model_line(mode, cls, block, view_tokens):
    """mode: 'D' default loader, 'G' custom loader installed globally, 'C' custom loader in the save context"""
    head = (['D', '-', '-'] if mode == 'D' else ['C', LOADER_PREFIX, REGISTRY_LOADER_ID] if mode == 'R'
            else [mode, LOADER_PREFIX, PREFIX_LOADER_ID])      # 'R': as 'C', with a loader that only exists as an instance
    ident = loaders.DefaultObjectLoader().identify_object(cls)
    toks = head + [ident, 'W' if block is not None else 'P'] + view_tokens
    if block is not None:
        toks += og.tokens_block(block)
    return ' '.join(toks)


META = persistence.META
STRUCT_KEYS = {(META,), (META, persistence.META__TYPES), (META, persistence.META__USER)}


def flat_bundle(b, pre=(), top=True):
    """sorted `path=token` list of a real bundle (nested saved states, META blocks and OUTPUTS are descended into);
    the traceback text of an EXCEPTED state is dropped (property: up to the traceback), `ex_value` is decoded from YAML"""
    out = []
    for k, v in b.items():
        if k == CODEC_MARK:
            continue
        path = pre + (k,)
        ps_ = '/'.join(path)
        rel = path[-2:] if len(path) >= 2 and path[-2] == META else path[-1:]
        struct = isinstance(v, dict) and (META in v or rel in STRUCT_KEYS or (top and k == 'OUTPUTS'))
        if k == ps.Excepted.TRACEBACK and pre and pre[-1] == '_state':
            continue
        if struct:
            out.append(ps_ + '={')
            out.extend(flat_bundle(v, path, top=False))
        elif k == ps.Excepted.EXC_VALUE and pre and pre[-1] == '_state':
            out.append(ps_ + '=' + enc(yaml.load(v, Loader=yaml.Loader)))
        else:
            out.append(ps_ + '=' + enc(v))
    return sorted(out) if top else out


def first_diff(a, b):
    """first differing key of two flattened bundles"""
    da, db = dict(x.split('=', 1) for x in a), dict(x.split('=', 1) for x in b)
    for k in sorted(set(da) | set(db)):
        if da.get(k) != db.get(k):
            return k, da.get(k), db.get(k)
    return None


MEDIA = ('deepcopy', 'pickle', 'yaml')


def through(medium, bundle):
    if medium == 'deepcopy':
        return copy.deepcopy(bundle)
    if medium == 'pickle':
        return pickle.loads(pickle.dumps(bundle))
    return yaml.load(yaml.dump(bundle, sort_keys=False), Loader=yaml.Loader)     # (mappings keep their order, as in the other media)


def accessors(p):
    """the observables listed in C07 (public API), as comparable values"""
    d = dict(pid=p.pid, state=p.state.value, raw_inputs=copy.deepcopy(p.raw_inputs), inputs=copy.deepcopy(p.inputs),
             outputs=copy.deepcopy(p.outputs), status=p.status, paused=p.paused, creation_time=p.creation_time)
    if isinstance(p, plumpy.WorkChain):
        try:
            d['ctx'] = copy.deepcopy(dict(p.ctx.__dict__))
        except TypeError:
            d['ctx'] = enc(dict(p.ctx.__dict__))
    if p.has_terminated():
        if p.state == S.FINISHED:
            d['outcome'] = ('finished', copy.deepcopy(p.result()), p.successful())
        elif p.state == S.EXCEPTED:
            d['outcome'] = ('excepted', enc(p.exception()))
        else:
            d['outcome'] = ('killed', copy.deepcopy(p.killed_msg()))
    return d


def safe_accessors(p):
    """accessors of a loaded process: an accessor that raises is reported as such"""
    try:
        return accessors(p)
    except Exception as e:  # noqa
        out = {}
        for name in ('pid', 'state', 'raw_inputs', 'inputs', 'outputs', 'status', 'paused', 'creation_time'):
            try:
                v = getattr(p, name)
                out[name] = v.value if name == 'state' else copy.deepcopy(v)
            except Exception as e2:  # noqa
                out[name] = f'<raised {type(e2).__name__}>'
        out['error'] = f'{type(e).__name__}'
        return out


# ---------------------------------------------------------------------------------------------------------------
# driving one real process on the deterministic loop

class Drive:
    def __init__(self, prog, inputs=None, pid=None, status0=None, listener=True, on_entered=None, process=None, loop=None,
                 loop_mode='own'):
        logging.disable(logging.CRITICAL)
        self.prog = prog
        self.loop = loop or detloop.DetLoop()
        # the thread's current loop while the process is driven: its own, another one that never runs, or none at all
        detloop.use_loop(self.loop, foreign={'own': False, 'foreign': True, 'none': 'none'}[loop_mode])
        self.loop.set_exception_handler(lambda l, c: None)
        self.cls, self.block = class_of(prog)
        if process is None:
            kw = dict(loop=self.loop)
            if inputs is not None:
                kw['inputs'] = inputs
            if pid is not None:
                kw['pid'] = pid
            self.p = self.cls(**kw)
            if status0 is not None:
                self.p.set_status(status0)
            if listener:
                self.p.add_process_listener(Listener())
        else:
            self.p = process
        p = self.p
        if not hasattr(p, '_trace'):
            p._trace = []
        p._futs = [self.loop.create_future() for _ in range(prog.get('nfut', 0))]
        self.entered = [p.state.value]
        self.on_entered = on_entered

        def cb(sm, hook, st):
            self.entered.append(sm.state.value)
            if self.on_entered is not None:
                self.on_entered(self)
        p.add_state_event_callback(StateEventHook.ENTERED_STATE, cb)
        self.task = self.loop.create_task(p.step_until_terminated())

    def tick(self):
        return self.loop.step_one()

    def quiesce(self, limit=400):
        n = 0
        while n < limit and self.loop.step_one():
            n += 1
        return n

    def wake(self):
        """deliver the wake-up the process is waiting for (same values in every run); False if nothing to deliver"""
        p = self.p
        if p.has_terminated() or p.state != S.WAITING or p.paused:
            return False
        if self.prog['kind'] == 'chain':
            pend = [(i, f) for i, f in enumerate(p._futs) if not f.done()]
            if not pend:
                return False
            for i, f in pend:
                f.set_result(10 + i)
            return True
        cb = p._state.done_callback
        idx = int(cb.__name__[1:]) if cb is not None and cb.__name__[1:].isdigit() else 0
        p.resume(100 + idx)
        return True

    def run_to_end(self, limit=200):
        for _ in range(limit):
            self.quiesce()
            if self.p.has_terminated():
                break
            if self.p.paused:
                self.p.play()
                continue
            if not self.wake():
                break
        return self.p

    def abandon(self):
        try:
            self.task.cancel()
            self.loop.close()
        except Exception:
            pass

    close = abandon


def profile(prog, **kw):
    """(number of callbacks, number of state entries) of the uninterrupted run (wake-ups delivered when quiescent)"""
    d = Drive(prog, **kw)
    n = 0
    for _ in range(300):
        if d.tick():
            n += 1
        elif d.p.has_terminated() or not d.wake():
            break
    d.close()
    return n, len(d.entered)


# ---------------------------------------------------------------------------------------------------------------
# program generators

def random_proc(rng, with_waits=True):
    n = rng.randint(1, 5)
    fns, outs = {}, {}
    for i in range(n):
        aw = rng.choice([0, 0, 0, 1, 2])
        last = i == n - 1
        r = rng.random()
        if last:
            oc = ('stop', rng.choice([None, 1, 2, 'done']), rng.random() < 0.8) if r < 0.75 else \
                 ('raise', rng.randint(0, 2)) if r < 0.9 else ('kill',)
        elif r < 0.55 or not with_waits:
            nargs = rng.randint(0, 3)
            oc = ('cont', i + 1, [rng.choice([rng.randint(0, 9), 'x', None, (1, 2)]) for _ in range(nargs)],
                  {k: rng.choice([rng.randint(0, 9), 'y', [1, 2]]) for k in rng.sample(range(3), rng.randint(0, 2))})
        elif r < 0.93:
            oc = ('wait', i + 1) if rng.random() < 0.4 else \
                 ('wait', i + 1, rng.choice([None, 'waiting for it']), rng.choice([None, 3, {'k': [1, 2]}, 'd']))
        else:
            oc = ('raise', rng.randint(0, 2))
        fns[i] = (aw, oc)
        k = rng.randint(0, 2)
        outs[i] = [(rng.choice([f'o{i}', f'ns.o{i}', 'shared']), rng.choice([i, 'v', [i, i + 1], {'n': {'m': i}}, None]))
                   for _ in range(k)]
    return {'kind': 'proc', 'nfut': 0, 'fns': fns, 'outs': outs}


def random_inputs(rng):
    r = rng.random()
    if r < 0.2:
        return None
    inp = {}
    if rng.random() < 0.6:
        inp['a'] = rng.choice([1, 'text', [1, 2], {'x': 1}])
    if rng.random() < 0.5:
        inp['b'] = rng.choice([0, None, 'bee', (1, 2)])
    if rng.random() < 0.4:
        inp['ns'] = {f'd{j}': rng.choice([j, {'deep': [j]}]) for j in range(rng.randint(1, 2))}
    return inp


PROC_CORPUS = {
    'Args': {'kind': 'proc', 'nfut': 0, 'fns': {0: (0, ('cont', 1, [1, 'x', (2, 3)], {0: 4, 2: [5]})), 1: (1, ('cont', 2, [], {1: 'k'})),
                                                  2: (0, ('stop', 9, True))},
             'outs': {0: [('o0', 1)], 1: [('ns.deep', {'a': [1, 2]})], 2: [('o0', 'again')]}},
    'WaitData': {'kind': 'proc', 'nfut': 0, 'fns': {0: (0, ('wait', 1, 'waiting for it', {'k': [1, 2]})), 1: (1, ('wait', 2)),
                                                      2: (0, ('cont', 3, [7], {})), 3: (0, ('stop', None, False))},
                 'outs': {0: [('w', 0)], 2: [('w', 2)]}},
    'Raises': {'kind': 'proc', 'nfut': 0, 'fns': {0: (1, ('cont', 1, [1], {})), 1: (0, ('raise', 2))}, 'outs': {0: [('o', 1)]}},
    'Killed': {'kind': 'proc', 'nfut': 0, 'fns': {0: (0, ('wait', 1)), 1: (0, ('kill',))}, 'outs': {}},
    # no inputs given and no defaults declared: the (empty) parsed inputs must survive a checkpoint
    'Bare': {'kind': 'proc', 'nfut': 0, 'bare': True, 'fns': {0: (0, ('cont', 1, [1], {})), 1: (1, ('wait', 2)), 2: (0, ('stop', 3, True))},
             'outs': {0: [('o', 1)]}},
    # a step emits a value its output port rejects: the process excepts with the ValueError raised by out()
    'BadOut': {'kind': 'proc', 'nfut': 0, 'fns': {0: (0, ('cont', 1, [], {})), 1: (1, ('stop', 1, True))},
               'outs': {0: [('o', 1)], 1: [('typed_int', 'seven')]}},
}
