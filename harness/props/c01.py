"""C01 — state changes follow the lifecycle graph; terminal states are final."""
from harness import pm_prop

PROPERTY = 'C01'
LEAN_PROPS = 'PlumpyModel.Props.C01'
ASSUMPTIONS = pm_prop.ASSUMPTIONS
TRUSTED = pm_prop.TRUSTED
ALPHABET = ['pause', 'play', 'kill', 'resume', 'fail', 'callsoon ok', 'callsoon raise', 'complete', 'cancelfut']
MONITORS = ['c01']


def run(ctx):
    return pm_prop.run_pm(ctx, ALPHABET, MONITORS, listeners=True)


def replay(ctx, failure):
    return pm_prop.replay_pm(ctx, failure, MONITORS)
