"""C09 — a WorkChain executes its outline as the structured program it denotes."""
import logging
import multiprocessing as mp

from harness import common, outline_gen as og

PROPERTY = 'C09'
LEAN_PROPS = 'PlumpyModel.Props.C09'
ASSUMPTIONS = [
    'step and predicate functions are oracles (tables); exhausted tables give None / False so every run terminates',
    'the chain is run with Process.execute() on a stock asyncio loop; no control requests (those are C04-C06, C10)',
    'result convention: a chain that ends because a predicate evaluated false reports None (DESIGN.md C09)',
]
TRUSTED = ['outline stepper model lean/PlumpyModel/Outline/Model.lean (hand-written, compared with WorkChain per case)']


def run_impl(case):
    block, tabs = case
    common.ensure_repo_on_path()
    import asyncio
    import plumpy
    logging.disable(logging.CRITICAL)
    try:
        cls = og.build_workchain(block, tabs, alias=len(og.case_line(block, tabs)) % 3 == 0,
                                 required_output=len(og.case_line(block, tabs)) % 4 == 1)
    except Exception as e:  # construction of the outline rejected
        return dict(error=f'define:{type(e).__name__}', events=[], result=None)
    loop = asyncio.new_event_loop()
    try:
        try:
            wc = cls(loop=loop)         # (the spec, and so the outline, is built when the first instance is made)
        except Exception as e:  # noqa
            return dict(error=f'define:{type(e).__name__}', events=[], result=None)
        try:
            wc.execute()
            err = None
        except BaseException as e:  # noqa
            err = f'{type(e).__name__}'
        res = None
        if err is None:
            res = og.result_token(wc.result())
        return dict(error=err, events=list(wc._oracle.events), result=res, state=wc.state.value)
    finally:
        loop.close()


def impl_line(r):
    if r['error']:
        return 'err'
    return f"trace={','.join(r['events'])} result={r['result']}"


def gen_cases(ctx):
    cases = []
    rng = ctx.rng
    max_nodes = 5 if not ctx.thorough else 6
    per_shape = 3 if not ctx.thorough else 6
    n_shapes = 0
    for n in range(1, max_nodes + 1):
        for sh in og.shapes(n):
            block = og.number(sh)
            n_shapes += 1
            # systematic tables: everything false/None; everything true for two rounds
            cases.append((block, {'S': {}, 'P': {}}))
            cases.append((block, {'S': {}, 'P': {p: [True, True] for p in range(12)}}))
            for _ in range(per_shape):
                cases.append((block, og.random_tabs(rng, ids=4, with_awaitable=True)))
    n_random = 3000 if not ctx.thorough else 40000
    depth = 4 if not ctx.thorough else 6
    for _ in range(n_random):
        block = og.random_block(rng, rng.randint(1, depth))
        cases.append((block, og.random_tabs(rng, with_awaitable=True)))
    # corpus: the literal-reading corner of the result clause and the scan-restart corner of `_IfStepper`
    cases.append(([('C', 0), ('I', [(0, [('C', 1)])])], {'S': {0: ['T']}, 'P': {0: [False]}}))
    cases.append(([('I', [(0, [('C', 0), ('C', 1)]), (1, [('C', 2)]), (None, [('C', 3)])]), ('C', 4)],
                  {'S': {}, 'P': {0: [False, True], 1: [True, False]}}))
    return [(b, prune(b, t)) for b, t in cases], n_shapes


def prune(block, tabs):
    k = og.kinds_of(block)  # noqa: F841
    fs, ps = set(), set()

    def walk(b):
        for i in b:
            if i[0] == 'C':
                fs.add(i[1])
            elif i[0] == 'W':
                ps.add(i[1]); walk(i[2])
            elif i[0] == 'I':
                for p, bb in i[1]:
                    if p is not None:
                        ps.add(p)
                    walk(bb)
    walk(block)
    return {'S': {f: v for f, v in tabs.get('S', {}).items() if f in fs and v},
            'P': {p: v for p, v in tabs.get('P', {}).items() if p in ps and v}}


def run(ctx):
    cases, n_shapes = gen_cases(ctx)
    with mp.Pool(ctx.workers) as pool:
        impl = pool.map(run_impl, cases, chunksize=200)
    lines = [og.case_line(b, t) for b, t in cases]
    model = ctx.model.run('outline', lines)
    divergences, failures = [], []
    distinct = set()
    kinds, depths, results = {}, {}, {}
    for idx, (case, r) in enumerate(zip(cases, impl)):
        block, tabs = case
        il = impl_line(r)
        ev, res, literal = og.ref_run(block, tabs)
        # monitor: the property itself, against the reference semantics of structured programs
        if r['error']:
            failures.append(dict(signature='outline-run-raised', clause='chain runs', case=dict(outline=block, tabs=tabs),
                                 detail=r['error']))
        else:
            if r['events'] != ev:
                failures.append(dict(signature='call-order', clause='steps and predicates are called in program order',
                                     case=dict(outline=block, tabs=tabs), detail=dict(impl=r['events'], reference=ev)))
            elif r['result'] != res:
                failures.append(dict(signature='result', clause='result is the return_ code or the last value',
                                     case=dict(outline=block, tabs=tabs), detail=dict(impl=r['result'], reference=res)))
            elif r.get('state') != 'finished':
                failures.append(dict(signature='not-finished', clause='chain finishes', case=dict(outline=block, tabs=tabs),
                                     detail=r.get('state')))
        if model is not None and model[idx] != il:
            divergences.append(dict(case=dict(outline=block, tabs=tabs), line=lines[idx], impl=il, model=model[idx]))
        if len(ev) >= 2 and any(e.startswith('p') for e in ev):
            distinct.add(il + '|' + lines[idx].split(' S ')[0].split(' P ')[0])
        for k, v in og.kinds_of(block).items():
            kinds[k] = kinds.get(k, 0) + v
        d = og.depth_of(block)
        depths[d] = depths.get(d, 0) + 1
        rk = 'none' if res == 'n' else 'toctx' if res == 't' else 'value'
        results[rk] = results.get(rk, 0) + 1
    return dict(
        evaluations=len(cases), distinct_nontrivial=len(distinct),
        rule='all outline shapes with <= N instructions (fresh ids) x systematic + random oracle tables, plus random nested '
             'outlines; non-trivial = at least one predicate evaluated and >= 2 calls; distinct = distinct (outline, trace, result)',
        samples=[dict(line=lines[i], impl=impl_line(impl[i])) for i in (0, len(cases) // 2, len(cases) - 1)],
        traces_validated=len(cases) if model is not None else 0,
        divergences=divergences, failures=failures, exhaustive=False,
        histograms=dict(instruction_kinds=kinds, depth=depths, result_kind=results, shapes_enumerated=n_shapes),
    )


def replay(ctx, failure):
    case = failure['case']

    def fix(b):
        out = []
        for i in b:
            if i[0] == 'W':
                out.append(('W', i[1], fix(i[2])))
            elif i[0] == 'I':
                out.append(('I', [(p, fix(bb)) for p, bb in i[1]]))
            else:
                out.append(tuple(i))
        return out
    block = fix(case['outline'])
    tabs = {'S': {int(k): v for k, v in case['tabs'].get('S', {}).items()},
            'P': {int(k): v for k, v in case['tabs'].get('P', {}).items()}}
    r = run_impl((block, tabs))
    ev, res, _ = og.ref_run(block, tabs)
    out = dict(impl=r, reference=dict(events=ev, result=res))
    m = ctx.model.run('outline', [og.case_line(block, tabs)])
    out['model'] = m[0] if m else None
    out['failures'] = [] if (r['events'] == ev and r['result'] == res and not r['error']) else ['mismatch']
    return out
