"""C18 — Process.current() is the process whose code is running."""
import json
import multiprocessing as mp
import random

from harness import common, procstack_gen as pg

PROPERTY = 'C18'
LEAN_PROPS = 'PlumpyModel.Props.C18'
ASSUMPTIONS = [
    'user code (step functions, continuations, callbacks) is an oracle: any sequence of samples, awaits, out(), call_soon(), '
    'launch(), nested execute() and children awaited inline in the same task (`await child.step_until_terminated()` under an '
    'absorbing `except BaseException`), to any depth (theorems: every scenario); it does not raise except as the last action of a '
    'step (an Exception or a BaseException that is not an Exception), does not touch PROCESS_STACK itself and does not call '
    'pause/kill/fail (those are C03-C05)',
    'cancellation: `task.cancel()` is issued by the harness between two callbacks, on a task that is suspended at an await point (a '
    'bare yield, the future of a WAITING process) or has not started - not on a task that is inside a nested execute() (it is '
    'running); the CancelledError is thrown when the task next runs and is absorbed by the innermost inline await, else ends the task',
    'an await is a bare yield to the loop (asyncio.sleep(0)): the task is ready again at once and the harness picks the order; '
    'waiting processes are resumed by the harness between two callbacks',
    'restore clause, reference value: the "previous value" for the first scope of a task is what the code that created the task '
    'observed at that moment (contextvars: a task starts with a copy of its creator\'s context); the monitors take it from the '
    'implementation\'s own samples at the creation point (on_create hook, call_soon site), not from the model',
    'harness/c18_inline.py (hand-written families of inline awaits, impl-only) is kept as a regression corpus; the same families '
    'and many more now go through the model correspondence (procstack_gen.corpus_inline, random_scenario_inline)',
    'generated programs are finite (a class only launches / executes later classes; callbacks only execute the last, leaf class); '
    'launch() and out() are only called from steps (a callback may run after its process was closed)',
    'callbacks on another process: a process schedules callbacks on its creator (`creator.call_soon(cb)`, act p<k>; nothing when it '
    'has none), from steps and from callbacks; a callback may end by raising an Exception (scn[cbraise]); the generated classes '
    'override the public hook callback_excepted to take a sample and nothing else (the default implementation calls fail(): C03). '
    'That hook runs after the callback\'s scope, in the callback\'s task: expected there is the previous value of that task = what '
    'the code that called call_soon observed at that moment (Process.current() and PROCESS_STACK read at the call_soon site); when '
    'that is not the owner the sample is one more hook outside the scope (F14, hook-outside-scope:callback_excepted); programs stay '
    'finite: callbacks schedule only later callbacks, and a class that callbacks instantiate (directly or through children) only '
    'schedules callbacks that instantiate nothing',
    'the hook clause of the property is a recorded finding (F14): lifecycle hooks fired by transition_to / the constructor / close() '
    'run outside _process_scope; the theorems C18_current_in_scope(_partial) exclude exactly those, C18_full_false proves the literal '
    'statement false of the model, and the monitors report them as hook-outside-scope:<hook>',
]
TRUSTED = [
    'process-stack model lean/PlumpyModel/ProcStack/Model.lean (hand-written; compared with the real Process per callback on '
    'every sample of Process.current() and PROCESS_STACK, the ready set, the parked set and the loop-level sample)',
    'contextvars (a task copies the context of its creator), asyncio task scheduling, nest_asyncio re-entrancy: assumed contracts '
    'stated at the top of the model, exercised through the real libraries',
    'harness/procstack.py: loop subclass that runs one harness-chosen callback per _run_once (outermost and nested loops)',
]

_MODEL_OK = True


# ------------------------------------------------------------------------------------------------- worker side

def explore(ps, scn, cap, rng):
    """all complete schedules of `scn` by depth-first re-execution (choices beyond a prefix default to 0); beyond `cap`
    complete schedules the rest of the budget is spent on random ones -> (runs, exhaustive)"""
    runs, todo, seen = [], [[]], 0
    while todo and seen < cap:
        prefix = todo.pop()
        r = ps.run_impl(scn, prefix)
        seen += 1
        runs.append(r)
        taken = r['taken']
        for i in range(len(taken) - 1, len(prefix) - 1, -1):
            c, n = taken[i]
            for alt in range(c + 1, n):
                todo.append([x for x, _ in taken[:i]] + [alt])
    return runs, not todo


def check_runs(scn, runs, model_ok, name):
    """compare each run with the model, evaluate the monitors; -> summary dict"""
    has_stack = all(o[3] is not None for r in runs for ch in r['chunks'] for o in ch.get('obs', []))
    lines, spans = [], []
    for r in runs:
        ol = pg.op_lines(scn, r)
        spans.append((len(lines), len(ol)))
        lines += ol
    model = common.Model(True).run('procstack', lines) if model_ok else None
    out = dict(name=name, n_runs=len(runs), n_ops=len(lines), divergences=[], failures={}, digests=set(), kinds={}, hooks_outside=set(),
               hooks_inside=set(), max_nest=0, max_tasks=0, max_procs=0, n_div=0, nontrivial=0, n_samples=0, max_inline=0, n_cancel=0,
               n_absorbed_base=0, n_absorbed_cancel=0, n_inline_runs=0, n_on_creator=0, n_cbexc=0, n_sandwich=0, n_cbexc_after_sandwich=0)
    for r, (a, n) in zip(runs, spans):
        il = pg.impl_lines(r, has_stack)
        sched = [c for c, _ in r['taken']]
        case = dict(scenario=scn, schedule=sched, name=name)
        if model is not None:
            ml = model[a:a + n]
            if not has_stack:
                ml = [pg.strip_stacks(x) for x in ml]
            for i, (x, y) in enumerate(zip(il, ml)):
                if x != y:
                    out['n_div'] += 1
                    if len(out['divergences']) < 3:
                        out['divergences'].append(dict(case=case, op_index=i, op=lines[a + i], impl=x, model=y))
                    break
        for sig, clause, detail in pg.monitor(scn, r, r.get('class_of')):
            f = out['failures'].get(sig)
            size = (len(sched), pg.scenario_size(scn))
            if f is None:
                out['failures'][sig] = dict(signature=sig, clause=clause, case=case, detail=detail, count=1, size=size)
            else:
                f['count'] += 1
                if size < tuple(f['size']):
                    f.update(case=case, detail=detail, size=size)
        ticked, owners = set(), set()
        for ch in r['chunks']:
            if ch['op'].startswith('tick'):
                ticked.add(ch['op'])
            for o in ch.get('obs', []):
                out['n_samples'] += 1
                out['kinds'][o[1]] = out['kinds'].get(o[1], 0) + 1
                if pg.is_outside_hook(o[1]):
                    (out['hooks_outside'] if o[2] != o[0] else out['hooks_inside']).add(o[1][2:])
                else:
                    owners.add(o[0])
                if o[1] == pg.CBEXC:
                    out['n_cbexc'] += 1
                    if o[4] and o[4][-1] != o[0] and o[0] in o[4]:   # the hook must find another process on top and the owner below it
                        out['n_cbexc_after_sandwich'] += 1
                elif pg.sandwiched(o[3]):
                    out['n_sandwich'] += 1
        if len(ticked) >= 2 and len(owners) >= 2:
            out['nontrivial'] += 1
            out['digests'].add(common.digest(il))
        out['max_nest'] = max(out['max_nest'], r['max_nest'])
        out['max_tasks'] = max(out['max_tasks'], r['n_tasks'])
        out['max_procs'] = max(out['max_procs'], r['n_procs'])
        out['max_inline'] = max(out['max_inline'], r.get('max_inline', 0))
        out['n_cancel'] += sum(1 for ch in r['chunks'] if ch['op'].startswith('cancel'))
        out['n_absorbed_base'] += r.get('absorbed', []).count('BaseBoom')
        out['n_absorbed_cancel'] += r.get('absorbed', []).count('CancelledError')
        out['n_inline_runs'] += 1 if r.get('max_inline', 0) > 0 else 0
        out['n_on_creator'] += r.get('n_on_creator', 0)
    out['sample'] = dict(line=lines[0], ops=[ch['op'] for ch in runs[0]['chunks'][1:6]], impl=pg.impl_lines(runs[0], has_stack)[:2]) if runs else None
    return out


def job(args):
    kind, payload, model_ok = args
    common.ensure_repo_on_path()
    from harness import procstack as ps
    if kind == 'explore':
        name, scn, cap, seed = payload
        rng = random.Random(seed)
        runs, exhaustive = explore(ps, scn, cap, rng)
        if not exhaustive:
            runs += [ps.run_impl(scn, [], seed=rng.randrange(1 << 30)) for _ in range(cap // 4)]
        res = check_runs(scn, runs, model_ok, name)
        res['exhaustive'] = exhaustive
        res['leaves'] = len(runs)
        return [res]
    if kind == 'random':
        out = []
        for name, scn, n_sched, seed in payload:
            rng = random.Random(seed)
            runs = [ps.run_impl(scn, [], seed=rng.randrange(1 << 30)) for _ in range(n_sched)]
            res = check_runs(scn, runs, model_ok, name)
            res['exhaustive'] = None
            out.append(res)
        return out
    if kind == 'replay':
        scn, sched = payload
        r = ps.run_impl(scn, sched)
        return [check_runs(scn, [r], model_ok, 'replay')], r
    raise ValueError(kind)


# ------------------------------------------------------------------------------------------------- check side

def run(ctx):
    rng = ctx.rng
    deep = ctx.thorough
    cap = 20000 if deep else 6000
    jobs = []
    for name, scn in pg.corpus():
        jobs.append(('explore', (name, scn, cap, rng.randrange(1 << 30)), ctx.model.available))
    # diverging cases found by the normal run are re-run (and their neighbourhood: every schedule of the scenario) in search mode
    for h in getattr(ctx, 'hints', [])[:10]:
        c = h.get('case') or {}
        if 'scenario' in c:
            jobs.append(('explore', ('hint', c['scenario'], 2000, rng.randrange(1 << 30)), ctx.model.available))
    n_small = 60 if not deep else 300      # random small scenarios, all interleavings (capped)
    for i in range(n_small):
        scn = small_random(rng)
        jobs.append(('explore', (f'small{i}', scn, 400 if not deep else 3000, rng.randrange(1 << 30)), ctx.model.available))
    n_rand = 1400 if not deep else 15000   # random scenarios x random schedules
    per = 8 if not deep else 12
    batch = []
    for i in range(n_rand):
        batch.append((f'rand{i}', pg.random_scenario(rng, big=deep), per, rng.randrange(1 << 30)))
        if len(batch) == 25:
            jobs.append(('random', batch, ctx.model.available))
            batch = []
    if batch:
        jobs.append(('random', batch, ctx.model.available))
    # -- children awaited inline, BaseException endings, cancellation (generated after the streams above: their inputs are unchanged)
    for name, scn in pg.corpus_inline():
        jobs.append(('explore', (name, scn, cap, rng.randrange(1 << 30)), ctx.model.available))
    for i in range(30 if not deep else 200):
        scn = small_random(rng, pg.random_scenario_inline)
        jobs.append(('explore', (f'small-inline{i}', scn, 400 if not deep else 3000, rng.randrange(1 << 30)), ctx.model.available))
    batch = []
    for i in range(500 if not deep else 8000):
        batch.append((f'rand-inline{i}', pg.random_scenario_inline(rng, big=deep), per, rng.randrange(1 << 30)))
        if len(batch) == 25:
            jobs.append(('random', batch, ctx.model.available))
            batch = []
    if batch:
        jobs.append(('random', batch, ctx.model.available))

    # -- callbacks scheduled on the creator, callbacks that raise (callback_excepted); again generated after everything above
    for name, scn in pg.corpus_cbexc():
        jobs.append(('explore', (name, scn, cap, rng.randrange(1 << 30)), ctx.model.available))
    for i in range(30 if not deep else 200):
        scn = small_random(rng, pg.random_scenario_cbexc)
        jobs.append(('explore', (f'small-cbexc{i}', scn, 400 if not deep else 3000, rng.randrange(1 << 30)), ctx.model.available))
    batch = []
    for i in range(500 if not deep else 8000):
        batch.append((f'rand-cbexc{i}', pg.random_scenario_cbexc(rng, big=deep), per, rng.randrange(1 << 30)))
        if len(batch) == 25:
            jobs.append(('random', batch, ctx.model.available))
            batch = []
    if batch:
        jobs.append(('random', batch, ctx.model.available))

    jobs.sort(key=lambda j: j[0] != 'explore')   # the long enumerations first (the inputs do not depend on the order)
    with mp.Pool(ctx.workers) as pool:
        results = [r for rs in pool.imap_unordered(job, jobs, chunksize=1) for r in rs]

    failures, divergences = {}, []
    digests, kinds = set(), {}
    hooks_outside, hooks_inside = set(), set()
    tot = dict(n_runs=0, n_ops=0, n_div=0, nontrivial=0, n_samples=0, n_cancel=0, n_absorbed_base=0, n_absorbed_cancel=0, n_inline_runs=0,
               n_on_creator=0, n_cbexc=0, n_sandwich=0, n_cbexc_after_sandwich=0)
    exhaustive_scn, capped_scn, leaves = 0, [], 0
    mx = dict(max_nest=0, max_tasks=0, max_procs=0, max_inline=0)
    for r in results:
        for k in tot:
            tot[k] += r[k]
        for k in mx:
            mx[k] = max(mx[k], r[k])
        digests |= r['digests']
        hooks_outside |= r['hooks_outside']
        hooks_inside |= r['hooks_inside']
        for k, v in r['kinds'].items():
            kinds[k] = kinds.get(k, 0) + v
        divergences += r['divergences']
        if r['exhaustive'] is True:
            exhaustive_scn += 1
            leaves += r['leaves']
        elif r['exhaustive'] is False:
            capped_scn.append(r['name'])
        for sig, f in r['failures'].items():
            g = failures.get(sig)
            if g is None:
                failures[sig] = f
            else:
                g['count'] += f['count']
                if tuple(f['size']) < tuple(g['size']):
                    g.update(case=f['case'], detail=f['detail'], size=f['size'])
    divergences.sort(key=lambda d: (len(d['case']['schedule']), pg.scenario_size(d['case']['scenario'])))
    # smallest failing input first; failures that are not the recorded hook finding before it
    prio = ['current-wrong', 'scope-assertion-failed', 'loop-context-wrong', 'stack-not-restored', 'hook-current-unexpected']

    def rank(f):
        head = f['signature'].split(':')[0]
        return (head == 'hook-outside-scope', prio.index(head) if head in prio else len(prio), tuple(f['size']))
    fl = sorted(failures.values(), key=rank)
    for f in fl:
        f['detail'] = dict(f['detail'], occurrences=f.pop('count'))
        f.pop('size')
    ctx.note(f"lifecycle hooks observed with current() != owner (outside _process_scope): {sorted(hooks_outside)}")
    ctx.note(f"lifecycle hooks observed with current() == owner: {sorted(hooks_inside)}")
    if capped_scn:
        ctx.note(f'scenarios whose interleavings exceeded the cap (explored partially + random schedules): {capped_scn}')
    samples = [r['sample'] for r in results[:3] if r.get('sample')]
    # regression corpus (impl-only, hand-written): the inline-await families that first exposed the seeded change C18-r2-m1
    from harness import c18_inline
    inline_stats, inline_fails = c18_inline.run_stream(ctx.thorough)
    fl = ([f for f in fl if not f['signature'].startswith('hook-outside-scope:')] + inline_fails[:5]
          + [f for f in fl if f['signature'].startswith('hook-outside-scope:')])
    n_model_runs = tot['n_runs']
    tot['n_runs'] += inline_stats['runs']
    return dict(
        evaluations=tot['n_runs'], distinct_nontrivial=len(digests),
        rule='one evaluation = one complete run of a scenario (generated Process classes) under one schedule on the real code, '
             'compared with the model after every callback; non-trivial = at least two tasks ticked and in-scope samples of at least '
             'two processes; distinct = distinct observation streams among those',
        samples=samples, traces_validated=n_model_runs - tot['n_div'] if ctx.model.available else 0,
        divergences=divergences[:50], failures=fl, exhaustive=False,
        histograms=dict(code_point_kinds=kinds, callbacks_compared=tot['n_ops'], samples_of_current=tot['n_samples'],
                        scenarios_all_interleavings=exhaustive_scn, schedules_in_exhaustive_scenarios=leaves,
                        scenarios_capped=len(capped_scn), nontrivial_runs=tot['nontrivial'],
                        hooks_outside_scope=sorted(hooks_outside), hooks_inside_scope=sorted(hooks_inside),
                        max_nested_execute_depth=mx['max_nest'], max_tasks=mx['max_tasks'], max_processes=mx['max_procs'],
                        divergent_runs=tot['n_div'],
                        runs_with_inline_awaited_child=tot['n_inline_runs'], max_inline_await_depth=mx['max_inline'],
                        cancel_requests=tot['n_cancel'], baseexceptions_absorbed_by_awaiting_parent=tot['n_absorbed_base'],
                        cancellations_absorbed_by_awaiting_parent=tot['n_absorbed_cancel'],
                        callbacks_scheduled_on_creator=tot['n_on_creator'], callback_excepted_samples=tot['n_cbexc'],
                        samples_with_a_process_twice_on_the_stack_around_another=tot['n_sandwich'],
                        callback_excepted_samples_after_such_a_scope=tot['n_cbexc_after_sandwich'],
                        inline_regression_corpus=inline_stats),
    )


def small_random(rng, gen=pg.random_scenario):
    """random scenario small enough for all its interleavings: <= 3 top-level processes, short codes, <= 2 awaits per step"""
    while True:
        scn = gen(rng)
        n_aw = sum(st['code'].count('a') for c in scn['classes'] for st in c) + sum(c.count('a') for c in scn['cbs'])
        if len(scn['top']) <= 3 and n_aw <= 4 and pg.scenario_size(scn) <= 18:
            return scn


def replay(ctx, failure):
    case = failure['case']
    if case.get('inline'):
        from harness import c18_inline
        obs, states = c18_inline.run_family(case['depth'], case['awaits'], case['ending'], case['cancel_at'])
        return dict(observations=[list(o) for o in obs], states=states,
                    failures=['c18-scope-leaked-after-baseexception'] if c18_inline.violations(obs) else [])
    scn = json.loads(json.dumps(case['scenario']))
    (res,), r = job(('replay', (scn, case['schedule']), ctx.model.available))
    common.ensure_repo_on_path()
    ops = pg.op_lines(scn, r)
    model = ctx.model.run('procstack', ops)
    sigs = sorted(res['failures'])
    return dict(ops=ops, impl=pg.impl_lines(r), model=model, finals=r['finals'], error=r['error'],
                failures=[s for s in sigs if not s.startswith('hook-outside-scope:')],
                known_finding_F14=[s for s in sigs if s.startswith('hook-outside-scope:')], divergences=res['divergences'])
