"""C07 — save, load, save again yields the same bundle and the same observable process."""
import multiprocessing as mp

from harness import common

PROPERTY = 'C07'
LEAN_PROPS = 'PlumpyModel.Props.C07'
ASSUMPTIONS = [
    'snapshots are taken with plumpy.Bundle(process) inside the public ENTERED_STATE callback (every state entry, plus the '
    'freshly created process) and at every paused point (pause() requested before each callback position of the run on the '
    'deterministic loop harness/detloop.py, and from inside every state entry so that chains of synchronous steps are paused '
    'between two steps; snapshot as soon as the process reports paused, and again when quiescent)',
    'each snapshot travels through copy.deepcopy, pickle and yaml.dump/yaml.load(Loader=yaml.Loader) and is unbundled in a '
    'fresh event loop; loaders: default, a custom ObjectLoader installed with set_object_loader (G), a custom ObjectLoader '
    'passed in the save context (C; loaded both without and with that loader in the load context)',
    'programs: harness.pm corpus and random programs (incl. work chains awaiting futures), plain processes with inputs, '
    'nested outputs, Continue args/kwargs, Wait msg/data, unsuccessful/excepted/killed outcomes, and work chains generated '
    'from nested outlines (if_/elif_/else_, while_, return_) whose oracle counters live in the context',
    'the persisted view of the original is read with public accessors plus the state object, `_paused`, `_pre_paused_status`, '
    'the listener set and the position/child of the stepper objects (no public view exists for these)',
    'exceptions are compared as (class, args), listener objects as their class, uuid / creation time as opaque atoms; '
    'the traceback text of an EXCEPTED state is excluded (property text)',
    'a state whose payload holds a live awaitable (a work chain waiting on futures) cannot be saved by the real code '
    '(copy.deepcopy raises); model and harness must agree on which snapshots these are; they are counted, not failures',
]
ASSUMPTIONS.append(
    'impl-only stream harness/props/c07_odd.py: three hand-written classes with unusual definitions (Savable mixin after Process in '
    'the bases; a terminal hook raising after super(), i.e. excepting after the future was resolved; an output emitted from '
    'on_finished) are saved at every state entry, sent through the three media, loaded (current loop own / foreign / none) and '
    'saved again; decided by the round-trip clauses on the real objects, no model')
TRUSTED = ['persistence model lean/PlumpyModel/Persist/Model.lean (hand-written mirror of Savable / Process / state classes / '
           'steppers save+load), compared key by key with the real bundle and with the view of the re-loaded process',
           'copy.deepcopy, pickle, PyYAML (identity on bundles in the model; exercised through the real libraries)',
           'harness.persist_gen.view_of: the abstraction from a real process to the persisted view']


# ---------------------------------------------------------------------------------------------------------------
def _advance(d):
    if d.tick():
        return True
    return d.wake()


def run_case(case):
    """case = dict(name, prog, inputs, pid, status0, modes, kind='entries'|'pause', pos)
    -> dict(records=[{where, mode, line, impl:{medium: line}|'err:unsavable'}], failures=[...], hist={...})"""
    common.ensure_repo_on_path()
    import asyncio
    from harness import persist_gen as pg, detloop
    import plumpy
    from plumpy import loaders

    import sys
    # a failed deepcopy of a live future leaves a half-built event loop object whose __del__ complains: not our business
    sys.unraisablehook = lambda *a, **k: None
    modes = case['modes']
    failures, pending, hist = [], [], {}

    def bump(k):
        hist[k] = hist.get(k, 0) + 1

    def fail(sig, clause, where, mode, detail):
        failures.append(dict(signature=sig, clause=clause, case=dict(case, where=where, mode=mode), detail=detail))

    def save_ctx(mode):
        if mode == 'R':
            return plumpy.LoadSaveContext(loader=pg.RegistryLoader({'answer': 42}))
        return plumpy.LoadSaveContext(loader=pg.PrefixLoader()) if mode == 'C' else None

    def snapshot(d, where):
        p = d.p
        try:
            view = pg.view_of(p)
        except Exception as e:  # noqa
            fail('view-raised', 'the process can be observed', where, '-', f'{type(e).__name__}: {e}')
            return
        live = pg.is_live(view)
        label = p.state.value
        for mode in modes:
            line = pg.model_line(mode, d.cls, d.block, view)
            rec = dict(where=where, mode=mode, line=line, label=label, live=live)
            try:
                b = plumpy.Bundle(p, save_ctx(mode))
            except Exception as e:  # noqa
                rec['impl'] = 'err:unsavable'
                rec['exc'] = type(e).__name__
                if not live:
                    fail('save-raised', 'a process without live awaitables can be saved', where, mode, f'{type(e).__name__}: {e}')
                else:
                    bump('unsavable:' + label)
                pending.append(rec)
                continue
            copies, bad = {}, None
            for m in pg.MEDIA:
                try:
                    copies[m] = pg.through(m, b)
                except Exception as e:  # noqa
                    bad = (m, f'{type(e).__name__}: {e}')
                    break
            if bad is not None:
                rec['impl'] = 'err:unsavable'
                if not live:
                    fail(f'medium-raised:{bad[0]}', 'the bundle travels through the medium', where, mode, bad[1])
                else:
                    bump('unsavable-at-medium:' + label)
                pending.append(rec)
                continue
            if live:
                bump('live-but-copied:' + label)
            rec.update(flat=pg.flat_bundle(b), copies=copies, obs=pg.accessors(p))
            pending.append(rec)
            bump(f'snapshot:{label}:{where.split("@")[0]}:{mode}')

    d = None
    if 'G' in modes:
        loaders.set_object_loader(pg.PrefixLoader())
    try:
        kw = dict(inputs=case.get('inputs'), pid=case.get('pid'), status0=case.get('status0'), listener=case.get('listener', True))
        if case['kind'] == 'entries':
            d = pg.Drive(case['prog'], on_entered=lambda dd: snapshot(dd, f'entered@{len(dd.entered) - 1}'), **kw)
            snapshot(d, 'entered@0')
            d.run_to_end()
        elif case['kind'] == 'pause_entry':
            def req(dd):
                if len(dd.entered) - 1 == case['pos'] and not dd.p.has_terminated():
                    try:
                        dd.p.pause('taking a break')
                    except Exception as e:  # noqa
                        bump('pause-raised:' + type(e).__name__)
            d = pg.Drive(case['prog'], on_entered=req, **kw)
            n = 0
            while not d.p.paused and not d.p.has_terminated() and n < 300 and _advance(d):
                n += 1
            if d.p.paused and not d.p.has_terminated():
                snapshot(d, f'pausede@{case["pos"]}')
                if d.quiesce() and d.p.paused and not d.p.has_terminated():
                    snapshot(d, f'pausedeq@{case["pos"]}')
        else:
            d = pg.Drive(case['prog'], **kw)
            for _ in range(case['pos']):
                if not _advance(d):
                    break
            if not d.p.has_terminated():
                try:
                    d.p.pause('taking a break')
                except Exception as e:  # noqa  (pause is C05's business)
                    bump('pause-raised:' + type(e).__name__)
                n = 0
                while not d.p.paused and not d.p.has_terminated() and n < 100 and d.tick():
                    n += 1
                if d.p.paused and not d.p.has_terminated():
                    snapshot(d, f'paused@{case["pos"]}')
                    if d.quiesce() and d.p.paused and not d.p.has_terminated():
                        snapshot(d, f'pausedq@{case["pos"]}')
                    if case['pos'] % 2 == 0 and not d.p.has_terminated():
                        # terminated while paused, saved after the transition has completed (not from inside a hook)
                        try:
                            d.p.kill('killed while paused')
                        except Exception as e:  # noqa  (kill is C04's business)
                            bump('kill-raised:' + type(e).__name__)
                        d.quiesce()
                        if d.p.has_terminated():
                            snapshot(d, f'killedpaused@{case["pos"]}')
        d.abandon()

        # load every copy in a fresh event loop, save again, compare
        records = []
        for rec in pending:
            if 'copies' not in rec:
                records.append(dict(where=rec['where'], mode=rec['mode'], line=rec['line'], impl=rec['impl']))
                continue
            where, mode, impl = rec['where'], rec['mode'], {}
            for mi, m in enumerate(pg.MEDIA):
                loop = asyncio.new_event_loop()
                # the loading thread's current loop: the one handed to the load, another one, or none at all
                detloop.use_loop(loop, foreign=(False, True, 'none')[(mi + len(records)) % 3])
                try:
                    arrived = pg.flat_bundle(rec['copies'][m])
                    if arrived != rec['flat']:
                        fail(f'medium-altered:{m}', 'the bundle arrives unchanged', where, mode, pg.first_diff(rec['flat'], arrived))
                    lkw = dict(loop=loop)
                    if mode == 'C' and mi == 1:
                        lkw['loader'] = pg.PrefixLoader()          # the loader may also be handed to the load
                    if mode == 'R':
                        lkw['loader'] = pg.RegistryLoader({'answer': 42})      # ... and must be when it has no default constructor
                    load_ctx = plumpy.LoadSaveContext(**lkw)
                    try:
                        q = rec['copies'][m].unbundle(load_ctx)
                    except Exception as e:  # noqa
                        fail('load-raised', 'a saved process can be loaded', where, mode, f'{m}: {type(e).__name__}: {e}')
                        impl[m] = ' '.join(arrived) + ' | err:load'
                        continue
                    try:
                        after_load = pg.flat_bundle(rec['copies'][m])
                        if after_load != arrived:
                            fail('load-mutated-bundle', 'loading leaves the bundle as it is (it can be loaded again, or kept)', where, mode,
                                 dict(medium=m, first_difference=pg.first_diff(arrived, after_load)))
                    except Exception as e:  # noqa
                        fail('load-mutated-bundle', 'loading leaves the bundle as it is', where, mode, f'{m}: {type(e).__name__}: {e}')
                    try:
                        # with the default loader (no save context needed) every other re-save REUSES the context object the load
                        # was given: a context belongs to its caller, a load must not leave anything behind in it
                        reuse = mode == 'D' and (mi + len(records)) % 2 == 0
                        again = pg.flat_bundle(plumpy.Bundle(q, load_ctx if reuse else save_ctx(mode)))
                    except Exception as e:  # noqa
                        again = None
                        fail('resave-raised', 'the loaded process can be saved again', where, mode, f'{m}: {type(e).__name__}: {e}')
                    if again is not None and again != rec['flat']:
                        fail('resave-differs', 'save, load, save yields an identical bundle', where, mode,
                             dict(medium=m, first_difference=pg.first_diff(rec['flat'], again)))
                    obs2 = pg.safe_accessors(q)
                    for k, v in rec['obs'].items():
                        if k not in obs2 or obs2[k] != v:
                            fail(f'accessor:{k}', f'the loaded process reports the same {k}', where, mode,
                                 dict(medium=m, original=repr(v)[:200], loaded=repr(obs2.get(k, '<missing>'))[:200]))
                    try:
                        impl[m] = ' '.join(arrived) + ' | ' + ' '.join(pg.view_of(q))
                    except Exception as e:  # noqa
                        impl[m] = ' '.join(arrived) + f' | err:view:{type(e).__name__}'
                finally:
                    loop.close()
            records.append(dict(where=where, mode=mode, line=rec['line'], impl=impl, label=rec['label']))
        return dict(records=records, failures=failures, hist=hist)
    finally:
        if 'G' in modes:
            loaders.set_object_loader(None)
        if d is not None:
            d.abandon()


# ---------------------------------------------------------------------------------------------------------------
def gen_cases(ctx):
    common.ensure_repo_on_path()
    from harness import persist_gen as pg, pm, outline_gen as og
    rng = ctx.rng
    # search mode (a proof obligation or the correspondence broke): a fresh, medium-sized sample — the quick set has just been
    # run through the monitors without a failure — plus the programs of the diverging cases
    search = getattr(ctx, 'search', False) and ctx.tier != 'thorough'
    thorough = ctx.thorough and not search

    if search:
        import random
        rng = random.Random(ctx.seed * 7919 + 4242)

    def size(quick, thorough_, search_):
        return search_ if search else thorough_ if thorough else quick
    programs = []      # (name, prog, inputs)
    if search:
        for h in getattr(ctx, 'hints', [])[:20]:
            try:
                c = h['case']
                programs.append(('hint:' + c['name'], _fix_prog(c['prog']) if isinstance(next(iter(c['prog'].get('fns', {0: 0})), 0), str) else c['prog'],
                                 c.get('inputs')))
            except Exception:
                pass
    for name, prog in ((n, p) for n, p in pm.CORPUS.items() if n not in ('RetAwaitable', 'MissingOut')):   # its result is a live awaitable object
        programs.append((f'pm:{name}', prog, None))
    for name, prog in pg.PROC_CORPUS.items():
        programs.append((f'pg:{name}', prog, {'a': 1, 'b': (1, 2), 'ns': {'d0': {'deep': [0]}}}))
        programs.append((f'pg:{name}/noinputs', prog, None))
    for i in range(size(40, 400, 100)):
        programs.append((f'pmrand{i}', pm.random_prog(rng), None))
    for i in range(size(90, 900, 250)):
        programs.append((f'pgrand{i}', pg.random_proc(rng), pg.random_inputs(rng)))
    # generated work chains: every outline shape with <= N instructions + random nested outlines
    nshape = 0
    full = 3 if not thorough else 4
    for n in range(1, full + 2):
        shapes = list(og.shapes(n))
        if n > full:                                  # the next size: a seeded sample
            shapes = rng.sample(shapes, size(120, 1500, 300))
        for sh in shapes:
            block = og.number(sh)
            nshape += 1
            tabs = {'S': {}, 'P': {p: [True, True] for p in range(8)}}
            programs.append((f'shape{nshape}', {'kind': 'outline', 'block': block, 'tabs': tabs}, None))
            if thorough or nshape % 3 == 0:
                programs.append((f'shape{nshape}r', {'kind': 'outline', 'block': block, 'tabs': _prune(block, og.random_tabs(rng, ids=4))},
                                 {'a': nshape}))
    for i in range(size(70, 800, 200)):
        block = og.random_block(rng, rng.randint(1, 3))
        programs.append((f'outline{i}', {'kind': 'outline', 'block': block, 'tabs': _prune(block, og.random_tabs(rng))},
                         rng.choice([None, {'a': [i]}])))
    cases = []
    for idx, (name, prog, inputs) in enumerate(programs):
        base = dict(name=name, prog=prog, inputs=inputs, pid=(idx if idx % 2 == 0 else None),
                    status0=('busy with it' if idx % 3 else None), listener=idx % 4 != 3)
        cases.append(dict(base, kind='entries', modes=['D', 'C']))
        cases.append(dict(base, kind='entries', modes=['G']))
        if idx % 3 == 1:
            cases.append(dict(base, kind='entries', modes=['R']))
        try:
            n, nent = pg.profile(prog, inputs=inputs)
        except Exception:
            n, nent = 0, 0
        step = 1 if (thorough or name.startswith(('pm:', 'pg:')) or n <= 6) else 2
        for pos in range(0, n + 1, step):
            cases.append(dict(base, kind='pause', pos=pos, modes=['D', 'C'] if (pos + idx) % 3 else ['G']))
        # a pause requested from inside the k-th state entry (pauses a chain of synchronous steps between two steps)
        for k in range(1, max(nent - 1, 1), 1 if (thorough or nent <= 7) else 2):
            cases.append(dict(base, kind='pause_entry', pos=k, modes=['D', 'C'] if (k + idx) % 3 else ['G']))
    return cases, len(programs)


def _prune(block, tabs):
    from harness.props import c09
    return c09.prune(block, tabs)


def _jsonable(case):
    c = dict(case)
    return c


def run(ctx):
    cases, nprog = gen_cases(ctx)
    with mp.Pool(ctx.workers) as pool:
        results = pool.map(run_case, cases, chunksize=16)
    # model
    lines, owners = [], []
    for ci, res in enumerate(results):
        for ri, rec in enumerate(res['records']):
            lines.append(rec['line'])
            owners.append((ci, ri))
    chunks = [lines[i:i + 4000] for i in range(0, len(lines), 4000)]
    outs = ctx.model.run_parallel('persist', chunks) if lines else []
    model = [l for ch in outs for l in ch] if outs is not None else None
    divergences, failures, hist = [], [], {}
    distinct = set()
    n_round_trips = 0
    # impl-only: unusual but legal class definitions (base order, hooks failing / emitting after the future was resolved)
    from harness.props import c07_odd
    with mp.Pool(1, maxtasksperchild=1) as pool:
        odd = pool.apply(c07_odd.run_stream)
    failures.extend(odd['failures'])
    hist['odd_class_round_trips'] = odd['round_trips']
    for ci, res in enumerate(results):
        failures.extend(res['failures'])
        for k, v in res['hist'].items():
            hist[k] = hist.get(k, 0) + v
    for li, (ci, ri) in enumerate(owners):
        rec = results[ci]['records'][ri]
        impls = [rec['impl']] if isinstance(rec['impl'], str) else [rec['impl'].get(m, 'missing') for m in ('deepcopy', 'pickle', 'yaml')]
        n_round_trips += len(impls)
        if rec.get('label') not in (None, 'created'):
            distinct.add(rec['line'])
        if model is None:
            continue
        m = model[li]
        for j, il in enumerate(impls):
            if il != m:
                detail = None
                if ' | ' in il and ' | ' in m:
                    from harness import persist_gen as pg
                    a, b = il.split(' | '), m.split(' | ')
                    detail = dict(bundle_first_difference=pg.first_diff(a[0].split(), b[0].split()) if a[0] != b[0] else None,
                                  view_impl=a[1], view_model=b[1])
                divergences.append(dict(case=dict(cases[ci], where=rec['where'], mode=rec['mode']), medium=j, line=rec['line'],
                                        impl=il[:3000], model=m[:3000], detail=detail))
                break
    return dict(
        evaluations=n_round_trips, distinct_nontrivial=len(distinct),
        rule='one evaluation = one snapshot through one medium (save, copy, load in a fresh loop, save again, accessors, '
             'bundle and re-loaded view compared with the model); distinct = distinct (class, loader mode, persisted view) '
             'lines in a state other than CREATED',
        samples=[dict(line=lines[i][:400], model=(model[i][:400] if model else None)) for i in (0, len(lines) // 2, len(lines) - 1)] if lines else [],
        traces_validated=len(lines) if model is not None else 0,
        divergences=divergences, failures=failures, exhaustive=False,
        histograms=dict(snapshots=hist, programs=nprog, cases=len(cases), model_lines=len(lines)),
    )


def replay(ctx, failure):
    if 'odd_class' in failure['case']:
        from harness.props import c07_odd
        with mp.Pool(1, maxtasksperchild=1) as pool:
            odd = pool.apply(c07_odd.run_stream)
        return dict(failures=[dict(signature=f['signature'], clause=f['clause'], case=f['case'], detail=str(f['detail'])[:600])
                              for f in odd['failures']])
    case = {k: v for k, v in failure['case'].items() if k not in ('where', 'mode')}
    case['prog'] = _fix_prog(case['prog'])
    res = run_case(case)
    lines = [r['line'] for r in res['records']]
    model = ctx.model.run('persist', lines) if lines else []
    return dict(failures=[dict(signature=f['signature'], clause=f['clause'], where=f['case'].get('where'), mode=f['case'].get('mode'),
                               detail=str(f['detail'])[:600]) for f in res['failures']],
                records=[dict(where=r['where'], mode=r['mode'], line=r['line'], impl=r['impl'], model=(model[i] if model else None))
                         for i, r in enumerate(res['records'])][:6])


def _fix_prog(prog):
    """JSON round trip of a program (keys become strings, tuples lists)"""
    if prog['kind'] == 'outline':
        from harness.props import c08
        return dict(kind='outline', block=c08.fix_block(prog['block']),
                    tabs={'S': {int(k): v for k, v in prog['tabs'].get('S', {}).items()},
                          'P': {int(k): v for k, v in prog['tabs'].get('P', {}).items()}})
    if 'outs' in prog or 'inputs' in prog:
        fns = {}
        for k, (aw, oc) in prog['fns'].items():
            oc = list(oc)
            if oc[0] == 'cont':
                oc = ('cont', oc[1], [tuple(a) if isinstance(a, list) else a for a in oc[2]], {int(a): b for a, b in oc[3].items()})
            else:
                oc = tuple(oc)
            fns[int(k)] = (aw, oc)
        outs = {int(k): [tuple(x) for x in v] for k, v in (prog.get('outs') or {}).items()}
        return dict(kind='proc', nfut=0, fns=fns, outs=outs)
    from harness import pm
    return pm.fix_case(dict(prog=prog, schedule={}))[0]
