"""C08 — placeholder (written next)"""


def fix_block(b):
    out = []
    for i in b:
        if i[0] == 'W':
            out.append(('W', i[1], fix_block(i[2])))
        elif i[0] == 'I':
            out.append(('I', [(p, fix_block(bb)) for p, bb in i[1]]))
        else:
            out.append(tuple(i))
    return out
