"""C08 — resuming from any checkpoint reproduces the uninterrupted execution."""
import itertools
import multiprocessing as mp

from harness import common

PROPERTY = 'C08'
LEAN_PROPS = 'PlumpyModel.Props.C08'
ASSUMPTIONS = [
    'paused points (impl-only, decided by the same clauses against the uninterrupted run): pause() is requested before every callback '
    'position of the run (a sample for long runs) - also while a step is in flight -, the checkpoint is written from the '
    'on_process_paused notification of a saved listener, the instance abandoned, the checkpoint loaded in a fresh loop (current loop '
    'own / foreign / none), found paused, played and run to its end',
    'step boundaries = state entries (public ENTERED_STATE callback) of non-terminal states, boundary 0 = the freshly created '
    'process; at a crash point the process is saved with plumpy.Bundle inside the callback, the copy travels through '
    'deepcopy / pickle / YAML (alternating), the running instance is abandoned (its stepping task cancelled, its loop closed; '
    'whatever it still does inside the current callback is ignored) and the copy is unbundled and continued in a fresh event loop',
    'crash points: every subset of <= M boundaries (M = 2 quick, 3 thorough; sampled when a program has more than the budgeted '
    'number of subsets), i.e. up to M restores in a row',
    'steps depend only on persisted state: plain processes are straight-line programs of Continue / Wait / Stop commands with '
    'args, kwargs, outputs; work chains are generated from nested outlines (depth <= 3) whose oracle tables are class constants '
    'and whose oracle counters and call trace live in the context',
    'the same external resume values are replayed after each restore (resume value = 100 + index of the waiting callback)',
    'the per-instance call trace used by the monitors is deliberately NOT persisted (each restored instance starts with an '
    'empty one), so a re-executed step shows up twice and a skipped one is missing',
    'model side of a plain chain: a checkpoint index k of the harness (k-th state entry over all instances) is the cut of the '
    'stepping-task callback after the least number of loop iterations whose ENTERED log reaches k; it is taken only if that '
    'configuration is a step boundary (live, no step in flight); the restored instance gets its first callback before the '
    'environment does anything else (the harness creates the stepping task on restore and ticks until quiescent before it wakes '
    'the process up) — this is the class of histories of the theorem',
    'theorem hypotheses: programs without waitOn (plain processes), cuts at step boundaries, no callback of the uninterrupted '
    'run exhausts the model fuel of 1000 loop iterations; histories consist of stepping-task callbacks and resume requests',
]
TRUSTED = ['outline-chain model with stepper save/restore (lean/PlumpyModel/Outline/Model.lean + Persist/Model.lean: runCrash), '
           'compared with the real crash-restore chain of every generated outline (call trace, result, number of restores)',
           'plain processes: crash-restore in the process-control model (lean/PlumpyModel/PM/Model.lean + Persist/Plain.lean: saveCfg, '
           'restoreCfg, crun; the object of PMF.C08_plain_resume_equiv), driven by `pmodel restoreplain` with the environment of this '
           'harness and compared with the real crash-restore chain of every plain program (call trace, final state, outcome, number '
           'of restores); values are interned to integers (the model transports values, it never inspects one)',
           'saveCfg / restoreCfg are the hand-written image, in the process-control model, of what Persist.save / load (C07) keep of a '
           'process; C08_plain_bundle_roundtrip shows that everything restoreCfg reads survives Persist.save / load (generated member '
           'tables); that restoreCfg resets everything else as load_instance_state + init() do is tied to the code by this correspondence',
           'outputs and inputs of plain processes are not part of the process-control model: their equality with the uninterrupted '
           'run is decided by the monitors on the real code (and their round trip by C08_continuation_persisted / C07)']


def fix_block(b):
    out = []
    for i in b:
        if i[0] == 'W':
            out.append(('W', i[1], fix_block(i[2])))
        elif i[0] == 'I':
            out.append(('I', [(p, fix_block(bb)) for p, bb in i[1]]))
        else:
            out.append(tuple(i))
    return out


# ---------------------------------------------------------------------------------------------------------------
def execute(prog, inputs, crash):
    """run `prog` with save / abandon / load-in-a-fresh-loop at the boundaries in `crash`.
    -> dict(trace=[...concatenated per-instance traces...], segments, state, outputs, ctx, outcome, restores, error)"""
    import asyncio  # noqa: F401
    from harness import persist_gen as pg, detloop
    import plumpy
    crash = sorted(set(crash))
    todo = list(crash)
    segments, restores, error = [], 0, None
    box = {}

    def hook(dd):
        k = box['base'] + len(dd.entered) - 1
        if todo and k == todo[0] and 'copy' not in box and not dd.p.has_terminated():
            try:
                b = plumpy.Bundle(dd.p)
                box['copy'] = pg.through(pg.MEDIA[(restores + k) % 3], b)
            except Exception as e:  # noqa
                box['error'] = f'save-raised:{type(e).__name__}: {e}'
            box['tlen'] = len(dd.p._trace)
            box['k'] = k

    box['base'] = 0
    d = pg.Drive(prog, inputs=inputs, pid=7, listener=False, on_entered=hook)
    if todo and todo[0] == 0:
        hook(d)
    final = None
    for _ in range(len(crash) + 2):
        # run until a checkpoint was taken, the process terminated, or nothing can happen any more
        guard = 0
        while 'copy' not in box and 'error' not in box and guard < 2000:
            guard += 1
            if d.tick():
                continue
            if d.p.has_terminated() or not d.wake():
                break
        if 'error' in box:
            error = box['error']
            final = d.p
            segments.append(list(d.p._trace))
            break
        if 'copy' not in box:
            final = d.p
            segments.append(list(d.p._trace))
            break
        # crash: abandon this instance, restore the checkpoint in a fresh event loop
        segments.append(list(d.p._trace[:box['tlen']]))
        d.abandon()
        k, copy_ = box['k'], box['copy']
        todo.pop(0)
        box.clear()
        box['base'] = k
        loop = detloop.DetLoop()
        # the restored process is given ITS loop; the current loop of the restoring thread varies (own / another / none)
        loop_mode = ('own', 'foreign', 'none')[(len(segments) + len(str(prog))) % 3]
        detloop.use_loop(loop, foreign={'own': False, 'foreign': True, 'none': 'none'}[loop_mode])
        try:
            q = copy_.unbundle(plumpy.LoadSaveContext(loop=loop))
        except Exception as e:  # noqa
            error = f'restore-raised:{type(e).__name__}: {e}'
            final = None
            break
        restores += 1
        d = pg.Drive(prog, process=q, loop=loop, on_entered=hook, loop_mode=loop_mode)
        d.entered = [q.state.value]
        if todo and todo[0] == k:          # (only when boundary 0 and 1 coincide; not generated)
            todo.pop(0)
    return _finish(d, final, segments, restores, error)


def _finish(d, final, segments, restores, error):
    import plumpy
    from harness import persist_gen as pg
    out = dict(segments=segments, trace=[x for s in segments for x in s], restores=restores, error=error)
    if final is not None:
        try:
            obs = pg.safe_accessors(final)
        except Exception as e:  # noqa
            obs = dict(error=type(e).__name__)
        out.update(state=obs.get('state'), outputs=obs.get('outputs'), ctx=obs.get('ctx'), outcome=obs.get('outcome'),
                   obs_error=obs.get('error'))
        if isinstance(final, plumpy.WorkChain):
            try:
                tr = final.ctx.__dict__.get('trace', []) if final.ctx is not None else []
                out['ptrace'] = list(tr)
                from harness import outline_gen as og
                out['result_token'] = og.result_token(final.result()) if final.state == plumpy.ProcessState.FINISHED else 'err'
            except Exception as e:  # noqa  (e.g. a restored work chain without a context)
                out['obs_error'] = out.get('obs_error') or type(e).__name__
    try:
        d.abandon()
    except Exception:
        pass
    return out


PAUSE_BOX = {}


def _paused_checkpoint_class():
    """a listener that writes the checkpoint AT the paused event (the way a daemon persists a process the moment it is paused);
    importable, because listeners are part of the saved state"""
    import plumpy
    from harness import persist_gen as pg
    g = globals()
    if 'PausedCheckpoint' not in g:
        class PausedCheckpoint(plumpy.ProcessListener):
            def on_process_paused(self, process):
                box = PAUSE_BOX
                if box.get('armed') and 'copy' not in box and 'error' not in box:
                    try:
                        box['copy'] = pg.through(pg.MEDIA[box['medium']], plumpy.Bundle(process))
                    except Exception as e:  # noqa
                        box['error'] = f'save-raised:{type(e).__name__}: {e}'
                    box['tlen'] = len(process._trace)
        PausedCheckpoint.__module__ = __name__
        PausedCheckpoint.__qualname__ = 'PausedCheckpoint'
        g['PausedCheckpoint'] = PausedCheckpoint
    return g['PausedCheckpoint']


def execute_paused(prog, inputs, pos):
    """the same crash / restore chain with the checkpoint taken at a PAUSED point: pause() is requested before callback `pos` of the
    run (possibly while a step is in flight), the checkpoint is written from the `on_process_paused` notification, the instance is
    abandoned, the checkpoint loaded in a fresh loop, played and run to its end.  A pause takes effect at a step boundary, so this
    is a checkpoint at a step boundary."""
    from harness import persist_gen as pg, detloop
    import plumpy
    box = PAUSE_BOX
    box.clear()
    box.update(armed=True, medium=pos % 3)
    segments, restores, error, final = [], 0, None, None
    d = pg.Drive(prog, inputs=inputs, pid=7, listener=False)
    d.p.add_process_listener(_paused_checkpoint_class()())
    for _ in range(pos):
        if not d.tick() and (d.p.has_terminated() or not d.wake()):
            break
    if not d.p.has_terminated():
        try:
            d.p.pause('checkpoint')
        except Exception as e:  # noqa  (pause is C05's business)
            box['error'] = f'pause-raised:{type(e).__name__}'
    guard = 0
    while 'copy' not in box and 'error' not in box and guard < 400 and not d.p.has_terminated() and d.tick():
        guard += 1
    if 'error' in box and not box['error'].startswith('pause-raised'):
        error = box['error']
    if 'copy' not in box or error:
        box['armed'] = False
        final = d.run_to_end()
        segments.append(list(d.p._trace))
        return _finish(d, final, segments, restores, error)
    segments.append(list(d.p._trace[:box['tlen']]))
    d.abandon()
    box['armed'] = False
    loop = detloop.DetLoop()
    loop_mode = ('own', 'foreign', 'none')[pos % 3]
    detloop.use_loop(loop, foreign={'own': False, 'foreign': True, 'none': 'none'}[loop_mode])
    try:
        q = box['copy'].unbundle(plumpy.LoadSaveContext(loop=loop))
    except Exception as e:  # noqa
        return _finish(d, None, segments, restores, f'restore-raised:{type(e).__name__}: {e}')
    restores += 1
    d = pg.Drive(prog, process=q, loop=loop, loop_mode=loop_mode)
    if not q.paused and not q.has_terminated():
        error = 'restored-not-paused: a process checkpointed at its paused event is restored paused'
    final = d.run_to_end()
    segments.append(list(d.p._trace))
    return _finish(d, final, segments, restores, error)


def compare(ref, run):
    """the clauses of C08 on the implementation's observations (independent of the Lean model)"""
    fails = []
    if run['error']:
        fails.append((run['error'].split(':')[0], 'the checkpoint can be saved, loaded and continued', run['error']))
        return fails
    if run['trace'] != ref['trace']:
        kind = 'reexecuted' if len(run['trace']) > len(ref['trace']) else 'skipped' if len(run['trace']) < len(ref['trace']) else 'differs'
        clause = {'reexecuted': 'no step that completed before the checkpoint is executed again',
                  'skipped': 'no step after the checkpoint is skipped',
                  'differs': 'the steps executed after the checkpoint are those of the uninterrupted execution'}[kind]
        fails.append((f'trace:{kind}', clause, dict(segments=run['segments'], reference=ref['trace'])))
    for k, clause in (('outputs', 'the emitted outputs'), ('ctx', 'the context'), ('state', 'the final state'), ('outcome', 'the result')):
        if run.get(k) != ref.get(k):
            fails.append((k, f'{clause} equal those of the uninterrupted execution', dict(resumed=repr(run.get(k))[:300], reference=repr(ref.get(k))[:300])))
    rc, fc = run.get('ctx'), ref.get('ctx')
    if isinstance(rc, dict) and isinstance(fc, dict) and rc == fc and list(rc) != list(fc):
        fails.append(('ctx-order', 'the context equals that of the uninterrupted execution - entries in the order they were stored (a later '
                      'step may iterate over them)', dict(resumed=list(rc), reference=list(fc))))
    if run.get('obs_error'):
        fails.append(('accessor-raised', 'the resumed process can be observed', run['obs_error']))
    return fails


# ---------------------------------------------------------------------------------------------------------------
# plain processes in the process-control model (`pmodel restoreplain`, lean/Driver/PlainRestore.lean)

BAD_OUT = 99        # `raise` code standing for "the step emitted an output its port rejects" (ValueError from out())


class Intern:
    """values of the real program -> the integers of the model.  The model only transports values (it never inspects one), so
    any injective coding is faithful; resume values (100 + index of the waiting callback) are kept as they are."""

    def __init__(self):
        self.tab = {}

    def __call__(self, v):
        if type(v) is int and 100 <= v < 1000:
            return v
        from harness import persist_gen as pg
        key = pg.enc(v)
        if key not in self.tab:
            self.tab[key] = 1000 + len(self.tab)
        return self.tab[key]


def _rejected_output(prog, i):
    return any(port == 'typed_int' and not (type(v) is int) for port, v in (prog.get('outs') or {}).get(i, []))


def plain_fn_tokens(prog, intern):
    """the program as the `fn` entries of `pmodel restoreplain` (same outcome syntax as `pmodel pm`)"""
    out = []
    for i, (aw, oc) in sorted(prog['fns'].items()):
        if _rejected_output(prog, i):
            out.append(f'{i} 0 raise {BAD_OUT}')         # out() raises before the first await and before the step returns
            continue
        if oc[0] == 'cont':
            kws = sorted(oc[3].items())
            s = f"cont {oc[1]} {len(oc[2])} " + ' '.join(str(intern(a)) for a in oc[2]) + f" {len(kws)} " + \
                ' '.join(f'{k}={intern(v)}' for k, v in kws)
        elif oc[0] == 'wait':
            s = f'wait {oc[1]}'
        elif oc[0] == 'stop':
            s = f"stop {'-' if oc[1] is None else intern(oc[1])} {1 if oc[2] else 0}"
        elif oc[0] == 'kill':
            s = 'kill'
        elif oc[0] == 'raise':
            s = f'raise {oc[1]}'
        else:
            raise ValueError(oc)
        out.append(' '.join(f'{i} {aw} {s}'.split()))
    return out


def plain_model_line(prog, crash, intern):
    cs = sorted(set(crash))
    return ' | '.join([' '.join([str(len(cs))] + [str(c) for c in cs])] + plain_fn_tokens(prog, intern))


def plain_impl_line(prog, run, intern):
    """the real crash-restore chain in the output syntax of `pmodel restoreplain`"""
    if run.get('error') or run.get('state') is None:
        return 'err:' + str(run.get('error') or run.get('obs_error'))[:80]
    calls = []
    for t in run['trace']:
        calls.append(f"{t[0]}({','.join(str(intern(a)) for a in t[1])};{','.join(f'{k}={intern(v)}' for k, v in t[2])})")
    oc = run.get('outcome')
    if oc is None:
        out = 'live'
    elif oc[0] == 'finished':
        out = f"finished:{'-' if oc[1] is None else intern(oc[1])}:{1 if oc[2] else 0}"
    elif oc[0] == 'killed':
        out = 'killed'
    else:
        last = run['trace'][-1][0] if run['trace'] else None
        foc = prog['fns'][last][1] if last in prog['fns'] else None
        if last is not None and _rejected_output(prog, last):
            out = f'excepted:user{BAD_OUT}'
        elif foc is not None and foc[0] == 'raise':
            out = f'excepted:user{foc[1]}'
        else:
            out = 'excepted:?' + str(oc[1])[:40]
    return f"trace={' '.join(calls)} state={run['state']} out={out} restores={run['restores']}"


def run_program(job):
    common.ensure_repo_on_path()
    import sys
    import warnings
    sys.unraisablehook = lambda *a, **k: None
    warnings.simplefilter('ignore', RuntimeWarning)     # "coroutine was never awaited" of abandoned instances
    name, prog, inputs, subsets = job['name'], job['prog'], job['inputs'], job['subsets']
    from harness import outline_gen as og
    ref = execute(prog, inputs, [])
    res = dict(name=name, failures=[], lines=[], impl=[], plines=[], pimpl=[], hist={}, runs=0, nontrivial=[])
    intern = Intern()
    if ref['error'] or ref.get('state') is None:
        res['failures'].append(dict(signature='reference-run', clause='the uninterrupted run completes', case=dict(name=name, prog=prog, inputs=inputs, crash=[]),
                                    detail=str(ref['error'])))
        return res
    for crash in subsets:
        try:
            run = execute(prog, inputs, crash)
        except Exception as e:  # noqa  (the resumed process broke in a way the driver did not foresee: a failure, not a crash)
            run = dict(error=f'run-raised:{type(e).__name__}: {e}', restores=0, trace=[], segments=[])
        res['runs'] += 1
        for sig, clause, detail in compare(ref, run):
            res['failures'].append(dict(signature=sig, clause=clause, case=dict(name=name, prog=prog, inputs=inputs, crash=list(crash)),
                                        detail=detail))
        hk = f"restores={run['restores']}"
        res['hist'][hk] = res['hist'].get(hk, 0) + 1
        if run['restores'] >= 1 and len(ref['trace']) >= 2:
            res['nontrivial'].append(hash((name, tuple(crash))))
        if prog['kind'] == 'outline':
            cs = [max(k - 1, 0) for k in sorted(set(crash))]
            res['lines'].append(' '.join([str(len(cs))] + [str(c) for c in cs]) + ' ' + og.case_line(prog['block'], prog['tabs']))
            if run['error'] or 'ptrace' not in run:
                res['impl'].append('err')
            else:
                res['impl'].append(f"trace={','.join(run['ptrace'])} result={run['result_token']} restores={run['restores']}")
        elif prog['kind'] == 'proc':
            res['plines'].append(plain_model_line(prog, crash, intern))
            res['pimpl'].append(plain_impl_line(prog, run, intern))
    # checkpoints taken at a paused point (from the paused notification), pause requested at every callback position
    for pos in job.get('pause_positions', []):
        try:
            run = execute_paused(prog, inputs, pos)
        except Exception as e:  # noqa
            run = dict(error=f'run-raised:{type(e).__name__}: {e}', restores=0, trace=[], segments=[])
        res['runs'] += 1
        for sig, clause, detail in compare(ref, run):
            res['failures'].append(dict(signature='paused:' + sig, clause=clause,
                                        case=dict(name=name, prog=prog, inputs=inputs, crash=[], paused_at=pos), detail=detail))
        hk = f"paused-restores={run['restores']}"
        res['hist'][hk] = res['hist'].get(hk, 0) + 1
    if prog['kind'] == 'proc':          # the uninterrupted run itself is a chain with no crash point
        res['plines'].append(plain_model_line(prog, [], intern))
        res['pimpl'].append(plain_impl_line(prog, dict(ref, restores=0), intern))
    res['ref'] = dict(state=ref['state'], steps=len(ref['trace']))
    return res


# ---------------------------------------------------------------------------------------------------------------
def subsets_of(nb, M, rng, cap):
    """all subsets of {0..nb-1} with <= M elements (the empty one excluded); a seeded sample of `cap` if there are more"""
    subs = [c for m in range(1, M + 1) for c in itertools.combinations(range(nb), m)]
    if len(subs) > cap:
        singles = [c for c in subs if len(c) == 1]
        rest = [c for c in subs if len(c) > 1]
        subs = singles + rng.sample(rest, max(cap - len(singles), 0))
    return subs


def gen_jobs(ctx):
    common.ensure_repo_on_path()
    from harness import persist_gen as pg, pm, outline_gen as og
    from harness.props import c09
    rng = ctx.rng
    thorough = ctx.thorough
    M = 3 if thorough else 2
    cap = 400 if thorough else 70
    programs = []
    for name, prog in pg.PROC_CORPUS.items():
        programs.append((f'pg:{name}', prog, None if prog.get('bare') else {'a': 1, 'ns': {'d0': [0]}}))
        if prog.get('bare'):
            programs.append((f'pg:{name}-empty', prog, {}))
    for name, prog in ((n, p) for n, p in pm.CORPUS.items() if n not in ('RetAwaitable', 'MissingOut')):   # its result is a live awaitable object
        if prog['kind'] == 'proc':
            programs.append((f'pm:{name}', prog, None))
    for i in range(150 if not thorough else 800):
        programs.append((f'pgrand{i}', pg.random_proc(rng), pg.random_inputs(rng)))
    nshape = 0
    full = 3 if not thorough else 4
    for n in range(1, full + 2):
        shapes = list(og.shapes(n))
        if n > full:
            shapes = rng.sample(shapes, 250 if not thorough else 1500)
        for sh in shapes:
            block = og.number(sh)
            if og.depth_of(block) > 3:
                continue
            nshape += 1
            tabs = {'S': {}, 'P': {p: [True, True] for p in range(8)}}
            programs.append((f'shape{nshape}', {'kind': 'outline', 'block': block, 'tabs': tabs}, None))
            if thorough or nshape % 2 == 0:
                programs.append((f'shape{nshape}r', {'kind': 'outline', 'block': block, 'tabs': c09.prune(block, og.random_tabs(rng, ids=4))}, None))
    for i in range(300 if not thorough else 2500):
        block = og.random_block(rng, rng.randint(1, 3))
        programs.append((f'outline{i}', {'kind': 'outline', 'block': block, 'tabs': c09.prune(block, og.random_tabs(rng))},
                         rng.choice([None, {'a': i}])))
    # corpus: checkpoints inside an else_ branch inside a loop, a loop that is left through return_, a step that stops the chain
    programs.append(('corpus:nested', {'kind': 'outline', 'block': [('C', 0), ('W', 0, [('C', 1), ('I', [(1, [('R', 7)]), (None, [('C', 2), ('C', 3)])])]), ('C', 4)],
                                       'tabs': {'S': {1: ['T', None, None]}, 'P': {0: [True, True, True], 1: [False, False, True]}}}, None))
    programs.append(('corpus:stop', {'kind': 'outline', 'block': [('C', 0), ('I', [(0, [('C', 1), ('C', 2)]), (1, [('C', 3)])]), ('C', 4)],
                                     'tabs': {'S': {2: [5]}, 'P': {0: [True]}}}, None))
    jobs = []
    for name, prog, inputs in programs:
        try:
            ncb, nent = pg.profile(prog, inputs=inputs)
        except Exception:
            ncb, nent = 3, 2
        nb = max(nent - 1, 1)              # boundaries 0 .. nent-2 (the last entry is the terminal state)
        # pause requested before every callback of the uninterrupted run (a sample of them for the long ones)
        pp = list(range(0, ncb + 1))
        if len(pp) > (12 if thorough else 5):
            pp = sorted(rng.sample(pp, 12 if thorough else 5))
        jobs.append(dict(name=name, prog=prog, inputs=inputs, subsets=subsets_of(nb, M, rng, cap), boundaries=nb, pause_positions=pp))
    return jobs, M


def run(ctx):
    jobs, M = gen_jobs(ctx)
    with mp.Pool(ctx.workers) as pool:
        results = pool.map(run_program, jobs, chunksize=4)
    lines, impl, owner = [], [], []
    plines, pimpl, powner = [], [], []
    failures, hist = [], {}
    nruns, distinct = 0, set()
    bhist = {}
    for j, r in zip(jobs, results):
        failures.extend(r['failures'])
        nruns += r['runs']
        distinct.update(r['nontrivial'])
        for k, v in r['hist'].items():
            hist[k] = hist.get(k, 0) + v
        b = str(j['boundaries'])
        bhist[b] = bhist.get(b, 0) + 1
        for i, (l, il) in enumerate(zip(r['lines'], r['impl'])):
            lines.append(l); impl.append(il); owner.append((j, i))
        for i, (l, il) in enumerate(zip(r.get('plines', []), r.get('pimpl', []))):
            plines.append(l); pimpl.append(il); powner.append((j, i))
    chunks = [lines[i:i + 3000] for i in range(0, len(lines), 3000)]
    outs = ctx.model.run_parallel('restore', chunks) if lines else []
    model = [l for ch in outs for l in ch] if outs is not None else None
    divergences = []
    if model is not None:
        for l, il, m, (j, i) in zip(lines, impl, model, owner):
            if il != m:
                divergences.append(dict(case=dict(name=j['name'], prog=j['prog'], inputs=j['inputs'], crash=list(j['subsets'][i])),
                                        line=l, impl=il, model=m))
    # plain processes: the same chains through `crun` of lean/PlumpyModel/Persist/Plain.lean (the object of C08_plain_resume_equiv)
    pchunks = [plines[i:i + 3000] for i in range(0, len(plines), 3000)]
    pouts = ctx.model.run_parallel('restoreplain', pchunks) if plines else []
    pmodel_out = [l for ch in pouts for l in ch] if pouts is not None else None
    plain_restores = {}
    if pmodel_out is not None:
        for l, il, m, (j, i) in zip(plines, pimpl, pmodel_out, powner):
            if il != m:
                crash = list(j['subsets'][i]) if i < len(j['subsets']) else []
                divergences.append(dict(case=dict(name=j['name'], prog=j['prog'], inputs=j['inputs'], crash=crash),
                                        stream='plain', line=l, impl=il, model=m))
            hk = m.rsplit('restores=', 1)[-1] if 'restores=' in m else 'bad'
            plain_restores[hk] = plain_restores.get(hk, 0) + 1
    kinds = {}
    for j in jobs:
        k = j['prog']['kind']
        kinds[k] = kinds.get(k, 0) + 1
    return dict(
        evaluations=nruns, distinct_nontrivial=len(distinct),
        rule=f'one evaluation = one crash-restore chain (a subset of <= {M} step boundaries of one program) compared with the '
             'uninterrupted run of the same program; non-trivial = at least one restore happened and the program executes >= 2 calls; '
             'distinct = distinct (program, crash subset)',
        samples=([dict(line=lines[i], impl=impl[i], model=(model[i] if model else None)) for i in (0, len(lines) // 2, len(lines) - 1)] if lines else []) +
                ([dict(stream='plain', line=plines[i], impl=pimpl[i], model=(pmodel_out[i] if pmodel_out else None))
                  for i in (0, len(plines) // 2, len(plines) - 1)] if plines else []),
        traces_validated=(len(lines) if model is not None else 0) + (len(plines) if pmodel_out is not None else 0),
        divergences=divergences, failures=failures, exhaustive=False,
        histograms=dict(restores_per_run=hist, programs=kinds, boundaries_per_program=bhist, M=M, model_lines=len(lines),
                        plain_model_lines=len(plines), plain_model_restores=plain_restores),
    )


def replay(ctx, failure):
    case = failure['case']
    from harness.props import c07
    prog = c07._fix_prog(case['prog'])
    inputs = case.get('inputs')
    ref = execute(prog, inputs, [])
    run_ = execute_paused(prog, inputs, case['paused_at']) if 'paused_at' in case else execute(prog, inputs, case.get('crash', []))
    fails = compare(ref, run_) if not ref['error'] else [('reference-run', 'the uninterrupted run completes', ref['error'])]
    out = dict(reference=dict(trace=ref['trace'], state=ref.get('state'), outputs=repr(ref.get('outputs')), outcome=repr(ref.get('outcome'))),
               resumed=dict(segments=run_['segments'], state=run_.get('state'), outputs=repr(run_.get('outputs')),
                            outcome=repr(run_.get('outcome')), restores=run_['restores'], error=run_['error']),
               failures=[dict(signature=s, clause=c, detail=str(d)[:600]) for s, c, d in fails])
    if prog['kind'] == 'outline':
        from harness import outline_gen as og
        cs = [max(k - 1, 0) for k in sorted(set(case.get('crash', [])))]
        m = ctx.model.run('restore', [' '.join([str(len(cs))] + [str(c) for c in cs]) + ' ' + og.case_line(prog['block'], prog['tabs'])])
        out['model'] = m[0] if m else None
    elif prog['kind'] == 'proc':
        intern = Intern()
        line = plain_model_line(prog, case.get('crash', []), intern)
        m = ctx.model.run('restoreplain', [line])
        out['plain_line'] = line
        out['plain_impl'] = plain_impl_line(prog, run_, intern)
        out['model'] = m[0] if m else None
    return out
