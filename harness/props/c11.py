"""C11 — only spec-conforming inputs create a process; defaults applied, inputs immutable."""
import logging
import multiprocessing as mp

from harness import common, ports_gen as pg

PROPERTY = 'C11'
LEAN_PROPS = 'PlumpyModel.Props.C11'
ASSUMPTIONS = [
    'validators and callable defaults are pure oracles (the harness uses "reject every value mentioning atom n" and constant callables)',
    'value domain: int and float atoms (isinstance = type tag), plain nested dicts; port names and keys are non-empty strings without dots',
    'port names within a namespace are distinct and input dictionaries have distinct keys (Python dicts)',
    'raw_inputs / the caller\'s dictionary staying as given is decided by the correspondence check (comparison with the structure '
    'recorded before construction: values, and which mappings are dicts / frozen), the functional model cannot mutate its argument',
    'every class is constructed twice with equal inputs: both constructions must agree (the spec, a class-level object, is not changed by a construction)',
]
TRUSTED = ['ports model lean/PlumpyModel/Ports/Model.lean (hand-written, compared with real Process construction per case: accept/reject, '
           'exception class, failing port path, parsed tree with frozen/plain tag at every level)']

_LOOP = None


def _loop():
    global _LOOP
    if _LOOP is None:
        import asyncio
        _LOOP = asyncio.new_event_loop()
    return _LOOP


def build_class(top, sub):
    from plumpy import processes

    def define(cls, spec):
        super(P, cls).define(spec)
        pg.set_ns_attrs(spec.inputs, top[0], top[2], top[1], top[3])
        pg.build_ports(spec.inputs, sub)
    P = type('P', (processes.Process,), {})
    P.define = classmethod(define)
    return P


def plain(x):
    if pg.is_mapping(x):
        return {k: plain(v) for k, v in x.items()}
    return x


def struct(x):
    """shape of the caller's structure: which mappings are dicts, which frozen, which atoms"""
    if pg.is_mapping(x):
        return ('D' if isinstance(x, dict) else type(x).__name__, {k: struct(v) for k, v in x.items()})
    return (type(x).__name__, x)


def construct_once(P, raw_items, raw_none, sub):
    inputs = None if raw_none else pg.to_py(('D', raw_items))
    before = struct(inputs)
    r = dict(not_frozen=[], caller_ok=True, raw_ok=True)
    try:
        p = P(inputs=inputs, loop=_loop())
    except Exception as e:  # noqa: construction rejected
        path = ''
        if type(e) is ValueError and e.args and hasattr(e.args[0], 'port'):
            path = ' ' + str(e.args[0].port)
        r['obs'] = f'err {type(e).__name__}{path}'
        r['caller_ok'] = struct(inputs) == before
        return r
    tree = p.inputs
    r['obs'] = 'ok ' + pg.show(tree)
    if not pg.is_frozen(tree):
        r['not_frozen'].append('')
    for path in pg.declared_ns_paths(sub, tree):
        m = tree
        for k in path:
            m = m[k]
        if not (pg.is_mapping(m) and pg.is_frozen(m)):
            r['not_frozen'].append('.'.join(path))
    r['caller_ok'] = struct(inputs) == before
    ri = p.raw_inputs
    r['raw_ok'] = (ri is None and inputs is None) or (ri is not None and inputs is not None and pg.is_frozen(ri)
                                                       and struct(dict(ri)) == before)
    # ... and stay so LATER: what a step can reach through `self.inputs` below the declared (read-only) levels are plain
    # dictionaries of the process's own; changing them in place changes neither the caller's dictionary nor raw_inputs
    if inputs is not None:
        declared = {tuple(q) for q in pg.declared_ns_paths(sub, tree)} | {()}
        probed = list(_plain_dicts(tree, (), declared, inputs))
        for d in probed:
            d['__probe_step__'] = 0
        if struct(inputs) != before:
            r['caller_ok'] = False
        if ri is not None and struct(dict(ri)) != before:
            r['raw_ok'] = False
        for d in probed:
            del d['__probe_step__']
    return r


def _plain_dicts(x, path, declared, given):
    """the plain dictionaries of `inputs` that are the process's own: reached through declared namespace levels (rebuilt by the
    library) and plain dicts (copied by the library).  Not what lies inside an immutable mapping the CALLER supplied (`given` = the
    caller's value at the same path): such an object is handed on as it is, contents included."""
    if not pg.is_mapping(x):
        return
    if given is not None and pg.is_mapping(given) and not isinstance(given, dict):
        return
    if isinstance(x, dict):
        yield x
    elif path not in declared:
        return
    for k, v in x.items():
        g = given.get(k) if (given is not None and pg.is_mapping(given)) else None
        yield from _plain_dicts(v, path + (k,), declared, g)


def run_impl(case):
    top, sub, raw_items, raw_none = case
    common.ensure_repo_on_path()
    logging.disable(logging.CRITICAL)
    try:
        P = build_class(top, sub)
        P.spec()
    except Exception as e:  # noqa: the declaration itself is rejected (invalid plain default)
        return dict(obs='define-err', define=type(e).__name__, not_frozen=[], caller_ok=True, raw_ok=True, second='define-err')
    r = construct_once(P, raw_items, raw_none, sub)
    r['second'] = construct_once(P, raw_items, raw_none, sub)['obs']
    return r


def case_line(case):
    top, sub, raw_items, _ = case
    return pg.enc_top(top, sub) + ' RAW ' + pg.enc_v(('D', raw_items))


def norm_items(items):
    """dictionary semantics: distinct keys at every level"""
    d = {}
    for k, v in items:
        d[k] = (v[0], norm_items(v[1])) if v[0] != 'A' else v
    return list(d.items())


TOPS = [(True, False, None, None), (True, True, 0, None), (False, False, None, None), (True, False, None, 2)]

# minimised earlier failures and known-finding witnesses: always run first
CORPUS = [
    # F21 (fixed by 7c12fde): a namespace default was completed in place; the second construction raised TypeError
    ((True, False, None, None),
     [('a', ('N', True, None, ('D', []), False, True, None,
             [('a', ('N', True, None, None, False, True, None, [('a', ('L', True, None, ('A', 0, 7), False, None))]))]))], [], False),
    # required_override below an unsupplied populate_defaults=False namespace
    ((True, False, None, None),
     [('a', ('N', True, None, None, False, False, None, [('a', ('L', True, 0, ('A', 0, 1), False, None))]))], [], False),
    # optional namespace, empty: accepted although a required port is missing; supplied non-empty: rejected
    ((True, False, None, None), [('a', ('N', False, None, None, False, True, None, [('a', ('L', True, None, None, False, None))]))],
     [('a', ('D', []))], False),
    # dynamic typed namespace, wrong type two levels down
    ((True, False, None, None), [('a', ('N', True, 0, None, True, True, None, []))],
     [('a', ('D', [('x', ('D', [('y', ('D', [('z', ('A', 1, 1))]))]))]))], False),
    # inputs=None
    ((True, False, None, None), [('a', ('L', False, None, None, False, None))], [], True),
]


def gen_cases(ctx):
    rng = ctx.rng
    cases, streams = [], []

    def add(stream, top, sub, items, raw_none=False):
        cases.append((top, sub, norm_items(items), raw_none))
        streams.append(stream)

    for c in CORPUS:
        add('corpus', *c)
    # bounded-exhaustive: every spec with <= 2 nodes (<= 3 in the thorough tier, reduced attribute alphabet for 3) x every input
    # over the small alphabet (capped per spec by sampling when there are too many)
    max_exh = 3 if ctx.thorough else 2
    cap = 24 if ctx.thorough else 10
    n_specs = 0
    for n in range(1, max_exh + 1):
        for f in pg.forests(n, full=(n <= 2)):
            sub = pg.name_forest(f)
            n_specs += 1
            top = TOPS[0] if n_specs % 4 else TOPS[(n_specs // 4) % len(TOPS)]
            all_inputs = list(pg.inputs_for(sub, pg.EXTRAS if n <= 2 else pg.EXTRAS[:2]))
            if len(all_inputs) > cap:
                all_inputs = rng.sample(all_inputs, cap)
            for items in all_inputs:
                add(f'exhaustive{n}', top, sub, items)
    if not ctx.thorough:
        # a sample of the 3-node universe
        pool3 = []
        for f in pg.forests(3, full=False):
            pool3.append(f)
        for f in rng.sample(pool3, min(len(pool3), 1500)):
            sub = pg.name_forest(f)
            ins = list(pg.inputs_for(sub, pg.EXTRAS[:2]))
            for items in rng.sample(ins, min(3, len(ins))):
                add('sample3', TOPS[0], sub, items)
    # random specs up to 6 nodes: inputs biased towards acceptance, then a malformed stream
    n_rand = 60000 if ctx.thorough else 15000
    for i in range(n_rand):
        top, sub = pg.gen_spec(rng, max_nodes=6, depth=2 if rng.random() < 0.8 else 3)
        items = pg.gen_good_items(rng, top, sub, set())
        r = rng.random()
        if r < 0.08:
            add('random-frozen-values', top, sub, pg.freeze_some(rng, ('D', items))[1])
        elif r < 0.68:
            add('random-good', top, sub, items, raw_none=(not items and rng.random() < 0.3))
        elif r < 0.9:
            add('random-malformed', top, sub, pg.mutate_items(rng, sub, items))
        else:
            m = pg.mutate_items(rng, sub, pg.mutate_items(rng, sub, items))
            add('random-malformed', top, sub, m)
    return cases, streams, n_specs


def monitors(case, r):
    """the property itself on the implementation's observations, against the independent reference"""
    top, sub, raw_items, raw_none = case
    fails = []
    if r['obs'] == 'define-err':
        return fails

    def fail(sig, clause, detail):
        fails.append(dict(signature=sig, clause=clause, case=dict(top=top, ports=sub, raw=raw_items, raw_none=raw_none), detail=detail))
    ref = pg.ref_construct(top, sub, raw_items)
    accepted = r['obs'].startswith('ok ')
    if accepted and ref[0] != 'ok':
        fail('accepted-nonconforming', 'a process is constructed only with inputs its spec accepts', dict(impl=r['obs'], reference=ref[1]))
    elif not accepted and ref[0] == 'ok':
        fail('rejected-conforming', 'accepted inputs appear in inputs', dict(impl=r['obs'], reference=pg.show_ref(ref[1])))
    elif accepted:
        want = 'ok ' + pg.show_ref(ref[1])
        # the reference tree marks exactly the declared namespace levels read-only; compare values first, then immutability
        if r['obs'].replace('<', '{').replace('>', '}') != want.replace('<', '{').replace('>', '}'):
            fail('inputs-differ', 'inputs completed with exactly the declared defaults', dict(impl=r['obs'], reference=want))
        elif r['not_frozen']:
            fail('not-frozen', 'read-only at every declared namespace level', dict(levels=r['not_frozen'], impl=r['obs']))
    if not r['caller_ok']:
        fail('caller-dict-mutated', "the caller's dictionary stays exactly as given", r['obs'])
    if not r['raw_ok']:
        fail('raw-inputs-changed', 'raw_inputs stay exactly as given', r['obs'])
    if r['second'] != r['obs']:
        fail('second-construction-differs', 'for every input spec: the same inputs give the same outcome at every construction',
             dict(first=r['obs'], second=r['second']))
    return fails


def run(ctx):
    cases, streams, n_specs = gen_cases(ctx)
    with mp.Pool(ctx.workers) as pool:
        impl = pool.map(run_impl, cases, chunksize=100)
    lines = [case_line(c) for c in cases]
    model = None
    if ctx.model.available:
        k = max(1, len(lines) // (ctx.workers * 2))
        chunks = [lines[i:i + k] for i in range(0, len(lines), k)]
        outs = ctx.model.run_parallel('ports', chunks)
        model = [x for ch in outs for x in ch]
    divergences, failures = [], []
    distinct = set()
    split, nodes, errpaths = {}, {}, 0
    for idx, (case, r) in enumerate(zip(cases, impl)):
        failures.extend(monitors(case, r))
        if model is not None and model[idx] != r['obs']:
            divergences.append(dict(case=dict(top=case[0], ports=case[1], raw=case[2]), line=lines[idx], impl=r['obs'], model=model[idx]))
        kind = r['obs'].split(' ')
        cls = 'accepted' if kind[0] == 'ok' else 'define-err' if kind[0] == 'define-err' else 'rejected:' + kind[1]
        s = split.setdefault(streams[idx], {})
        s[cls] = s.get(cls, 0) + 1
        split.setdefault('all', {})
        split['all'][cls] = split['all'].get(cls, 0) + 1
        n = pg.n_nodes(case[1])
        nodes[n] = nodes.get(n, 0) + 1
        if n >= 2:
            distinct.add(lines[idx].split(' RAW ')[0] + '|' + r['obs'])
        if len(kind) > 2:
            errpaths += 1
    failures.sort(key=lambda f: len(str(f['case'])))          # report the smallest failing input first
    return dict(
        evaluations=len(cases), distinct_nontrivial=len(distinct),
        rule='every spec with <= 2 ports (<= 3 in the thorough tier) over the attribute alphabet x inputs over a small value alphabet '
             '(capped per spec), plus random specs with <= 6 ports with inputs biased towards acceptance and a malformed stream; '
             'non-trivial = spec with >= 2 ports; distinct = distinct (spec, observation)',
        samples=[dict(line=lines[i], impl=impl[i]['obs']) for i in (0, len(cases) // 2, len(cases) - 1)],
        traces_validated=len(cases) if model is not None else 0,
        divergences=divergences, failures=failures, exhaustive=False,
        histograms=dict(outcome_by_stream=split, spec_nodes=nodes, specs_enumerated=n_specs, rejections_with_port_path=errpaths),
    )


def replay(ctx, failure):
    case = failure['case']

    def fix_v(v):
        return ('A', v[1], v[2]) if v[0] == 'A' else (v[0], [(k, fix_v(x)) for k, x in v[1]])

    def fix_p(p):
        if p[0] == 'L':
            return ('L', p[1], p[2], None if p[3] is None else fix_v(p[3]), p[4], p[5])
        return ('N', p[1], p[2], None if p[3] is None else fix_v(p[3]), p[4], p[5], p[6], [(k, fix_p(x)) for k, x in p[7]])
    c = (tuple(case['top']), [(k, fix_p(p)) for k, p in case['ports']], [(k, fix_v(v)) for k, v in case['raw']], bool(case.get('raw_none')))
    r = run_impl(c)
    ref = pg.ref_construct(c[0], c[1], c[2])
    m = ctx.model.run('ports', [case_line(c)])
    fails = monitors(c, r)
    return dict(line=case_line(c), impl=r, reference=(ref[0], pg.show_ref(ref[1]) if ref[0] == 'ok' else ref[1]),
                model=m[0] if m else None, failures=[f['signature'] for f in fails])
