"""C17 — launcher tasks do what they say or are rejected.

Histories of task bodies (create / launch / continue / unknown / malformed) x persist/nowait/tag flags are executed against a
REAL `plumpy.ProcessLauncher` on a real asyncio loop, with {no persister, InMemoryPersister, PicklePersister} x {default loader,
custom loader, custom loader in the persister only}, either by awaiting `ProcessLauncher.__call__` directly or through
`RemoteProcessController` -> `LoopCommunicator(kiwipy.LocalCommunicator)` -> launcher.  The processes are the small real
classes of `harness/launcher_procs.py`; their class-level trace shows which process ran which user step and when.

Line protocol (shared with `pmodel launcher`, see lean/Driver/Launcher.lean):
  case <none|mem|pickle> <default|custom|split|custom+ctx|custom+ctxdefault|ctxloader|ctx>
  ckpt <Cls> <n|none> (<j> <tag|none>)+            harness-made checkpoints of ONE process after j `step()` iterations each
  t <type|~> <A|N|X> <ident|~> <n|none|~> <persist|~> <nowait|~> <pid #k|?|~> <tag|none|~> <act ~|kill|resume>
      (act: what the harness does to the process of the task once it WAITS, while the launcher awaits it or after the reply)
observation of a task:  <reply> keys=<#k/tag,..> now=<#k:event,..> later=<#k:event,..>
"""
import logging
import multiprocessing as mp
import os
import shutil
import uuid

from harness import common

common.ensure_repo_on_path()

PROPERTY = 'C17'
LEAN_PROPS = 'PlumpyModel.Props.C17'
ASSUMPTIONS = [
    'process classes are an oracle in the model (constructor raises or not; outcome of running to completion from a persisted '
    'position); the harness instantiates it with five real classes (outputs / raises / three steps / waits and resumes itself / '
    'constructor raises)',
    'the persister contract is assumed, not proved here (C14): save_checkpoint(proc) stores under (pid, None) without failing, '
    'load_checkpoint of an absent key raises',
    'asyncio.ensure_future runs nothing before the launcher coroutine returns; one launcher, one loop, tasks one after the other '
    '(the loop is drained between two tasks)',
    'loader configurations: none given; the same custom loader instance given to launcher and InMemoryPersister; custom loader in '
    'the persister only; custom loader plus a caller-supplied load_context (without loader / carrying the default loader); loader '
    'only inside the caller-supplied load_context; load_context without any loader',
    'a waiting process (class Hold) is killed or resumed by the harness between two loop iterations once it is WAITING; a process '
    'left waiting for ever is never generated',
    'the RabbitMQ transport is replaced by kiwipy.LocalCommunicator (offline)',
]
TRUSTED = ['launcher model lean/PlumpyModel/Launcher/Model.lean (hand-written; compared with ProcessLauncher per task: reply, '
           'persister keys, per-process step trace before and after the reply)',
           'generated tables lean/PlumpyModel/Gen/Launcher.lean (dispatch chain of __call__, keyword signatures, body keys)']

def tok_tag(tok):
    """protocol token -> tag value: 'none' = no tag, 'E' = the empty string"""
    return None if tok == 'none' else '' if tok == 'E' else tok


def tag_tok(tag):
    return 'none' if tag is None else 'E' if tag == '' else str(tag)


T_FIELDS = ('type', 'ak', 'ident', 'n', 'persist', 'nowait', 'pid', 'tag')
KNOWN_TYPES = ('launch', 'continue', 'create')
CLASS_TOKENS = ('Out', 'Raise', 'Steps', 'Wait')
# loader configuration -> (launcher gets loader=L, InMemoryPersister gets loader=L, caller-supplied load_context: None | 'plain'
# (no loader in it) | 'default' (carries the default loader) | 'custom' (carries L))
LOADER_CFG = {'default': (False, False, None), 'custom': (True, True, None), 'split': (False, True, None),
              'custom+ctx': (True, True, 'plain'), 'custom+ctxdefault': (True, True, 'default'),
              'ctxloader': (False, True, 'custom'), 'ctx': (False, False, 'plain')}
CONFIGS = [(p, l) for p in ('none', 'mem', 'pickle') for l in LOADER_CFG if not (p == 'none' and l == 'split')]
TIMEOUT = 20


# ---------------------------------------------------------------------------------------------------------------------
# implementation side (runs in worker processes)

_W = {}


def _init_worker():
    if _W:
        return _W
    common.ensure_repo_on_path()
    import asyncio
    import kiwipy
    import plumpy
    from plumpy import communications, process_comms
    from harness import launcher_procs as lp
    logging.disable(logging.CRITICAL)
    plumpy.set_object_loader(lp.TracingDefaultLoader())
    _W.update(asyncio=asyncio, kiwipy=kiwipy, plumpy=plumpy, comms=communications, pc=process_comms, lp=lp)
    return _W


def parse_t(line):
    toks = line.split()
    assert toks[0] == 't' and len(toks) == 10, line
    return dict(zip(T_FIELDS + ('act',), toks[1:]))


def t_line(op):
    return 't ' + ' '.join(str(op[f]) for f in T_FIELDS) + ' ' + op.get('act', '~')


class Session:
    """one launcher + persister + loop; observes every task given to the launcher"""

    def __init__(self, scratch, pers_kind, loader_kind):
        w = _init_worker()
        asyncio, plumpy, pc, lp = w['asyncio'], w['plumpy'], w['pc'], w['lp']
        self.w, self.lp = w, lp
        self.loop = asyncio.new_event_loop()
        asyncio.set_event_loop(self.loop)
        lp.TRACE.clear()
        to_launcher, to_persister, ctx_kind = LOADER_CFG[loader_kind]
        self.custom = lp.make_custom() if (to_launcher or to_persister or ctx_kind == 'custom') else None
        self.dir = None
        if pers_kind == 'mem':
            self.pers = plumpy.InMemoryPersister(loader=self.custom if to_persister else None)
        elif pers_kind == 'pickle':
            self.dir = os.path.join(scratch, uuid.uuid4().hex)
            self.pers = plumpy.PicklePersister(self.dir)
        else:
            self.pers = None
        kw = {}
        if ctx_kind == 'plain':
            kw['load_context'] = plumpy.LoadSaveContext(loop=self.loop)
        elif ctx_kind == 'default':
            kw['load_context'] = plumpy.LoadSaveContext(loader=plumpy.get_object_loader(), loop=self.loop)
        elif ctx_kind == 'custom':
            kw['load_context'] = plumpy.LoadSaveContext(loader=self.custom, loop=self.loop)
        self.launcher = pc.ProcessLauncher(loop=self.loop, persister=self.pers, loader=self.custom if to_launcher else None, **kw)
        self.act = '~'          # what the harness does to the process of the task being received
        self.pids = []          # real pids in order of construction
        self.fake = {}          # pid reference that names no process -> a pid nobody has
        self.seen = 0           # TRACE entries already scanned for constructions
        self.records = []       # one per task received by the launcher

    # -- canonicalisation
    def scan(self):
        tr = self.lp.TRACE
        for pid, ev in tr[self.seen:]:
            if ev.startswith('create:') and pid not in self.pids:
                self.pids.append(pid)
        self.seen = len(tr)

    def pidx(self, pid):
        return f'#{self.pids.index(pid)}' if pid in self.pids else '#?'

    def events(self, entries):
        out = []
        for pid, ev in entries:
            kind, _, name = ev.partition(':')
            if kind in ('create', 'load'):
                ev = f'{kind}:{self.lp.TOKEN_OF.get(self.lp.CLASSES.get(name), name)}'
            out.append(f'{self.pidx(pid)}:{ev}')
        return out

    def keys(self):
        if self.pers is None:
            return []
        ks = []
        for cp in self.pers.get_checkpoints():
            p = self.pidx(cp.pid)
            ks.append((int(p[1:]) if p[1:].isdigit() else 10 ** 9, '-' if cp.tag is None else tag_tok(cp.tag)))
        return sorted(ks)

    def probe(self, key):
        """state label of the checkpoint stored under key (public API: load the bundle into a process and ask it)"""
        k, tag = key
        tr = self.lp.TRACE
        n = len(tr)
        registered = dict(self.lp.INSTANCES)
        try:
            bundle = self.pers.load_checkpoint(self.pids[k], None if tag == '-' else tok_tag(tag))
            proc = bundle.unbundle(self.w['plumpy'].LoadSaveContext(loader=self.lp.make_custom(), loop=self.loop))
            return proc.state.value
        except Exception as e:  # noqa
            return f'unloadable:{type(e).__name__}'
        finally:
            del tr[n:]
            self.lp.INSTANCES.clear()
            self.lp.INSTANCES.update(registered)

    def real_pid(self, ref):
        if ref.startswith('#') and ref[1:].isdigit() and int(ref[1:]) < len(self.pids):
            return self.pids[int(ref[1:])]
        return self.fake.setdefault(ref, uuid.uuid4())

    def reply_of(self, fn_result=None, exc=None):
        if exc is not None:
            if isinstance(exc, self.w['kiwipy'].TaskRejected):
                return 'rejected'
            return f'err:{type(exc).__name__}'
        r = fn_result
        if isinstance(r, dict):
            return 'out:' + (','.join(f'{k}={r[k]}' for k in sorted(r)) or '-')
        if r in self.pids:
            return f'pid:{self.pidx(r)}'
        return f'val:{type(r).__name__}'

    # -- bodies
    def build_body(self, op):
        pc, lp = self.w['pc'], self.lp
        body = {}
        if op['type'] != '~':
            # (a task type need not be a string, nor hashable: whatever is not one of the three known types is unknown)
            body[pc.TASK_KEY] = {'@list': ['launch'], '@dict': {'launch': True}, '@int': 0}.get(op['type'], op['type'])
        if op['ak'] == 'X':
            body[pc.TASK_ARGS] = 5
        elif op['ak'] == 'A':
            a = {}
            if op['ident'] != '~':
                a[pc.PROCESS_CLASS_KEY] = lp.ident_of_token(op['ident'])
            if op['persist'] != '~':
                a[pc.PERSIST_KEY] = op['persist'] == '1'
            if op['nowait'] != '~':
                a[pc.NOWAIT_KEY] = op['nowait'] == '1'
            if op['n'] != '~':
                a[pc.ARGS_KEY] = None
                a[pc.KWARGS_KEY] = None if op['n'] == 'none' else {'inputs': {'n': int(op['n'])}}
            if op['pid'] != '~':
                a[pc.PID_KEY] = self.real_pid(op['pid'])
            if op['tag'] != '~':
                a[pc.TAG_KEY] = tok_tag(op['tag'])
            body[pc.TASK_ARGS] = a
        return body

    def decode_body(self, body):
        """the `t` line a received task body denotes (controller path: the bodies are written by plumpy, not by the harness)"""
        pc, lp = self.w['pc'], self.lp
        op = dict.fromkeys(T_FIELDS, '~')
        if pc.TASK_KEY in body:
            t = body[pc.TASK_KEY]
            op['type'] = t if isinstance(t, str) else {list: '@list', dict: '@dict', int: '@int'}.get(type(t), '@other')
        if pc.TASK_ARGS not in body:
            op['ak'] = 'N'
            return op
        a = body[pc.TASK_ARGS]
        if not isinstance(a, dict):
            op['ak'] = 'X'
            return op
        op['ak'] = 'A'
        if pc.PROCESS_CLASS_KEY in a:
            ident = a[pc.PROCESS_CLASS_KEY]
            tok = 'u.x'
            for t, c in lp.TOKENS.items():
                if ident == lp.default_ident(c):
                    tok = 'd.' + t
                elif ident == lp.ALIAS_PREFIX + t:
                    tok = 'a.' + t
            op['ident'] = tok
        for key, f in ((pc.PERSIST_KEY, 'persist'), (pc.NOWAIT_KEY, 'nowait')):
            if key in a:
                op[f] = '1' if a[key] else '0'
        if pc.KWARGS_KEY in a or pc.ARGS_KEY in a:
            kw = a.get(pc.KWARGS_KEY)
            op['n'] = 'none' if not kw else str(kw['inputs']['n'])
        if pc.PID_KEY in a:
            p = a[pc.PID_KEY]
            op['pid'] = self.pidx(p) if p in self.pids else '?'
        if pc.TAG_KEY in a:
            op['tag'] = tag_tok(a[pc.TAG_KEY])
        return op

    # -- the observed launcher: exactly `await launcher(communicator, task)` plus bookkeeping around it
    async def receive(self, communicator, task):
        tr = self.lp.TRACE
        self.scan()
        rec = dict(op=dict(self.decode_body(task), act=self.act), keys_before=self.keys(), start=len(tr))
        self.records.append(rec)
        result, exc = None, None
        try:
            result = await self.launcher(communicator, task)
        except BaseException as e:  # noqa
            exc = e
        self.scan()
        rec['reply_at'] = len(tr)
        rec['reply'] = self.reply_of(result, exc)
        rec['keys'] = self.keys()
        rec['probe'] = {f'#{k[0]}/{k[1]}': self.probe(k) for k in rec['keys'] if k not in rec['keys_before']}
        if exc is not None:
            raise exc
        return result

    async def drain(self):
        asyncio = self.w['asyncio']
        me = asyncio.current_task()
        for _ in range(400):
            if not [t for t in asyncio.all_tasks() if t is not me and not t.done()]:
                # let pending call_soon callbacks (self-resuming processes) have their turn
                await asyncio.sleep(0)
                if not [t for t in asyncio.all_tasks() if t is not me and not t.done()]:
                    return True
            await asyncio.sleep(0)
        return False

    def close_records(self, upto, drained):
        """attribute the trace between a reply and the next task (or the end of the drain) to `later`"""
        tr = self.lp.TRACE
        self.scan()
        for i, rec in enumerate(self.records):
            if 'line' in rec:
                continue
            end = self.records[i + 1]['start'] if i + 1 < len(self.records) else upto
            rec['now'] = self.events(tr[rec['start']:rec['reply_at']])
            rec['later'] = self.events(tr[rec['reply_at']:end])
            rec['keys_after'] = self.keys()
            rec['drained'] = drained
            rec['line'] = (f"{rec['reply']} keys={fmt(['#%d/%s' % k for k in rec['keys']])} now={fmt(rec['now'])} "
                           f"later={fmt(rec['later'])}")

    async def ckpt(self, toks):
        lp = self.lp
        cls = lp.TOKENS[toks[1]]
        p = cls() if toks[2] == 'none' else cls(inputs={'n': int(toks[2])})
        done = 0
        saves = []
        for j, tag in zip(toks[3::2], toks[4::2]):
            while done < int(j) and not p.has_terminated():
                if toks[1] == 'Hold' and p.state == self.w['plumpy'].ProcessState.WAITING:
                    p.resume()
                await p.step()
                done += 1
            if self.pers is not None:
                self.pers.save_checkpoint(p, tag=tok_tag(tag))
            saves.append((tag if tag != 'none' else '-', done, p.state.value))
        self.scan()
        del lp.TRACE[:]
        self.seen = 0
        lp.INSTANCES.clear()
        return dict(kind='ckpt', pid=self.pidx(p.pid), saves=saves, cls=toks[1], n=0 if toks[2] == 'none' else int(toks[2]),
                    line=f"ckpt {self.pidx(p.pid)} keys={fmt(['#%d/%s' % k for k in self.keys()])}")

    def close(self):
        try:
            self.loop.run_until_complete(self.loop.shutdown_asyncgens())
        except Exception:  # noqa
            pass
        self.loop.close()
        if self.dir:
            shutil.rmtree(self.dir, ignore_errors=True)


def fmt(l):
    return ','.join(l) if l else '-'


def run_case(job):
    """job = (scratch, pers, loader, via, ops) -> dict(lines=[model input], obs=[per input line], error=…)"""
    scratch, pers_kind, loader_kind, via, ops = job
    ss = Session(scratch, pers_kind, loader_kind)
    asyncio = ss.w['asyncio']
    out = []        # (model input line, observation dict) in order

    async def interfere(body, act, is_create):
        """hand the task to the launcher and, while it is being awaited (or after its reply), kill / resume the process of the
        task as soon as it is WAITING -- between two iterations of the loop, as any other user of the loop could"""
        lp, waiting_state = ss.lp, ss.w['plumpy'].ProcessState.WAITING
        lp.INSTANCES.clear()
        task = asyncio.ensure_future(ss.receive(None, body))
        applied = False
        for _ in range(300):
            await asyncio.sleep(0)
            procs = list(lp.INSTANCES.values())
            waiting = [p for p in procs if p.state == waiting_state]
            if not applied and waiting:
                await asyncio.sleep(0)
                await asyncio.sleep(0)
                if act == 'kill':
                    waiting[-1].kill('stopped by the harness')
                else:
                    waiting[-1].resume()
                applied = True
            if task.done() and (is_create or all(p.has_terminated() for p in procs)):
                break
        if task.done():
            task.exception()    # (recorded as the reply by `receive`)
        else:
            task.cancel()
        lp.INSTANCES.clear()

    async def direct():
        for line in ops:
            toks = line.split()
            if toks[0] == 'ckpt':
                out.append((line, await ss.ckpt(toks)))
                continue
            op = parse_t(line)
            body = ss.build_body(op)
            n0 = len(ss.records)
            ss.act = op['act']
            if op['act'] == '~':
                try:
                    await ss.receive(None, body)
                except BaseException:  # noqa  (recorded as the reply)
                    pass
            else:
                await interfere(body, op['act'], op['type'] == 'create')
            ss.act = '~'
            drained = await ss.drain()
            ss.close_records(len(ss.lp.TRACE), drained)
            for rec in ss.records[n0:]:
                rec['kind'] = 't'
                out.append((t_line(rec['op']), rec))

    async def controller():
        w = ss.w
        comm = w['comms'].LoopCommunicator(w['kiwipy'].LocalCommunicator(), ss.loop)
        comm.add_task_subscriber(ss.receive)
        ctl = w['pc'].RemoteProcessController(comm)
        lp = ss.lp

        async def raw(body):
            fut = await asyncio.wrap_future(comm.task_send(body))
            return await asyncio.wrap_future(fut)

        for line in ops:
            toks = line.split()
            if toks[0] == 'ckpt':
                out.append((line, await ss.ckpt(toks)))
                continue
            n0 = len(ss.records)
            ss.scan()
            n_pids_before = len(ss.pids)
            kw = {}
            if toks[0] in ('L', 'X'):
                kw = dict(init_kwargs=None if toks[2] == 'none' else {'inputs': {'n': int(toks[2])}})
            if toks[0] == 'L':      # L <Cls> <n> <persist> <nowait> <d|c>
                coro = ctl.launch_process(lp.TOKENS[toks[1]], persist=toks[3] == '1', nowait=toks[4] == '1',
                                          loader=lp.make_custom() if toks[5] == 'c' else None, **kw)
            elif toks[0] == 'X':    # X <Cls> <n> <nowait> <d|c>
                coro = ctl.execute_process(lp.TOKENS[toks[1]], nowait=toks[3] == '1',
                                           loader=lp.make_custom() if toks[4] == 'c' else None, **kw)
            elif toks[0] == 'C':    # C <pid> <tag> <nowait>
                coro = ctl.continue_process(ss.real_pid(toks[1]), tag=tok_tag(toks[2]), nowait=toks[3] == '1')
            else:                   # R t …   (a raw body put on the task queue)
                coro = raw(ss.build_body(parse_t(' '.join(toks[1:]))))
            result, exc = None, None
            try:
                result = await asyncio.wait_for(coro, TIMEOUT)
            except BaseException as e:  # noqa
                exc = e
            ss.scan()
            seen = ss.reply_of(result, exc)
            drained = await ss.drain()
            ss.close_records(len(lp.TRACE), drained)
            new = ss.records[n0:]
            for rec in new:
                rec['kind'] = 't'
                rec['via'] = line
                out.append((t_line(rec['op']), rec))
            # the task(s) the launcher received must be the task(s) the controller was asked to send
            if toks[0] in ('L', 'X', 'C') and new:
                def ident_tok(cls_tok, lflag):
                    return 'a.Out' if (lflag == 'c' and cls_tok == 'Out') else 'd.' + cls_tok
                ref = lambda r: r if (r.startswith('#') and r[1:].isdigit() and int(r[1:]) < n_pids_before) else '?'  # noqa: E731
                if toks[0] == 'L':
                    want = [mk('launch', ident=ident_tok(toks[1], toks[5]), n=toks[2], persist=toks[3], nowait=toks[4])]
                elif toks[0] == 'C':
                    want = [mk('continue', pid=ref(toks[1]), nowait=toks[3], tag=toks[2])]
                else:
                    want = [mk('create', ident=ident_tok(toks[1], toks[4]), n=toks[2], persist='1')]
                    if new[0]['reply'].startswith('pid:'):
                        want.append(mk('continue', pid=new[0]['reply'][4:], nowait=toks[3], tag='none'))
                got = [t_line(rec['op']) for rec in new]
                if got != want:
                    new[-1]['controller_sent'] = dict(asked=line, expected_tasks=want, received_tasks=got)
            if new:
                new[-1]['controller_saw'] = seen
            else:
                out.append(('t ~ N ~ ~ ~ ~ ~ ~ ~', dict(kind='t', op=dict.fromkeys(T_FIELDS + ('act',), '~'), line='no-task-received', reply='none',
                                                     keys=[], keys_before=[], keys_after=[], now=[], later=[], probe={},
                                                     drained=True, via=line, controller_saw=seen)))

    error = None
    try:
        ss.loop.run_until_complete(asyncio.wait_for(direct() if via == 'direct' else controller(), TIMEOUT * 3))
    except asyncio.TimeoutError:
        error = 'hung'
    except BaseException as e:  # noqa
        import traceback
        error = f'harness:{type(e).__name__}:{e}:{traceback.format_exc()[-600:]}'
    finally:
        ss.close()
    for _, o in out:
        for k in ('start', 'reply_at'):
            o.pop(k, None)
    return dict(lines=[l for l, _ in out], obs=[o for _, o in out], error=error)


# ---------------------------------------------------------------------------------------------------------------------
# monitors: the clauses of the property evaluated on the implementation's observations, against the reference tables of
# harness/launcher_procs.py (PROGRAM, expected_outcome, ref_load, ref_identify).  Independent of the Lean model.

def well_formed(op):
    t = op['type']
    if op['ak'] != 'A':
        return False
    if t in ('launch', 'create'):
        need = ('ident', 'persist') + (('nowait',) if t == 'launch' else ())
        absent = ('pid', 'tag') + (() if t == 'launch' else ('nowait',))
    elif t == 'continue':
        need, absent = ('pid', 'nowait'), ('ident', 'persist', 'n')
    else:
        return False
    return all(op[f] != '~' for f in need) and all(op[f] == '~' for f in absent)


def split_ev(evs):
    return [tuple(e.split(':', 1)) for e in evs]


def monitor_case(pers, loader, obs):
    """returns [(index of the observation, signature, clause, detail)]"""
    from harness import launcher_procs as lp
    fails = []
    ckpts = {}      # (pidref, tag) -> (class token of the saved process, n, position)   what SHOULD be stored
    to_launcher, to_persister, ctx_kind = LOADER_CFG[loader]
    launch_loader = 'custom' if to_launcher else 'default'
    save_loader = 'custom' if (pers == 'mem' and to_persister) else 'default'
    # the loader a continue task resolves the saved class name with: the configured one; else the one in the caller's
    # load context; else a default-constructed instance of the class recorded in the bundle ('fresh'); else the default one
    if to_launcher or ctx_kind == 'custom':
        continue_loader = 'custom'
    elif ctx_kind == 'default':
        continue_loader = 'default'
    else:
        continue_loader = 'fresh' if save_loader == 'custom' else 'default'

    def bad(i, sig, clause, detail):
        fails.append((i, sig, clause, detail))

    for i, o in enumerate(obs):
        if o['kind'] == 'ckpt':
            if pers != 'none':
                for tag, done, _state in o['saves']:
                    ckpts[(o['pid'], tag)] = (o['cls'], o['n'], done)
            continue
        op, reply = o['op'], o['reply']
        now, later = split_ev(o['now']), split_ev(o['later'])
        allev = now + later
        steps_now = [(p, e) for p, e in now if not e.startswith(('create:', 'load:'))]
        steps_all = [(p, e) for p, e in allev if not e.startswith(('create:', 'load:'))]
        made = [(p, e.split(':')[1]) for p, e in allev if e.startswith('create:')]
        loaded = [(p, e.split(':')[1]) for p, e in allev if e.startswith('load:')]
        new_keys = [k for k in o['keys'] if k not in o['keys_before']]
        gone_keys = [k for k in o['keys_before'] if k not in o['keys']]
        inert = not allev and not new_keys and not gone_keys
        honoured = reply.startswith(('pid:', 'out:'))
        if not o.get('drained', True):
            bad(i, 'hung', 'every task comes to an end', o['line'])
            continue
        if o['keys_after'] != o['keys']:
            bad(i, 'persisted-after-reply', 'a task persists before it replies', dict(at_reply=o['keys'], after=o['keys_after']))
        if 'controller_sent' in o:
            bad(i, 'controller-task', 'the task the launcher receives is the task the controller was asked to send', o['controller_sent'])
        if 'controller_saw' in o and o['controller_saw'] != reply:
            bad(i, 'controller-reply', 'the reply the controller receives is the reply of the launcher',
                dict(launcher=reply, controller=o['controller_saw']))
        if reply.startswith('val:'):
            bad(i, 'reply-kind', 'the reply is a pid, the outputs, an error or a rejection', reply)
            continue
        t = op['type']
        # --- tasks that cannot be honoured
        if t == '~':
            if honoured or not inert:
                bad(i, 'no-task-type-executed', 'a body without task type is not executed', o['line'])
            continue
        if t not in KNOWN_TYPES:
            if reply != 'rejected' or not inert:
                bad(i, 'unknown-task-not-rejected', 'an unknown task type is rejected, nothing is executed or persisted', o['line'])
            continue
        if not well_formed(op):
            if honoured or not inert:
                bad(i, 'malformed-task-executed', 'a task whose arguments do not fit is not executed in some other way', o['line'])
            continue
        persist = op['persist'] == '1'
        nowait = op['nowait'] == '1'
        if t in ('launch', 'create') and persist and pers == 'none':
            if reply != 'rejected' or not inert:
                bad(i, 'persist-without-persister', 'persisting without a persister is rejected, nothing is executed', o['line'])
            continue
        if t == 'continue' and pers == 'none':
            if reply != 'rejected' or not inert:
                bad(i, 'continue-without-persister', 'continuing without a persister is rejected, nothing is executed', o['line'])
            continue
        if reply == 'rejected':
            bad(i, 'rejected-honourable-task', 'a task that can be honoured is not rejected', o['line'])
            continue
        n = 0 if op['n'] in ('~', 'none') else int(op['n'])
        if t in ('launch', 'create'):
            cls = lp.ref_load(launch_loader, op['ident'])
            if cls is None or cls == 'Bad':
                # the configured loader does not know the identifier / the constructor refuses: an error, nothing else
                if honoured or steps_all or new_keys or gone_keys or loaded:
                    sig = 'unknown-class-executed' if cls is None else 'failed-constructor-executed'
                    bad(i, sig, 'the configured loader resolves the class; a task that fails does nothing else', o['line'])
                continue
            if len(made) != 1 or loaded:
                bad(i, 'not-one-fresh-instance', f'a {t} task constructs exactly one fresh process', o['line'])
                continue
            pid, made_cls = made[0]
            if made_cls != cls:
                bad(i, 'wrong-loader', 'the configured object loader is the one used',
                    dict(identifier=op['ident'], expected=cls, constructed=made_cls, line=o['line']))
                continue
            if gone_keys:
                bad(i, 'checkpoint-lost', 'a task does not delete checkpoints', o['line'])
            want_keys = [(int(pid[1:]), '-')] if persist else []
            if new_keys != want_keys:
                bad(i, 'persisted-iff-asked', f'a {t} task persists the process iff asked (under its pid, no tag)',
                    dict(new_keys=new_keys, expected=want_keys, line=o['line']))
            elif persist:
                st = o['probe'].get(f'{pid}/-')
                if st != 'created':
                    bad(i, 'checkpoint-not-initial', 'the process is persisted first: the checkpoint is the initial state',
                        dict(state_of_checkpoint=st, line=o['line']))
                ckpts[(pid, '-')] = (cls, n, 0)
            if any(p != pid for p, _ in steps_all):
                bad(i, 'other-process-ran', 'only the process of the task runs', o['line'])
                continue
            if t == 'create':
                if reply != f'pid:{pid}':
                    bad(i, 'create-reply', 'a create task returns the id of the process', o['line'])
                if steps_all:
                    bad(i, 'create-ran', 'a create task does not run the process', o['line'])
                continue
            run_cls, pos, saved_cls = cls, 0, cls
        else:
            key = (op['pid'], '-' if op['tag'] in ('~', 'none') else op['tag'])
            if key not in ckpts:
                if honoured or not inert:
                    bad(i, 'continued-absent-checkpoint', 'continue resumes the checkpoint of the requested (pid, tag) only', o['line'])
                continue
            saved_cls, n, pos = ckpts[key]
            ident = lp.ref_identify(save_loader, saved_cls)
            run_cls = lp.ref_load(continue_loader, ident)
            pid = key[0]
            if run_cls is None:
                # the loader in force does not know the saved class name: an error, nothing else
                if honoured or steps_all or new_keys or gone_keys or made:
                    bad(i, 'unknown-class-executed', 'the configured loader resolves the class; a task that fails does nothing else', o['line'])
                continue
            if not made and not loaded and reply == 'err:ValueError' and inert:
                bad(i, 'wrong-loader', 'the configured object loader is the one used (it knows the class name of the checkpoint)',
                    dict(saved_as=ident, loader_in_force=continue_loader, expected=run_cls, line=o['line']))
                continue
            if made or len(loaded) != 1 or loaded[0][0] != pid:
                bad(i, 'not-the-checkpoint', 'continue resumes exactly the persisted process of the requested pid',
                    dict(requested=key, line=o['line']))
                continue
            if loaded[0][1] != run_cls:
                bad(i, 'wrong-loader', 'the configured object loader is the one used',
                    dict(saved_as=ident, expected=run_cls, loaded=loaded[0][1], line=o['line']))
                continue
            if new_keys or gone_keys:
                bad(i, 'continue-changed-persister', 'a continue task leaves the persister as it is', o['line'])
            if any(p != pid for p, _ in steps_all):
                bad(i, 'other-process-ran', 'only the process of the task runs', o['line'])
                continue
        # --- launch / continue: what runs, when, and what is replied
        act = op.get('act', '~')
        want_steps = lp.remaining_steps(run_cls, pos, act)
        got = [e for _, e in steps_all]
        if got != want_steps:
            sig = 'launch-steps' if t == 'launch' else 'continue-not-from-checkpoint'
            clause = ('a launch task runs a fresh instance to completion' if t == 'launch' else
                      'continue resumes exactly the persisted checkpoint of the requested tag, to completion')
            bad(i, sig, clause, dict(expected_steps=want_steps, ran=got, line=o['line']))
            continue
        if nowait:
            if reply != f'pid:{pid}':
                bad(i, 'nowait-reply', 'with nowait the reply is the process id', o['line'])
            elif want_steps and [e for _, e in steps_now] == want_steps:
                bad(i, 'nowait-waited', 'with nowait the id is returned immediately, not after the process has run', o['line'])
        else:
            kind, val = lp.expected_outcome(run_cls, n, saved_cls, pos, act)
            want = ('out:' + ','.join(f'{k}={val[k]}' for k in sorted(val))) if kind == 'out' else f'err:{val}'
            if reply != want:
                bad(i, 'reply-not-outcome', "without nowait the reply is the process's outputs or its error",
                    dict(expected=want, line=o['line']))
            elif [e for _, e in steps_now] != want_steps:
                bad(i, 'replied-before-completion', 'without nowait the reply comes after the process has terminated', o['line'])
    return fails


# ---------------------------------------------------------------------------------------------------------------------
# generators

def mk(type_='~', ak='A', ident='~', n='~', persist='~', nowait='~', pid='~', tag='~', act='~'):
    return t_line(dict(type=type_, ak=ak, ident=ident, n=n, persist=persist, nowait=nowait, pid=pid, tag=tag, act=act))


IDENTS = ['d.Out', 'd.Raise', 'd.Steps', 'd.Wait', 'd.Bad', 'd.Alt', 'a.Out', 'a.Steps', 'a.Raise', 'u.x']
TAGS = ['none', 't1', 't2', 'E']      # 'E' stands for the empty string: a legal tag, distinct from no tag


def systematic(configs):
    cases = []
    for pers, loader in configs:
        ops = []
        # every identifier x persist x nowait, one task per history and all of them in one history
        for ident in IDENTS:
            for p in '01':
                for w in '01':
                    ops.append([mk('launch', ident=ident, n='3', persist=p, nowait=w)])
                ops.append([mk('create', ident=ident, n='4', persist=p)])
        # unknown types, among them names that are attributes of the launcher once an underscore is put in front (a dispatch by
        # name would find something) and the names of its handler methods themselves
        for tt in ('zzz', 'Launch', 'continue_', '~', 'loader', 'persister', 'loop', 'load_context', '_launch', 'call__', '@list', '@dict', '@int'):
            ops.append([mk(tt, ident='d.Out', n='1', persist='0', nowait='0')])
            ops.append([mk(tt, ak='N')])
        # malformed bodies
        ops += [[mk('launch', ak='N')], [mk('launch', ak='X')], [mk('create', ident='d.Out', n='1', persist='1', nowait='0')],
                [mk('launch', ident='d.Out', n='1', persist='1')], [mk('launch', ident='d.Out', n='1', persist='0', nowait='0', tag='t1')],
                [mk('continue', nowait='0')], [mk('continue', pid='?', nowait='0', persist='1')], [mk('continue', ak='N')],
                [mk('launch', ident='d.Out', persist='0', nowait='0')], [mk('launch', ident='d.Out', n='none', persist='0', nowait='1')]]
        for o in ops:
            cases.append((pers, loader, 'direct', o))
        cases.append((pers, loader, 'direct', [x for o in ops for x in o]))
        # checkpoints of one process at two positions under two tags, continued under each tag (and absent ones), twice
        for cls in CLASS_TOKENS:
            total = {'Out': 2, 'Raise': 2, 'Steps': 4, 'Wait': 4}[cls]
            for j1 in range(0, total + 1):
                for j2 in range(j1, total + 1):
                    for w in '01':
                        h = [f'ckpt {cls} 5 {j1} t1 {j2} none']
                        for tg in ('t1', 'none', '~', 't2', 't1'):
                            h.append(mk('continue', pid='#0', nowait=w, tag=tg))
                        h.append(mk('continue', pid='?', nowait=w, tag='t1'))
                        h.append(mk('continue', pid='#1', nowait=w, tag='none'))
                        cases.append((pers, loader, 'direct', h))
        # the empty string is a legal tag of its own: a checkpoint under '' next to the untagged one (either order)
        for cls, total in (('Steps', 4), ('Wait', 4)):
            for j1, j2 in ((0, 2), (1, 3), (2, 2)):
                for order in (('E', 'none'), ('none', 'E')):
                    h = [f'ckpt {cls} 5 {j1} {order[0]} {j2} {order[1]}']
                    for tg in ('none', 'E', '~', 't1'):
                        h.append(mk('continue', pid='#0', nowait='0', tag=tg))
                    cases.append((pers, loader, 'direct', h))
        # a waiting process killed / resumed while the launcher awaits it (nowait=0) or after the reply (nowait=1)
        for act in ('kill', 'resume'):
            for w in '01':
                for p in '01':
                    cases.append((pers, loader, 'direct', [mk('launch', ident='d.Hold', n='6', persist=p, nowait=w, act=act)]))
                cases.append((pers, loader, 'direct', [mk('create', ident='d.Hold', n='7', persist='1'),
                                                       mk('continue', pid='#0', nowait=w, tag='none', act=act),
                                                       mk('continue', pid='#0', nowait=w, act='resume' if act == 'kill' else 'kill'),
                                                       mk('launch', ident='d.Out', n='1', persist='0', nowait=w, act=act)]))
                for j in range(0, 5):
                    cases.append((pers, loader, 'direct', [f'ckpt Hold 5 {j} t1 {min(j + 1, 4)} none',
                                                           mk('continue', pid='#0', nowait=w, tag='t1', act=act),
                                                           mk('continue', pid='#0', nowait=w, tag='none', act=act),
                                                           mk('continue', pid='#0', nowait=w, tag='t2', act=act)]))
        # create then continue (what execute_process does), launch with persist then continue from its checkpoint
        for ident in ('d.Out', 'd.Steps', 'd.Wait', 'd.Raise', 'a.Out'):
            for w in '01':
                cases.append((pers, loader, 'direct', [mk('create', ident=ident, n='7', persist='1'),
                                                       mk('continue', pid='#0', nowait=w, tag='none'),
                                                       mk('continue', pid='#0', nowait=w, tag='t1'),
                                                       mk('launch', ident=ident, n='8', persist='1', nowait=w),
                                                       mk('continue', pid='#1', nowait='0'),
                                                       mk('create', ident=ident, n='9', persist='0'),
                                                       mk('continue', pid='#2', nowait='0')]))
    return cases


def random_history(rng, length, controller=False):
    ops, made, tags = [], 0, {}      # tags: pid index -> tags that may exist
    # a history with waiting (Hold) processes: every launch / continue task comes with what the harness does to the process
    # once it waits, so that no process is left waiting for ever
    hold = (not controller) and rng.random() < 0.3

    def some_act():
        if hold:
            return rng.choice(['kill', 'resume'])
        return '~' if rng.random() < 0.9 else rng.choice(['kill', 'resume'])
    for _ in range(length):
        r = rng.random()
        n = str(rng.randint(-2, 9))
        if r < 0.14:
            cls = rng.choice(CLASS_TOKENS + (('Hold', 'Hold') if hold else ()))
            total = {'Out': 2, 'Raise': 2, 'Steps': 4, 'Wait': 4, 'Hold': 4}[cls]
            js = sorted(rng.randint(0, total + 1) for _ in range(rng.randint(1, 3)))
            tg = rng.sample(TAGS, len(js))
            ops.append(f'ckpt {cls} {n} ' + ' '.join(f'{j} {t}' for j, t in zip(js, tg)))
            tags[made] = tg
            made += 1
        elif r < 0.34:
            ident = rng.choice(IDENTS[:4] + IDENTS + (['d.Hold'] * 5 if hold else [])
                               if not controller else ['d.Out', 'd.Raise', 'd.Steps', 'd.Wait', 'a.Out', 'd.Bad'])
            p = rng.choice('01')
            line = mk('create', ident=ident, n=rng.choice([n, n, 'none']), persist=p)
            ops.append(('R ' + line) if controller else line)
            tags[made] = ['none']     # (may not exist: the model and the monitor know)
            made += 1
        elif r < 0.60:
            ident = rng.choice(IDENTS[:4] + IDENTS + (['d.Hold'] * 6 + ['a.Hold'] if hold else []))
            p, w = rng.choice('01'), rng.choice('01')
            if controller:
                cls = rng.choice(CLASS_TOKENS + ('Bad',))
                if rng.random() < 0.25:
                    ops.append(f'X {cls} {n} {w} {rng.choice("dc")}')
                else:
                    ops.append(f'L {cls} {n} {p} {w} {rng.choice("dc")}')
            else:
                ops.append(mk('launch', ident=ident, n=rng.choice([n, n, n, 'none', '~']), persist=p, nowait=w, act=some_act()))
            tags[made] = ['none']
            made += 1
        elif r < 0.90:
            if made and rng.random() < 0.9:
                k = rng.randrange(made)
                tg = rng.choice(tags.get(k, ['none']) * 3 + TAGS + ['~'])
                ref = f'#{k}'
            else:
                ref, tg = rng.choice(['?', f'#{made + 1}']), rng.choice(TAGS)
            w = rng.choice('01')
            if controller:
                ops.append(f'C {ref} {"none" if tg == "~" else tg} {w}')
            else:
                ops.append(mk('continue', pid=ref, nowait=w, tag=tg, act=some_act()))
        elif r < 0.95:
            line = mk(rng.choice(['zzz', 'run', 'kill', '~', 'LAUNCH', 'loader', 'persister', 'loop', 'load_context']), ak=rng.choice('AAN'), ident='d.Out', n=n,
                      persist=rng.choice('01'), nowait=rng.choice('01'))
            ops.append(('R ' + line) if controller else line)
        else:
            base = dict(type=rng.choice(KNOWN_TYPES), ak=rng.choice('AAAANX'), ident=rng.choice(['d.Out', 'd.Steps', '~']), n=n,
                        persist=rng.choice('01~'), nowait=rng.choice('01~'), pid=rng.choice(['~', '?', '#0']),
                        tag=rng.choice(['~', 'none', 't1']))
            line = t_line(base)
            ops.append(('R ' + line) if controller else line)
    return ops


def gen_cases(ctx):
    rng = ctx.rng
    cases = systematic(CONFIGS)
    n_sys = len(cases)
    max_len = 20 if ctx.thorough else 6
    n_direct = 70000 if ctx.thorough else 9000
    n_ctl = 10000 if ctx.thorough else 2000
    for _ in range(n_direct):
        pers, loader = rng.choice(CONFIGS)
        cases.append((pers, loader, 'direct', random_history(rng, rng.randint(1, max_len))))
    for _ in range(n_ctl):
        pers, loader = rng.choice(CONFIGS)
        cases.append((pers, loader, 'controller', random_history(rng, rng.randint(1, max_len), controller=True)))
    # neighbourhood of the diverging cases handed over by the pipeline (search mode)
    for h in getattr(ctx, 'hints', []) or []:
        c = h.get('case') or {}
        if not c.get('ops'):
            continue
        ops = list(c['ops'])
        for i in range(len(ops)):
            cases.append((c['pers'], c['loader'], c['via'], ops[:i] + ops[i + 1:]))
            for pers, loader in CONFIGS:
                cases.append((pers, loader, c['via'], ops[:i + 1]))
    return cases, n_sys


# ---------------------------------------------------------------------------------------------------------------------

def case_dict(case):
    return dict(pers=case[0], loader=case[1], via=case[2], ops=list(case[3]))


def evaluate(ctx, cases, scratch):
    jobs = [(scratch, c[0], c[1], c[2], c[3]) for c in cases]
    if len(jobs) > 64:
        with mp.Pool(ctx.workers) as pool:
            impl = pool.map(run_case, jobs, chunksize=max(1, min(40, len(jobs) // (ctx.workers * 4))))
    else:
        impl = [run_case(j) for j in jobs]
    # model: one driver per chunk of cases
    chunks, owners = [], []
    per = max(1, len(cases) // (common.WORKERS * 2) + 1)
    for a in range(0, len(cases), per):
        lines = []
        for c, r in zip(cases[a:a + per], impl[a:a + per]):
            lines.append(f'case {c[0]} {c[1]}')
            lines.extend(r['lines'])
        chunks.append(lines)
        owners.append((a, min(len(cases), a + per)))
    model_out = ctx.model.run_parallel('launcher', chunks)
    model = None
    if model_out is not None:
        model = []
        for (a, b), outl in zip(owners, model_out):
            pos = 0
            for r in impl[a:b]:
                k = len(r['lines'])
                model.append(outl[pos + 1:pos + 1 + k])
                pos += 1 + k
    return impl, model


def shrink(ctx, case, sig, scratch):
    """greedy removal of operations while a failure with the same signature remains"""
    ops = list(case[3])

    def fails(o):
        r = run_case((scratch, case[0], case[1], case[2], o))
        if r['error']:
            return sig == 'harness-error'
        return any(f[1] == sig for f in monitor_case(case[0], case[1], r['obs']))
    changed = True
    budget = 60
    while changed and budget > 0:
        changed = False
        for i in range(len(ops)):
            cand = ops[:i] + ops[i + 1:]
            budget -= 1
            if cand and fails(cand):
                ops, changed = cand, True
                break
            if budget <= 0:
                break
    return (case[0], case[1], case[2], ops)


def unsavable_stream(scratch):
    """impl-only supplementary stream (the launcher model has no class whose checkpoint fails): a launch / create task with
    persist=True for a process that cannot be persisted is not honoured — the reply is the persister's error — and the process is
    then not run 'in some other way' either."""
    w = _init_worker()
    asyncio, plumpy, pc, lp = w['asyncio'], w['plumpy'], w['pc'], w['lp']
    fails, n = [], 0
    ident = lp.Unsavable         # (the body builders identify the class through the default loader)
    for pers_kind in ('mem', 'pickle'):
        for task_kind in ('launch', 'create'):
            for nowait in (False, True):
                ss = Session(scratch, pers_kind, 'default')
                n += 1
                try:
                    if task_kind == 'launch':
                        task = pc.create_launch_body(ident, init_kwargs={'inputs': {'n': 3}}, persist=True, nowait=nowait)
                    else:
                        task = pc.create_create_body(ident, init_kwargs={'inputs': {'n': 3}}, persist=True)
                    err = None
                    try:
                        ss.loop.run_until_complete(ss.launcher(None, task))
                    except BaseException as e:  # noqa
                        err = type(e).__name__
                    for _ in range(30):
                        ss.loop.run_until_complete(asyncio.sleep(0))
                    ran = [ev for _pid, ev in lp.TRACE if ev == 'run']
                    stored = list(ss.pers.get_checkpoints())
                    if err is None or ran or stored:
                        fails.append(dict(signature='task-not-honoured-but-executed' if ran else 'unsavable-task-accepted',
                                          clause='a task that cannot be honoured is rejected rather than executed in some other way '
                                                 '(a launch task persists the process first when asked)',
                                          detail=dict(persister=pers_kind, task=task_kind, nowait=nowait, reply_error=err,
                                                      process_ran=bool(ran), checkpoints=len(stored)),
                                          case=dict(unsavable=True, persister=pers_kind, task=task_kind, nowait=nowait)))
                finally:
                    try:
                        ss.loop.close()
                    except Exception:  # noqa
                        pass
    return n, fails


def latefail_stream(scratch):
    """impl-only: the reply of a waiting (nowait=False) launch / continue is the outcome the process ENDED with - outputs or error -
    also when the process replaced its future on the way (a hook failing after the result had been set)"""
    w = _init_worker()
    asyncio, plumpy, pc, lp = w['asyncio'], w['plumpy'], w['pc'], w['lp']
    fails, n = [], 0
    for pers_kind in ('mem', 'pickle'):
        for how in ('launch', 'continue'):
            ss = Session(scratch, pers_kind, 'default')
            n += 1
            try:
                if how == 'launch':
                    task = pc.create_launch_body(lp.LateFail, init_kwargs={'inputs': {'n': 3}}, persist=False, nowait=False)
                else:
                    proc = lp.LateFail(inputs={'n': 3}, loop=ss.loop)
                    ss.pers.save_checkpoint(proc)
                    task = pc.create_continue_body(proc.pid, nowait=False)
                reply, err = None, None
                try:
                    reply = ss.loop.run_until_complete(ss.launcher(None, task))
                except BaseException as e:  # noqa
                    err = type(e).__name__
                if err is None:
                    fails.append(dict(signature='reply-is-stale-outcome', clause='otherwise the reply is the process\'s outputs or its error '
                                      '(the process ended EXCEPTED, the reply was its earlier outputs)',
                                      detail=dict(persister=pers_kind, task=how, reply=repr(reply)[:100]),
                                      case=dict(latefail=True, persister=pers_kind, task=how)))
            finally:
                try:
                    ss.loop.close()
                except Exception:  # noqa
                    pass
    return n, fails


def run(ctx):
    scratch = common.scratch_dir(PROPERTY)
    try:
        return _run(ctx, scratch)
    finally:
        common.rm_scratch(scratch)


def _run(ctx, scratch):
    cases, n_sys = gen_cases(ctx)
    impl, model = evaluate(ctx, cases, scratch)
    divergences, failures = [], []
    n_unsav, f_unsav = unsavable_stream(scratch)
    failures.extend(f_unsav)
    n_late, f_late = latefail_stream(scratch)
    failures.extend(f_late)
    distinct = set()
    hist = dict(task_type={}, reply={}, config={}, via={}, history_length={}, failure_signatures={}, unsavable_stream=n_unsav)
    n_tasks = 0
    seen_sigs = {}
    for idx, (case, r) in enumerate(zip(cases, impl)):
        cd = case_dict(case)
        if r['error']:
            failures.append(dict(signature='harness-error' if r['error'] != 'hung' else 'hung', clause='the history can be executed',
                                 case=cd, detail=r['error']))
            continue
        hist['config'][f'{case[0]}/{case[1]}'] = hist['config'].get(f'{case[0]}/{case[1]}', 0) + 1
        hist['via'][case[2]] = hist['via'].get(case[2], 0) + 1
        L = len(case[3])
        hist['history_length'][L] = hist['history_length'].get(L, 0) + 1
        for o in r['obs']:
            if o['kind'] != 't':
                continue
            n_tasks += 1
            tt = o['op']['type'] if o['op']['type'] in KNOWN_TYPES + ('~',) else 'unknown'
            tt = tt if (tt in ('~', 'unknown') or well_formed(o['op'])) else tt + '(malformed)'
            hist['task_type'][tt] = hist['task_type'].get(tt, 0) + 1
            rk = o['reply'].split(':')[0] + (':' + o['reply'].split(':')[1] if o['reply'].startswith('err:') else '')
            hist['reply'][rk] = hist['reply'].get(rk, 0) + 1
        for (i, sig, clause, detail) in monitor_case(case[0], case[1], r['obs']):
            hist['failure_signatures'][sig] = hist['failure_signatures'].get(sig, 0) + 1
            if seen_sigs.get(sig, 0) >= 5:
                continue
            seen_sigs[sig] = seen_sigs.get(sig, 0) + 1
            failures.append(dict(signature=sig, clause=clause, case=cd, detail=dict(at=i, line=r['lines'][i], what=detail)))
        if model is not None:
            il = [o['line'] for o in r['obs']]
            if il != model[idx]:
                k = next((j for j, (a, b) in enumerate(zip(il, model[idx])) if a != b), min(len(il), len(model[idx])))
                divergences.append(dict(case=cd, at=k, line=r['lines'][k] if k < len(r['lines']) else None,
                                        impl=il[k] if k < len(il) else None, model=model[idx][k] if k < len(model[idx]) else None))
        kinds = {o['reply'].split(':')[0] for o in r['obs'] if o['kind'] == 't'}
        if len(kinds) >= 2 and any(o['kind'] == 't' and (o['now'] or o['later']) for o in r['obs']):
            distinct.add(common.digest([case[0], case[1], [o['line'] for o in r['obs']]]))
    # minimise the first failure of each signature
    shrunk = set()
    for f in failures:
        if f['signature'] in shrunk or f['signature'] in ('harness-error',) or f['case'].get('unsavable') or f['case'].get('latefail'):
            continue
        shrunk.add(f['signature'])
        c = f['case']
        small = shrink(ctx, (c['pers'], c['loader'], c['via'], c['ops']), f['signature'], scratch)
        f['case'] = case_dict(small)
        f['shrunk_from'] = len(c['ops'])
    sample_idx = [0, n_sys - 1, len(cases) // 2, len(cases) - 1]
    return dict(
        evaluations=len(cases), distinct_nontrivial=len(distinct),
        rule='systematic single tasks (every identifier x persist x nowait, unknown types, malformed bodies), two-tag checkpoint '
             'grids x continue under every tag, create/launch-then-continue, for each of 8 persister/loader configurations; then '
             'random histories (direct call and controller->LoopCommunicator(LocalCommunicator)->launcher). non-trivial = at least '
             'two reply kinds and some process activity; distinct = distinct (configuration, observation stream)',
        samples=[dict(case=case_dict(cases[i]), input=impl[i]['lines'][:6], impl=[o['line'] for o in impl[i]['obs']][:6]) for i in sample_idx],
        traces_validated=sum(1 for r in impl if not r['error']) if model is not None else 0,
        divergences=divergences, failures=failures, exhaustive=False,
        histograms=dict(hist, tasks=n_tasks, systematic_cases=n_sys),
    )


def replay(ctx, failure):
    c = failure['case']
    scratch = common.scratch_dir(PROPERTY)
    if c.get('latefail'):
        try:
            n, fails = latefail_stream(scratch)
            return dict(runs=n, failures=[dict(signature=f['signature'], detail=f['detail']) for f in fails])
        finally:
            common.rm_scratch(scratch)
    if c.get('unsavable'):
        try:
            n, fails = unsavable_stream(scratch)
            return dict(runs=n, failures=[dict(signature=f['signature'], detail=f['detail']) for f in fails])
        finally:
            common.rm_scratch(scratch)
    try:
        case = (c['pers'], c['loader'], c.get('via', 'direct'), list(c['ops']))
        r = run_case((scratch, case[0], case[1], case[2], case[3]))
        fails = [] if r['error'] else monitor_case(case[0], case[1], r['obs'])
        m = ctx.model.run('launcher', [f'case {case[0]} {case[1]}'] + r['lines'])
        return dict(case=c, input=r['lines'], impl=[o['line'] for o in r['obs']], model=m[1:] if m else None, error=r['error'],
                    failures=[dict(at=i, signature=s, clause=cl, detail=d) for i, s, cl, d in fails] + ([r['error']] if r['error'] else []))
    finally:
        common.rm_scratch(scratch)
