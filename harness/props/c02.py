"""C02 — all reports of a terminated process's outcome agree and waiters are released."""
from harness import pm_prop

PROPERTY = 'C02'
LEAN_PROPS = 'PlumpyModel.Props.C02'
ASSUMPTIONS = pm_prop.ASSUMPTIONS
TRUSTED = pm_prop.TRUSTED
ALPHABET = ['pause', 'play', 'kill', 'resume', 'complete', 'completeexc', 'fail', 'cancelfut', 'callsoon raise']
MONITORS = ['c02']


def run(ctx):
    return pm_prop.run_pm(ctx, ALPHABET, MONITORS, listeners=True)


def replay(ctx, failure):
    return pm_prop.replay_pm(ctx, failure, MONITORS)
