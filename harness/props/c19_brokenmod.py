"""A module that exists but cannot be imported (what a class's module looks like at load time after a helper it imports was
renamed, or inside a circular import): importing it raises a plain ImportError, not ModuleNotFoundError.  Used by C19 as one of the
forms of "unknown class" in a saved state."""
raise ImportError("cannot import name 'scale' from 'helpers' (renamed since the state was saved)")
