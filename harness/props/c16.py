"""C16 — remote control equals direct control; each transition announced once, in order.

Real plumpy processes on the deterministic loop, controlled through `RemoteProcessThreadController` ->
`LoopCommunicator` -> in-process kiwipy communicator -> `message_receive`/`broadcast_receive` -> `_schedule_rpc`, compared
(a) with a TWIN process that receives the equivalent direct call at the point where the message's handler runs
(monitors, independent of the Lean model) and (b) line by line with the Lean model `pmodel comms`.
"""
import itertools
import multiprocessing as mp

from harness import common

PROPERTY = 'C16'
LEAN_PROPS = 'PlumpyModel.Props.C16'
ASSUMPTIONS = [
    'one process per communicator; process ids are strings (the process subscribes under str(pid))',
    'the communicator is in-process (kiwipy.LocalCommunicator behind plumpy.LoopCommunicator) and delivers broadcasts '
    'positionally, as kiwipy\'s RMQ communicator does; RabbitMQ itself is out of reach offline',
    'messages are delivered between two event-loop callbacks of the deterministic loop; the hops that only copy results '
    'between futures are checked to leave the process untouched and are not events of the model',
    'a broadcast failure is injected by making broadcast_send raise at a chosen transition index; a non-tolerated '
    'exception propagates into transition_to as a failing hook (C03): the modelled run ends there',
    'user steps of the programs do not themselves call pause/play/kill',
    'noted, not raised under C16: a stock kiwipy.LocalCommunicator delivers broadcasts by keyword, which trips the filter '
    'shortcut of plumpy.communications.convert_to_comm (kwargs.get(\'sender\', args[1]) evaluates args[1] eagerly -> '
    'IndexError); production (RMQ) delivers positionally, and so does the harness communicator',
]
TRUSTED = ['communication model lean/PlumpyModel/Comms/Model.lean on top of the process-control model PM/Model.lean '
           '(hand-written; compared with the real communicator path op by op)',
           'kiwipy LocalCommunicator / futures, asyncio (pure-Python Future/Task on harness/detloop.py)']

MESSAGES = ['rpc pause', 'rpc play', 'rpc kill', 'rpc status', 'bcast pause', 'bcast play', 'bcast kill']
ODD = ['rpc bogus', 'bcast status', 'bcast bogus', 'bcast state_changed.running.finished']
CONTROL = ('pause', 'play', 'kill')
PROGS_QUICK = ['Sync2', 'Sync4', 'Async2', 'Async6', 'Waiter', 'WaitAsync', 'WaitAsync4', 'Failing', 'Failing5']
NON_TOLERATED = 'InjectedBroadcastFailure'


# ------------------------------------------------------------------------------------------------ worker side
def _strip(obs):
    return {k: v for k, v in obs.items() if k != 'broadcasts'}


def _case_dict(case):
    kind, prog, sched, fail = case
    return dict(kind=kind, prog=prog, sched={str(k): v for k, v in sorted(sched.items())}, fail=list(fail) if fail else None)


def check_broadcasts(ci, res, who, skip_idx=None):
    """clause: each completed transition is announced exactly once, in order, as state_changed.<from>.<to> sent by the pid,
    after the transition completed.  Reference: the ENTERED log from the public state-entered callback."""
    out = []
    fin = res['final']
    if fin is None:
        return out
    entered = [tuple(e) for e in fin['entered']]
    prev = None
    for frm, to in entered:
        if frm != prev:
            out.append(dict(signature='entered-log-not-a-chain', clause='consecutive entries of the entered log',
                            detail=dict(who=who, entered=entered)))
            return out
        prev = to
    want = [(f'state_changed.{a}.{b}', ci.PID) for a, b in entered]
    if skip_idx is not None and skip_idx < len(want):
        want = want[:skip_idx] + want[skip_idx + 1:]
    got = [tuple(b) for b in fin['broadcasts']]
    if got != want:
        out.append(dict(signature='broadcast-log', clause='each completed transition announced exactly once, in order, as '
                        'state_changed.<from>.<to> sent by the process id', detail=dict(who=who, broadcasts=got, expected=want)))
        return out
    for s, snd, st in res['rec_log']:
        if isinstance(s, str) and s.startswith('state_changed') and snd is not None:
            to = s.split('.')[-1]
            if st != to:
                out.append(dict(signature='broadcast-before-entered', clause='a COMPLETED transition is announced: when the '
                                'broadcast goes out the process is in the announced state',
                                detail=dict(who=who, subject=s, state_at_broadcast=st)))
                break
    return out


def PID_BC(ci, r):
    """is the process still subscribed for broadcasts at the end of the run (last observation line with a `sub=` column)"""
    for ln in reversed(r['lines']):
        if ' sub=' in ln:
            return ln.split(' sub=')[1].split(' ')[0][1:2] == '1'
    return False


def work(case):
    """run one case on the implementation; returns streams for the model comparison, monitor failures, coverage facts"""
    common.ensure_repo_on_path()
    from harness import comms_impl as ci
    kind, prog, sched, fail = case
    failures = []
    streams = []
    tol = ci.tolerated_classes()

    def add(sig, clause, detail):
        failures.append(dict(signature=sig, clause=clause, case=_case_dict(case), detail=detail))

    r = ci.run_remote(prog, sched, fail)
    if kind == 'unsub':
        # impl-only: the RPC unsubscription of the terminating process fails; its broadcast subscription is removed all the same
        for a in r['after']:
            if a['op'].startswith('bcast') and (a['scheduled'] != 0 or a['changed']):
                add('delivered-after-termination', 'a terminated process no longer receives messages (its RPC unsubscription failed, '
                    'the broadcast subscription must be gone all the same)', a)
        if r['terminated'] and PID_BC(ci, r):
            add('delivered-after-termination', 'a terminated process no longer receives messages: still subscribed for broadcasts',
                dict(subscriptions=r['lines'][-2][:200] if len(r['lines']) > 1 else None))
        return dict(streams=[], failures=failures, facts=dict(hist=r['hist'], handled=1, nlines=len(r['lines'])))
    if prog not in ci.IMPL_ONLY_PROGRAMS:
        streams.append((r['ops'], r['lines']))
    # subscriptions are the process's own: while it is live it stays reachable, whatever other processes on the same communicator
    # do (model-free reading of the `sub=` column of the observation lines)
    for ln in r['lines']:
        if ' sub=' in ln and ' st=' in ln:
            lab = ln.split(' st=')[1].split(' ')[0]
            sub = ln.split(' sub=')[1].split(' ')[0]
            if lab in ('created', 'running', 'waiting') and sub != '11':
                add('live-process-not-subscribed', 'a live process with a communicator is subscribed for RPC and broadcast messages '
                    '(remote control reaches it) until it terminates', dict(line=ln[:200]))
                break
    for mid, what in sorted(r.get('reply_leaks', {}).items()):
        add('reply-is-a-future', 'the reply is the (eventual) return value of the direct call - a value, not a future of the '
            'process\'s own loop that is still to be awaited', dict(id=mid, reply=what))
        break
    facts = dict(hist=r['hist'], handled=sum(1 for e in r['events'] if e['kind'] == 'call'), nlines=len(r['lines']))
    if kind == 'twin':
        t = ci.run_twin(prog, r)
        if prog not in ci.IMPL_ONLY_PROGRAMS:
            streams.append((t['ops'], t['lines']))
        if t['mismatches']:
            add('remote-differs-from-direct', 'controlling through the communicator has the same effect as the direct call made '
                'at the point where the handler runs', t['mismatches'][0])
        elif r['final'] != t['final']:
            a, b = r['final'], t['final']
            add('remote-differs-from-direct', 'final outcome of the remotely and the directly controlled twin',
                {k: (a[k], b.get(k)) for k in a if a[k] != b.get(k)})
        for mid, (mk, wire) in sorted(r['msgs'].items()):
            if wire in CONTROL and mid not in r['after_ids']:
                if mid not in t['returns']:
                    add('message-not-handled', 'a routed control message is dispatched to the corresponding call',
                        dict(id=mid, message=f'{mk} {wire}'))
                elif mk == 'rpc' and r['reply_values'][mid] != t['returns'][mid]:
                    add('reply-differs-from-direct', 'the reply is the (eventual) return value of the direct call',
                        dict(id=mid, message=f'{mk} {wire}', reply=r['reply_values'][mid], direct=t['returns'][mid]))
        for chk in r['status_checks']:
            rep, direct = chk['reply'], chk['direct']
            twin = dict(t['statuses'].get(chk['id'], {}))
            mine = dict(rep)
            twin.pop('ctime', None)
            mine.pop('ctime', None)
            if rep != direct or rep.get('state') != chk['state'] or rep.get('paused') != chk['paused'] or mine != twin \
                    or r['reply_raw'].get(chk['id']) != rep:
                add('status-reply', 'the status message yields the same reply as the direct call (state and paused flag of the '
                    'process at that point)', dict(reply=repr(rep), direct=repr(direct), twin=repr(twin), state=chk['state'],
                                                   paused=chk['paused'], received=repr(r['reply_raw'].get(chk['id']))))
        for e in r['events']:
            if e['kind'] == 'recv' and e['wire'] not in CONTROL and e['changed']:
                add('non-control-message-changed-process', 'only pause/play/kill messages act on the process', dict(op=e['op']))
        failures.extend(dict(f, case=_case_dict(case)) for f in check_broadcasts(ci, r, 'remote'))
        failures.extend(dict(f, case=_case_dict(case)) for f in check_broadcasts(ci, dict(final=t['final'], rec_log=[]), 'direct'))
        for a in r['after']:
            if a['op'].startswith('rpc') and a['ret'] != 'unroutable':
                add('routable-after-termination', 'a terminated process no longer receives messages (RPC must be unroutable)', a)
            if a['scheduled'] != 0 or a['changed']:
                add('delivered-after-termination', 'a terminated process no longer receives messages', a)
        if r['terminated'] is False:
            facts['not_terminated'] = 1
    else:
        r0 = ci.run_remote(prog, sched, None)
        idx, cls = fail
        # does the run with the failure look like the failure-free run (apart from the broadcast log)?
        differ = None
        if r['ctor_error']:
            differ = dict(what='the constructor raised', error=r['ctor_error'])
        elif len(r['events']) != len(r0['events']):
            differ = dict(what='different number of events', with_failure=len(r['events']), without=len(r0['events']))
        else:
            for i, (e, e0) in enumerate(zip(r['events'], r0['events'])):
                if e['kind'] != e0['kind'] or e.get('op') != e0.get('op') or _strip(e['obs']) != _strip(e0['obs']):
                    a, b = _strip(e['obs']), _strip(e0['obs'])
                    differ = dict(what='observations differ', event=i, op=e.get('op'), op_without=e0.get('op'),
                                  diff={k: (a[k], b.get(k)) for k in a if a[k] != b.get(k)})
                    break
            if differ is None and r['reply_values'] != r0['reply_values']:
                differ = dict(what='replies differ', with_failure=r['reply_values'], without=r0['reply_values'])
        if cls in ci.property_kinds():
            if r['escaped'] or differ is not None:
                add('tolerated-failure-disturbs', 'a broadcast failure of the tolerated kinds (closed connection, invalid channel, '
                    'timeout) never disturbs the process',
                    dict(differ or {}, kind=cls, index=idx, escaped_on_entered=r['escaped']))
            else:
                want = [tuple(b) for b in r0['final']['broadcasts']]
                if r['injected'] is not None:
                    want = want[:idx] + want[idx + 1:]
                got = [tuple(b) for b in r['final']['broadcasts']]
                if got != want:
                    add('broadcast-log', 'with a tolerated failure only the failed announcement is missing',
                        dict(broadcasts=got, expected=want, index=idx))
                failures.extend(dict(f, case=_case_dict(case)) for f in check_broadcasts(ci, r, 'remote', r['injected']))
        elif cls not in tol:
            if r['injected'] is not None and not r['escaped'] and differ is None:
                add('non-tolerated-swallowed', 'only closed connection, invalid channel and timeout are tolerated: any other '
                    'exception of broadcast_send surfaces (the transition fails) instead of being absorbed silently',
                    dict(index=idx, exception=cls))
        facts['hookfail'] = 1 if r['escaped'] or r['ctor_error'] else 0
        streams.append((r0['ops'], r0['lines']))
    return dict(streams=streams, failures=failures, facts=facts)


# ------------------------------------------------------------------------------------------------ generation
_NPOS = {}


def n_positions(prog):
    """number of callbacks of the uncontrolled remote run (+1: one position after the last callback)"""
    if prog not in _NPOS:
        from harness import comms_impl as ci
        r = ci.run_remote(prog, {}, None, after_checks=False)
        n = 0
        for e in r['events']:
            if e['kind'] == 'env':
                break
            if e['kind'] in ('cb', 'other'):
                n += 1
        _NPOS[prog] = n + 1
    return _NPOS[prog]


def n_transitions(prog):
    from harness import comms_impl as ci
    r = ci.run_remote(prog, {}, None, after_checks=False)
    return r['n_state']


def schedules(npos, alphabet, k):
    for pos in itertools.combinations_with_replacement(range(npos), k):
        for ops in itertools.product(alphabet, repeat=k):
            sched = {}
            for p, o in zip(pos, ops):
                sched.setdefault(p, []).append(o)
            yield sched


def gen_cases(ctx):
    from harness import comms_impl as ci
    rng = ctx.rng
    thorough = ctx.thorough
    K = 3 if thorough else 2
    cases = []
    exhaustive_upto = {}
    budget_k = 60000 if thorough else 2600          # schedules of the largest size per program before sampling
    for prog in PROGS_QUICK:
        npos = n_positions(prog) + (3 if prog in ci.WAITERS else 0)
        alphabet = MESSAGES + (['env resume'] if prog in ci.WAITERS else [])
        for k in range(0, K + 1):
            allk = list(schedules(npos, alphabet, k))
            if len(allk) > budget_k:
                allk = rng.sample(allk, budget_k)
            else:
                exhaustive_upto[prog] = k
            cases.extend(('twin', prog, s, None) for s in allk)
        # messages that are not control messages, alone and next to a control message
        for pos in range(npos):
            for odd in ODD:
                cases.append(('twin', prog, {pos: [odd]}, None))
                m = rng.choice(MESSAGES)
                cases.append(('twin', prog, {pos: [odd, m]}, None))
        # late start: the stepping task is created only at position `st`, so that handlers run while the process is CREATED
        for st in (5, 9):
            for k in range(1, 3):
                allk = list(schedules(min(npos, st + 2), MESSAGES, k))
                if len(allk) > (800 if thorough else 150):
                    allk = rng.sample(allk, 800 if thorough else 150)
                for s in allk:
                    s = {p_: list(o) for p_, o in s.items()}
                    s.setdefault(st, []).insert(0, 'env start')
                    cases.append(('twin', prog, s, None))
        # longer random schedules
        for _ in range(400 if thorough else 60):
            k = rng.randint(K + 1, 6)
            sched = {}
            for _i in range(k):
                sched.setdefault(rng.randrange(npos + 4), []).append(rng.choice(alphabet))
            cases.append(('twin', prog, sched, None))
    # a program with a raising pause hook (impl-only: twin comparison): every placement of <= 2 messages
    for k in range(1, 3):
        npos = n_positions('PauseFault') + 3
        for s in schedules(npos, MESSAGES + ['env resume'], k):
            cases.append(('twin', 'PauseFault', s, None))
    # the RPC unsubscription fails while the process terminates (impl-only)
    for prog in PROGS_QUICK:
        npos = n_positions(prog) + (2 if prog in ci.WAITERS else 0)
        for s in [{}] + list(schedules(npos, ['rpc kill', 'bcast kill'], 1)):
            for cls in ('TimeoutError', 'ConnectionClosed', 'Injected'):
                cases.append(('unsub', prog, s, ('unsub', cls)))
    # a program whose pause() / kill() answer later, with a future inside a future (impl-only: twin comparison)
    for k in range(1, 3):
        npos = n_positions('Deferred') + 3
        scheds = list(schedules(npos, MESSAGES, k))
        if k == 2 and len(scheds) > (2000 if thorough else 400):
            scheds = rng.sample(scheds, 2000 if thorough else 400)
        for s in scheds:
            cases.append(('twin', 'Deferred', s, None))
    # broadcast failures: every tolerated class and one non-tolerated exception at every transition index
    tol = sorted(set(ci.tolerated_classes()) | set(ci.property_kinds()))   # what the source tolerates + what the property names
    for prog in PROGS_QUICK:
        npos = n_positions(prog) + (2 if prog in ci.WAITERS else 0)
        nt = n_transitions(prog) + 2
        alphabet = MESSAGES + (['env resume'] if prog in ci.WAITERS else [])
        scheds = [{}] + list(schedules(npos, alphabet, 1))
        if thorough:
            two = list(schedules(npos, alphabet, 2))
            scheds += rng.sample(two, min(len(two), 300))
        elif len(scheds) > 40:
            scheds = [{}] + rng.sample(scheds[1:], 40)
        for idx in range(nt):
            for cls in tol + [NON_TOLERATED]:
                for s in scheds:
                    cases.append(('fail', prog, s, (idx, cls)))
    return cases, exhaustive_upto, K


def thread_delivery_stream():
    """impl-only: control messages delivered by ANOTHER THREAD (as a communicator thread does) to a process whose loop sits idle in
    its selector: the handler must run and the reply must arrive - the scheduling of the handler has to wake the loop"""
    common.ensure_repo_on_path()
    import asyncio
    import threading
    import plumpy
    from plumpy import process_comms as pc
    fails, n = [], 0

    class W(plumpy.Process):
        def run(self):
            return plumpy.Wait(self.nxt)

        def nxt(self, *a):
            return 7
    for intent, direct in ((pc.Intent.PAUSE, 'pause'), (pc.Intent.PLAY, 'play'), (pc.Intent.KILL, 'kill')):
        loop = asyncio.new_event_loop()
        p = W(loop=loop)
        ready = threading.Event()

        def runner():
            asyncio.set_event_loop(loop)
            loop.create_task(p.step_until_terminated())
            loop.call_soon(ready.set)
            loop.run_forever()
        t = threading.Thread(target=runner, daemon=True)
        t.start()
        ready.wait(5)
        import time
        time.sleep(0.2)                 # the process is WAITING and the loop is blocked in its selector, nothing scheduled
        n += 1
        try:
            fut = p.message_receive(None, {pc.INTENT_KEY: intent, pc.MESSAGE_TEXT_KEY: None})
            try:
                reply = fut.result(timeout=5)
                reply = reply.result(timeout=5) if hasattr(reply, 'result') else reply
                ok = reply is True
            except Exception as e:  # noqa
                reply, ok = 'raised ' + type(e).__name__, False
        except Exception as e:  # noqa
            reply, ok = 'message_receive raised ' + type(e).__name__, False
        if not ok:
            fails.append(dict(signature='cross-thread-message-not-answered', clause='controlling a process through the communicator has the '
                              'same effect and reply as the direct call (here: the message is delivered by another thread while the loop '
                              'of the process is idle)', detail=dict(message=direct, reply=str(reply)), case=dict(thread_stream=True)))
        loop.call_soon_threadsafe(loop.stop)
        t.join(5)
        try:
            loop.close()
        except Exception:  # noqa
            pass
    return n, fails


def run(ctx):
    common.ensure_repo_on_path()
    cases, exhaustive_upto, K = gen_cases(ctx)
    for h in getattr(ctx, 'hints', None) or []:
        c = h.get('case') if isinstance(h, dict) else None
        if isinstance(c, dict) and 'prog' in c:
            cases.insert(0, _from_dict(c))
    cases = common.probe_first(ctx, cases, work, lambda r: bool(r['failures']))
    with mp.Pool(ctx.workers) as pool:
        results = pool.map(work, cases, chunksize=max(1, min(64, len(cases) // (ctx.workers * 8) or 1)))
    failures, divergences = [], []
    n_thread, f_thread = thread_delivery_stream()
    failures.extend(f_thread)
    from harness.props import c16_states
    with mp.Pool(1, maxtasksperchild=1) as pool:          # impl-only: a process class with a state of its own
        failures.extend(pool.apply(c16_states.run_stream))
    hist, kinds = {}, {}
    # model comparison: all streams of all cases, in parallel driver instances
    flat = []      # (case index, ops, lines)
    for i, res in enumerate(results):
        failures.extend(res['failures'])
        for ops, lines in res['streams']:
            flat.append((i, ops, lines))
        for k, v in res['facts']['hist'].items():
            hist[k] = hist.get(k, 0) + v
        kinds[cases[i][0]] = kinds.get(cases[i][0], 0) + 1
    nchunks = max(1, ctx.workers * 2)
    chunks = [flat[j::nchunks] for j in range(nchunks)]
    outs = ctx.model.run_parallel('comms', [[ln for _i, ops, _l in ch for ln in ops] for ch in chunks])
    validated = 0
    distinct = set()
    if outs is not None:
        for ch, out in zip(chunks, outs):
            pos = 0
            for i, ops, lines in ch:
                got = out[pos:pos + len(ops)]
                pos += len(ops)
                validated += 1
                if got != lines:
                    j = next((j for j in range(len(ops)) if j >= len(got) or got[j] != lines[j]), len(ops))
                    if len(divergences) < 50:
                        divergences.append(dict(case=_case_dict(cases[i]), op_index=j, ops=ops[:j + 1],
                                                impl=lines[j] if j < len(lines) else None,
                                                model=got[j] if j < len(got) else None))
                    elif len(divergences) < 10 ** 9:
                        divergences.append(dict(case=_case_dict(cases[i]), op_index=j))
    for i, res in enumerate(results):
        if res['facts']['handled'] > 0 or res['facts'].get('hookfail'):
            if res['streams']:
                distinct.add(common.digest([cases[i][1], res['streams'][0][1]]))
    phases = sorted({k.split('@')[1] for k in hist})
    return dict(
        evaluations=len(cases), distinct_nontrivial=len(distinct),
        rule=f'per program: every placement of <= {K} control messages (RPC and broadcast variants of pause/play/kill, RPC status'
             '; resume for the waiting programs) between any two callbacks (exhaustive up to the size listed in the histogram, '
             'sampled above), non-control messages at every position, longer random schedules; every tolerated failure class '
             'and one non-tolerated exception at every transition index under single-message schedules. '
             'non-trivial = at least one scheduled handler ran (or a failure was injected); distinct = distinct (program, '
             'observation stream of the remotely controlled run)',
        samples=[dict(ops=results[i]['streams'][0][0][:12], impl=results[i]['streams'][0][1][:12])
                 for i in (len(cases) // 3, len(cases) // 2)],
        traces_validated=validated, divergences=divergences, failures=failures, exhaustive=False,
        histograms=dict(handler_phase=hist, case_kinds=kinds, exhaustive_upto_messages=exhaustive_upto, phases_seen=phases,
                        model_streams=len(flat), model_lines=sum(len(o) for _i, o, _l in flat)),
    )


def _from_dict(c):
    sched = {int(k): list(v) for k, v in (c.get('sched') or {}).items()}
    fail = tuple(c['fail']) if c.get('fail') else None
    return (c.get('kind', 'twin'), c['prog'], sched, fail)


def replay(ctx, failure):
    if failure['case'].get('custom_states'):
        from harness.props import c16_states
        with mp.Pool(1, maxtasksperchild=1) as pool:
            fs = pool.apply(c16_states.run_stream)
        return dict(failures=[dict(signature=f['signature'], detail=f['detail']) for f in fs])
    if failure['case'].get('thread_stream'):
        n, fs = thread_delivery_stream()
        return dict(runs=n, failures=[dict(signature=f['signature'], detail=f['detail']) for f in fs])
    case = _from_dict(failure['case'])
    res = work(case)
    out = dict(case=failure['case'], failures=res['failures'], impl=[dict(ops=o, lines=l) for o, l in res['streams']])
    ms = []
    for ops, lines in res['streams']:
        m = ctx.model.run('comms', ops)
        ms.append(m)
    out['model'] = ms
    out['model_agrees'] = all(m == l for m, (_o, l) in zip(ms, res['streams'])) if all(m is not None for m in ms) else None
    return out
