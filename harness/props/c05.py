"""C05 — pause/play is transparent: nothing runs while paused, no step lost or repeated."""
from harness import pm_prop

PROPERTY = 'C05'
LEAN_PROPS = 'PlumpyModel.Props.C05'
ASSUMPTIONS = pm_prop.ASSUMPTIONS
TRUSTED = pm_prop.TRUSTED
ALPHABET = ['pause', 'play', 'resume', 'complete']
MONITORS = ['c05', 'c05-transparent', 'c05-status']


def run(ctx):
    return pm_prop.run_pm(ctx, ALPHABET, MONITORS, k_quick=4, k_thorough=5, listeners=True)


def replay(ctx, failure):
    return pm_prop.replay_pm(ctx, failure, MONITORS)
