"""C05 — pause/play is transparent: nothing runs while paused, no step lost or repeated."""
from harness import pm_prop

PROPERTY = 'C05'
LEAN_PROPS = 'PlumpyModel.Props.C05'
ASSUMPTIONS = pm_prop.ASSUMPTIONS + [
    'status stream: the calls of set_status / on_paused(msg) / on_playing recorded on the real process (passive overrides of '
    'the generated class) are replayed through the status model `pmodel status` and the status after each call is compared; '
    'schedules place <= 3 (4 thorough) of pause / play / set_status(x) / set_status(None) requests, the process starting with '
    'and without a status message']
TRUSTED = pm_prop.TRUSTED + [
    'status model lean/PlumpyModel/Status/Model.lean (hand-written mirror of set_status / on_paused / on_playing), compared '
    'with the real status after every recorded hook call']
ALPHABET = ['pause', 'play', 'resume', 'complete', 'callsoon ok', 'callsoon raise']
MONITORS = ['c05', 'c05-transparent', 'c05-status']
STATUS_OPS = ['pause', 'play', 'setstatus x', 'setstatus -']
STATUS_PROGRAMS = ['Sync2', 'Async2', 'Waiter', 'WaitAsync', 'Chain']


def _tok(v):
    return '-' if v is None else '=' + str(v).replace(' ', '_')


def _status_case(item):
    """-> (model line, impl tokens, failures of the property's clause decided on the recorded calls alone)"""
    from harness import pm
    name, prog, sched, status0 = item
    # a third of the cases: the class also sets its status from a state hook (on_entered), i.e. DURING transitions
    # ... and a third keeps its status on a record of its own behind the public status / set_status pair
    v = (sum(int(k) for k in sched) + len(name)) % 3
    hook = True if v == 1 else 'ext' if v == 2 else False
    r = pm.run_schedule(prog, sched, status0=status0, hookstatus=hook)
    evs = list(r.p.__dict__.get('_status_ev', []))
    r.close()
    line = ' '.join(('Y' if k == 'Y' else k + _tok(a)) for k, a, _s in evs)
    impl = ' '.join(_tok(s) for _k, _a, s in evs)
    fails = []
    before_pause, prev = None, None       # status just before the most recent on_paused / after the previous call
    armed = False
    for k, a, s in evs:
        if k == 'P':
            before_pause, armed = prev, True
        elif k == 'Y':
            if armed and s != before_pause:
                fails.append(dict(signature='c05-status-not-restored', clause='the status message present before the pause is restored by play',
                                  detail=dict(before_pause=before_pause, after_play=s, calls=[(k2, a2) for k2, a2, _ in evs]),
                                  case=dict(program=name, prog=prog, schedule={str(k3): v for k3, v in sched.items()}, status0=status0,
                                            status_stream=True)))
                break
            armed = False
        prev = s
    return line, impl, fails, len(evs)


def _status_cases(ctx):
    from harness import pm
    cases = []
    K = 4 if ctx.thorough else 3
    for name in STATUS_PROGRAMS:
        prog = pm.CORPUS[name]
        npos = min(pm.n_positions(prog), 6)
        for sched in pm.schedules(npos, STATUS_OPS, K):
            if not any(o == 'pause' for ops in sched.values() for o in ops):
                continue
            for status0 in ('s0', None):
                cases.append((name, prog, dict(sched), status0))
    return cases


def run(ctx):
    import multiprocessing as mp
    out = pm_prop.run_pm(ctx, ALPHABET, MONITORS, k_quick=4, k_thorough=5, listeners=True)
    cases = _status_cases(ctx)
    if not ctx.thorough and len(cases) > 30000:
        cases = ctx.rng.sample(cases, 30000)
    with mp.Pool(ctx.workers) as pool:
        res = pool.map(_status_case, cases, chunksize=200)
    lines = [r[0] for r in res]
    chunks = [lines[i:i + 5000] for i in range(0, len(lines), 5000)]
    outs = ctx.model.run_parallel('status', chunks) if lines else []
    model = [l for ch in outs for l in ch] if outs is not None else None
    ndiv = 0
    for (name, prog, sched, status0), (line, impl, fails, _n), m in zip(cases, res, model if model is not None else [None] * len(res)):
        out['failures'].extend(fails)
        if m is not None and m.strip() != impl.strip():
            ndiv += 1
            if ndiv <= 50:
                out['divergences'].append(dict(case=dict(program=name, prog=prog, schedule={str(k): v for k, v in sched.items()},
                                                         status0=status0, status_stream=True), line=line, impl=impl, model=m))
    out['evaluations'] += len(cases)
    if model is not None:
        out['traces_validated'] = out.get('traces_validated', 0) + len(cases)
    hooks = sum(r[3] for r in res)
    out['histograms']['status_stream'] = dict(cases=len(cases), hook_calls_replayed=hooks, divergences=ndiv,
                                              paused_with_message_and_no_status=sum(1 for r in res if ' P=' in ' ' + r[0] and r[0].startswith('P')))
    return out


def replay(ctx, failure):
    case = failure['case']
    if case.get('status_stream'):
        from harness import pm
        prog, sched = pm.fix_case(case)
        line, impl, fails, _n = _status_case((case.get('program'), prog, sched, case.get('status0')))
        m = ctx.model.run('status', [line])
        return dict(line=line, impl=impl, model=m[0] if m else None,
                    failures=[dict(signature=f['signature'], clause=f['clause'], detail=str(f['detail'])[:500]) for f in fails])
    return pm_prop.replay_pm(ctx, failure, MONITORS)
