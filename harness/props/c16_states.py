"""C16, impl-only stream: a process class with ONE MORE state than the stock ones (`queued` between created and running, its label a
member of the class's own enumeration - the state machine takes any set of states): every completed transition is announced exactly
once, in order, as `state_changed.<from>.<to>` sent by the process id, also while the process is controlled remotely in that state.
Reference: what the state machine itself reports through `on_entered`."""
from harness import common


def run_stream(_=None):
    common.ensure_repo_on_path()
    import asyncio
    import enum
    import logging
    import kiwipy
    import plumpy
    from plumpy import process_states
    from plumpy.process_comms import MessageBuilder
    from plumpy.process_states import ProcessState
    logging.disable(logging.CRITICAL)

    class Phase(enum.Enum):
        QUEUED = 'queued'

    class Queued(process_states.State):
        LABEL = Phase.QUEUED
        ALLOWED = {ProcessState.RUNNING, ProcessState.KILLED, ProcessState.EXCEPTED}

        def __init__(self, process, run_fn):
            super().__init__(process)
            self.run_fn = run_fn

        def execute(self):
            return self.create_state(ProcessState.RUNNING, self.run_fn)

    class Created(process_states.Created):
        ALLOWED = process_states.Created.ALLOWED | {Phase.QUEUED}

        def execute(self):
            return self.create_state(Phase.QUEUED, self.run_fn)

    class QueuedProcess(plumpy.Process):
        @classmethod
        def get_states(cls):
            stock = tuple(state for state in super().get_states() if state.LABEL is not ProcessState.CREATED)
            return (Created, Queued) + stock

        def __init__(self, *args, **kwargs):
            self.transitions = []
            super().__init__(*args, **kwargs)

        def on_entered(self, from_state):
            from_label = from_state.LABEL.value if from_state is not None else None
            self.transitions.append(f'state_changed.{from_label}.{self.state.value}')
            super().on_entered(from_state)

        def run(self):
            return 5

    fails = []

    def bad(what, detail):
        fails.append(dict(signature='broadcast-log', clause='each completed state transition is announced exactly once and in order as '
                          'state_changed.<from>.<to> sent by the process id (class with a state of its own)',
                          detail=dict(what=what, **detail), case=dict(custom_states=True)))

    loop = asyncio.new_event_loop()
    asyncio.set_event_loop(loop)

    def turn(n=1):
        for _ in range(n):
            loop.call_soon(loop.stop)
            loop.run_forever()
    comm = kiwipy.LocalCommunicator()
    announced = {}

    def observer(_comm, body, sender=None, subject=None, correlation_id=None):
        if isinstance(subject, str) and subject.startswith('state_changed'):
            announced.setdefault(sender, []).append(subject)
    comm.add_broadcast_subscriber(observer, identifier='observer')
    try:
        first = QueuedProcess(pid='first', loop=loop, communicator=comm)
        task = loop.create_task(first.step_until_terminated())
        for _ in range(60):
            if task.done():
                break
            turn()
        second = QueuedProcess(pid='second', loop=loop, communicator=comm)
        stepping = loop.create_task(second.step())          # created -> queued
        for _ in range(10):
            if stepping.done():
                break
            turn()
        reply = comm.rpc_send('second', MessageBuilder.kill('no slot')).result()
        for _ in range(30):
            if reply.done():
                break
            turn()
        third = QueuedProcess(pid='third', loop=loop, communicator=comm)
        comm.broadcast_send({plumpy.process_comms.MESSAGE_TEXT_KEY: 'hold'}, sender=None, subject=plumpy.process_comms.Intent.PAUSE)
        turn(4)
        t3 = loop.create_task(third.step_until_terminated())
        turn(6)
        comm.broadcast_send({plumpy.process_comms.MESSAGE_TEXT_KEY: 'go'}, sender=None, subject=plumpy.process_comms.Intent.PLAY)
        for _ in range(60):
            if t3.done():
                break
            turn()
        want_states = {'first': 'finished', 'second': 'killed', 'third': 'finished'}
        for proc in (first, second, third):
            st = proc.state.value
            if st != want_states[proc.pid]:
                bad('unexpected final state', dict(pid=proc.pid, state=st, transitions=proc.transitions))
            if announced.get(proc.pid) != proc.transitions:
                bad('announcements differ from the transitions made', dict(pid=proc.pid, made=proc.transitions,
                                                                             announced=announced.get(proc.pid)))
    except BaseException as e:  # noqa
        bad('the stream raised', dict(error=type(e).__name__ + ': ' + str(e)[:200]))
    finally:
        try:
            loop.close()
        except Exception:  # noqa
            pass
        asyncio.set_event_loop(None)
    return fails
