"""C20 — future adapters deliver result, error or cancellation exactly once."""
import itertools
import math
import multiprocessing as mp

from harness import common, futures_impl as fi

PROPERTY = 'C20'
LEAN_PROPS = 'PlumpyModel.Props.C20'
ASSUMPTIONS = [
    'asyncio / concurrent.futures are modelled by their contract (done-callbacks of a concurrent future run inline, those of an '
    'asyncio future are scheduled; setting a done future raises InvalidStateError); exercised through the real libraries',
    'interleaving semantics: each operation of the environment (completing a level, applying an adapter) is atomic with respect '
    'to the loop thread (run inside one loop callback, or on the communicator thread while the loop is busy); thread identity '
    'is not part of the model; asyncio futures are completed on the loop thread only',
    'exceptions set on futures are `Exception`s; the only BaseException considered is asyncio.CancelledError from awaiting a '
    'cancelled future (and a BaseException raised by an action function)',
    'the consumer does not cancel or set the future returned by an adapter (covered by the correspondence, outside the theorems)',
    'chains of futures are acyclic',
]
TRUSTED = ['futures model lean/PlumpyModel/Futures/Model.lean (hand-written, compared with the real adapters per operation)']

TERMS = ['res', 'exc', 'can', 'exk']         # exk: an EXCEPTION whose class is kiwipy's CancelledError (not a cancellation)
TERM_OBS = {'res': 'V7', 'exc': 'Xu3', 'can': 'C', 'exk': 'Xu77'}


def term_op(term, h):
    return {'res': f'res:{h}:7', 'exc': f'exc:{h}:3', 'can': f'can:{h}', 'exk': f'exc:{h}:77'}[term]


def level_op(j, n, term):
    return f'ref:{j}:{j + 1}' if j < n else term_op(term, j)


# ---------------------------------------------------------------------------------------------------------------------
# case construction: a case is dict(fam, groups=[(thread, [ops])], meta...)

def chain_case(fam, n, term, order, mask, rng, variant=''):
    """order: sequence of events: ints = levels of the chain 0..n, 'W' = apply the adapter, 'U' = unwrap the comm reply.
    mask bit i set: drain after event i (the last event is always followed by a drain)."""
    kind = 'nk' if fam == 'unwrap' else 'na'
    setup = [kind] * (n + 1)
    nh = n + 1
    events = []
    handles = {}
    for ev in order:
        if ev == 'W':
            if fam == 'unwrap':
                op = 'unwrap:0'
            elif fam == 'mirror':
                op = 'mirror:0'
            elif fam == 'rpc':
                op = 'rpc:f0' if n >= 0 else {'res': 'rpc:r7', 'exc': 'rpc:x3', 'exk': 'rpc:x77'}[term]
            elif fam == 'comm':
                if n >= 0:
                    op = 'comm:w0' if variant == 'await' else 'comm:f0'
                else:
                    op = {'res': 'comm:r7', 'exc': 'comm:x3', 'can': 'comm:c', 'exk': 'comm:x77'}[term]
            handles['W'] = nh
            nh += 1
            events.append(('W', op))
        elif ev == 'U':
            handles['U'] = nh
            events.append(('U', f"unwrap:{handles['W']}"))
            nh += 1
        else:
            events.append((ev, level_op(ev, n, term)))
    groups = []
    if setup:
        groups.append(('L' if kind == 'na' else rng.choice('LC'), setup))
    cur = []
    for i, (ev, op) in enumerate(events):
        cur.append((ev, op))
        if (mask >> i) & 1 or i == len(events) - 1:
            needs_loop = any(isinstance(e, int) for e, _ in cur) and kind == 'na'
            groups.append(('L' if needs_loop else rng.choice('LC'), [o for _, o in cur]))
            cur = []
    return dict(fam=fam, n=n, term=term, order=[str(e) for e in order], variant=variant, groups=groups, handles=handles)


def task_case(outs, final, pos, mask, rng):
    """create_task with a coroutine awaiting futures 0..k-1 (designated outcomes `outs`) and ending with `final`"""
    k = len(outs)
    extra = final[0] in 'fwW'
    nfut = k + (1 if extra else 0)
    spec = ''.join(f'a{j}.' for j in range(k))
    if final[0] in 'fwW':
        spec += f'{final[0]}{k}'
    else:
        spec += final
    all_outs = list(outs) + (['res'] if final[0] == 'f' else [final[1:]] if extra else [])
    events = [(j, term_op(all_outs[j], j)) for j in pos if j != 'T']
    order = []
    it = iter(events)
    for p in pos:
        if p == 'T':
            order.append(('T', f'task:{spec}'))
            order.append(('T', f'mirror:{nfut}'))      # a consumer of the task's future: its done-callbacks must be delivered too
        else:
            order.append(next(it))
    groups = [('L', ['na'] * nfut)] if nfut else []
    cur = []
    for i, (ev, op) in enumerate(order):
        cur.append((ev, op))
        if (mask >> i) & 1 or i == len(order) - 1:
            needs_loop = any(isinstance(e, int) for e, _ in cur)
            groups.append(('L' if needs_loop else rng.choice('LC'), [o for _, o in cur]))
            cur = []
    return dict(fam='task', n=k, outs=all_outs, final=final, spec=spec, groups=groups, handles={'W': nfut, 'M': nfut + 1},
                order=[str(p) for p in pos])


def action_case(call, seq, mask):
    setup = ['na'] if call.lstrip('k')[0] == 'f' else []
    a = len(setup)
    ops = [f'act:{call}'] + [(f'run:{a}' if s == 'r' else f'can:{a}') for s in seq]
    groups = []
    cur = list(setup)
    for i, op in enumerate(ops):
        cur.append(op)
        if (mask >> i) & 1 or i == len(ops) - 1:
            groups.append(('L', cur))
            cur = []
    return dict(fam='action', call=call, seq=seq, groups=groups, handles={'W': a}, n=len(seq))


def random_case(rng, nops):
    """random operation sequences, consumer interference included (correspondence only)"""
    kinds = []      # per handle: ('k'|'a', owner 'env'|'adp'|'act')
    groups = []
    cur = []

    def envs(kind=None, after=-1):
        return [i for i, (k, o) in enumerate(kinds) if o == 'env' and i > after and (kind is None or k == kind)]

    def close():
        # asyncio futures are completed on the loop thread only; groups that do not touch them run on either thread
        loop_only = any(o.split(':')[0] == 'run' or (o.split(':')[0] in ('res', 'ref', 'exc', 'can') and
                                                      kinds[int(o.split(':')[1])][0] == 'a') for o in cur)
        groups.append(('L' if loop_only else rng.choice('LC'), list(cur)))
        cur.clear()

    for _ in range(nops):
        choices = ['nk', 'na']
        if kinds:
            choices += ['set'] * 4 + ['unwrap', 'mirror', 'task', 'rpc', 'comm', 'act', 'run', 'cut']
        c = rng.choice(choices)
        if c == 'nk':
            cur.append('nk'); kinds.append(('k', 'env'))
        elif c == 'na':
            cur.append('na'); kinds.append(('a', 'env'))
        elif c == 'set':
            h = rng.randrange(len(kinds))
            how = rng.choice(['res', 'exc', 'can', 'ref', 'ref'])
            if how == 'ref':
                later = envs(after=h)
                if kinds[h][1] == 'env' and later:
                    cur.append(f'ref:{h}:{rng.choice(later)}')
                else:
                    cur.append(f'res:{h}:{rng.randrange(9)}')
            elif how == 'can':
                cur.append(f'can:{h}')
            else:
                cur.append(f'{how}:{h}:{rng.randrange(9)}')
        elif c in ('unwrap', 'mirror'):
            h = rng.randrange(len(kinds))
            cur.append(f'{c}:{h}'); kinds.append(('k', 'adp'))
        elif c == 'task':
            aios = envs()
            spec = ''
            for _ in range(rng.randrange(3)):
                if aios:
                    spec += f'a{rng.choice(aios)}.'
            fin = rng.choice(['r', 'x', 'c', 'f', 'w', 'W'] if aios else ['r', 'x', 'c'])
            if fin == 'W' and spec:
                fin = 'w'
            spec += fin + (str(rng.choice(envs())) if fin == 'f' else str(rng.choice(aios)) if fin in 'wW' else
                           '' if fin == 'c' else str(rng.randrange(9)))
            cur.append(f'task:{spec}'); kinds.append(('a', 'adp'))
        elif c in ('rpc', 'act'):
            fin = rng.choice(['r', 'x', 'b', 'f'] if envs() else ['r', 'x', 'b'])
            spec = fin + (str(rng.choice(envs())) if fin == 'f' else str(rng.randrange(9)))
            if c == 'act' and rng.random() < 0.25:
                spec = 'k' + spec
            cur.append(f'{c}:{spec}'); kinds.append(('k', 'adp') if c == 'rpc' else ('a', 'act'))
        elif c == 'comm':
            aios = envs('a')
            fin = rng.choice(['r', 'x', 'c', 'f', 'w'] if aios else ['r', 'x', 'c'])
            spec = fin + (str(rng.choice(envs())) if fin == 'f' else str(rng.choice(aios)) if fin == 'w' else
                          '' if fin == 'c' else str(rng.randrange(9)))
            cur.append(f'comm:{spec}'); kinds.append(('k', 'adp'))
        elif c == 'run':
            acts = [i for i, (k, o) in enumerate(kinds) if o == 'act']
            if acts:
                cur.append(f'run:{rng.choice(acts)}')
        elif c == 'cut' and cur:
            close()
    if cur:
        close()
    return dict(fam='random', n=nops, groups=groups, handles={})


def masks(nev, rng, exhaustive, extra=2):
    """drain patterns over nev events (the final drain is implicit)"""
    nb = max(nev - 1, 0)
    if exhaustive:
        return list(range(1 << nb))
    ms = {0, (1 << nb) - 1}
    for _ in range(extra):
        ms.add(rng.getrandbits(nb) if nb else 0)
    return sorted(ms)


def perms_or_sample(items, rng, limit, ok=lambda p: True):
    n = math.factorial(len(items))
    if n <= limit:
        return [p for p in itertools.permutations(items) if ok(p)], True
    out = []
    while len(out) < limit:
        p = list(items)
        rng.shuffle(p)
        if ok(p):
            out.append(tuple(p))
    return out, False


def gen_cases(ctx):
    rng = ctx.rng
    th = ctx.thorough
    cases = []
    exhaustive = True
    # A. unwrap_kiwi_future over kiwi chains: every depth, terminal outcome, and order of (apply adapter, complete level j)
    dmax = 6 if th else 4
    for n in range(dmax + 1):
        orders, full = perms_or_sample(['W'] + list(range(n + 1)), rng, 45000 if th else 800)
        exhaustive &= full
        for term in TERMS:
            for o in orders:
                cases.append(chain_case('unwrap', n, term, o, (1 << (n + 2)) - 1, rng))
    # B. plum_to_kiwi_future over asyncio chains, with every pattern of loop runs in between (small depth) / sampled
    for n in range((6 if th else 4) + 1):
        orders, full = perms_or_sample(['W'] + list(range(n + 1)), rng, 5040 if th else 720)
        exh_masks = n <= (3 if not th else 4)
        for term in TERMS:
            for o in orders:
                for m in masks(n + 2, rng, exh_masks, extra=1):
                    cases.append(chain_case('mirror', n, term, o, m, rng))
    # C. LoopCommunicator + LocalCommunicator: rpc_send to a subscriber returning a chain; the reply is unwrapped
    for n in range(-1, (5 if th else 3) + 1):
        items = ['W', 'U'] + list(range(n + 1))
        orders, full = perms_or_sample(items, rng, 2600 if th else 400, ok=lambda p: p.index('W') < p.index('U'))
        for term in TERMS:
            for variant in (['', 'await'] if n >= 0 else ['']):
                for o in orders:
                    for m in masks(len(items), rng, n <= 1, extra=1):
                        cases.append(chain_case('comm', n, term, o, m, rng, variant))
    # E. Process._schedule_rpc over asyncio chains
    for n in range(-1, (6 if th else 4) + 1):
        orders, full = perms_or_sample(['W'] + list(range(n + 1)), rng, 2000 if th else 720)
        for term in TERMS:
            if n == -1 and term in ('can', 'exk'):
                continue
            for o in orders:
                for m in masks(n + 2, rng, n <= 2, extra=1):
                    cases.append(chain_case('rpc', n, term, o, m, rng))
    # D. create_task: coroutines awaiting k futures (every outcome each), every final statement, every order
    finals = ['r5', 'x2', 'c', 'fres', 'wres', 'wexc', 'wcan', 'Wres', 'Wexc', 'Wcan']
    for k in range(0, (4 if th else 3) + 1):
        for outs in itertools.product(TERMS, repeat=k):
            # beyond the first non-value outcome the remaining awaits are never reached: keep them, they are still completed
            for final in finals:
                if final[0] == 'W' and k > 0:
                    continue
                nf = k + (1 if final[0] in 'fwW' else 0)
                pos_all, _ = perms_or_sample(['T'] + list(range(nf)), rng, 24 if not th else 120)
                if not th and k >= 2:
                    pos_all = rng.sample(pos_all, min(len(pos_all), 6))
                for pos in pos_all:
                    for m in masks(nf + 1, rng, nf <= 1, extra=0):
                        cases.append(task_case(list(outs), final, pos, m, rng))
    # F. CancellableAction: every sequence of run / cancel
    for call in ['r5', 'f0', 'x2', 'b1', 'kr5', 'kx2', 'kb1']:
        for ln in range(1, (5 if th else 4) + 1):
            for seq in itertools.product('rc', repeat=ln):
                for m in masks(ln + 1, rng, ln <= 2, extra=0):
                    cases.append(action_case(call, ''.join(seq), m))
    # G. random sequences over all operations (consumer interference, mixed kinds)
    for _ in range(20000 if th else 2500):
        cases.append(random_case(rng, rng.randint(3, 14)))
    # corpus: the op-level analogue of finding F20 (RPC reply awaiting an action that gets cancelled)
    cases.append(dict(fam='rpc', n=0, term='can', order=['W', '0'], variant='corpus-f20', handles={'W': 1},
                      groups=[('L', ['act:r1']), ('C', ['rpc:f0']), ('L', ['can:0'])]))
    return cases, exhaustive


# ---------------------------------------------------------------------------------------------------------------------
# execution

def run_impl(case):
    try:
        return fi.run_case(case['groups'])
    except BaseException as e:  # noqa  (also asyncio.CancelledError, a BaseException: it must not take the worker down)
        return ['crash:' + type(e).__name__ + ':' + str(e)[:200]]


def split_obs(tok):
    ret, hs, errs = tok.split('|')[:3]
    return ret, hs.split(',') if hs else [], errs


def innermost(obs):
    while obs.startswith('R'):
        obs = obs[3:-1]
    return obs


def steps_of(case, out):
    """[(op or 'drain', ret, handle observations, error counters)]"""
    ops = []
    for _, g in case['groups']:
        ops.extend(g)
        ops.append('drain')
    return [(op,) + split_obs(tok) for op, tok in zip(ops, out)]


# ---------------------------------------------------------------------------------------------------------------------
# monitors: the property's clauses evaluated on the implementation's observations (no Lean model involved)

def fail(case, sig, clause, detail):
    return dict(signature=sig, clause=clause, case=dict(fam=case['fam'], groups=case['groups'], meta={
        k: v for k, v in case.items() if k not in ('groups',)}), detail=detail)


def monitor_chain(case, steps):
    fam, n, term = case['fam'], case['n'], case['term']
    want = 'Xw3' if (fam == 'rpc' and n == -1 and term == 'exc') else TERM_OBS[term]
    hw = case['handles'].get('W')
    hu = case['handles'].get('U')
    watch = hu if fam == 'comm' else hw
    levels = list(range(n + 1))
    if case.get('variant') == 'corpus-f20':
        levels, want, watch = [0], 'C', 1
    fails = []
    for i, (op, ret, hs, errs) in enumerate(steps):
        if errs != 'c0l0':
            fails.append(fail(case, f'{fam}-error-escaped', 'delivers exactly once (no InvalidStateError escapes from a callback)',
                              dict(step=i, op=op, errs=errs)))
            break
        if watch is None or watch >= len(hs):
            continue
        got = hs[watch]
        lv = [hs[j].split(':')[-1] if hs[j].startswith('A') else hs[j] for j in levels]
        all_done = all(x != 'P' for x in lv)
        inner_pending = bool(lv) and lv[-1] == 'P'
        if fam == 'mirror':
            # deep mirror: same shape, kiwi futures instead of loop futures
            if innermost(got) not in ('P', want) or (inner_pending and innermost(got) != 'P'):
                fails.append(fail(case, 'mirror-wrong-outcome', 'the mirror ends with the innermost outcome and nothing else',
                                  dict(step=i, op=op, got=got, want=want)))
                break
            if op == 'drain' and got != hs[0].replace('Ra(', 'Rk('):
                fails.append(fail(case, 'mirror-unfaithful', 'the communicator-side mirror follows the loop future level by level',
                                  dict(step=i, got=got, loop_side=hs[0])))
                break
        else:
            if got not in ('P', want) or (inner_pending and got != 'P'):
                fails.append(fail(case, f'{fam}-wrong-outcome', 'ends with the outcome of the innermost computation and nothing else',
                                  dict(step=i, op=op, got=got, want=want)))
                break
            if op == 'drain' and got != (want if all_done else 'P'):
                sig = f'{fam}-wrong-outcome'
                if want == 'C' and got == 'P' and fam == 'rpc':
                    sig = 'cancel-lost-schedule-rpc'
                fails.append(fail(case, sig, 'once every level is complete the adapter future holds the innermost outcome; '
                                  'before that it is pending', dict(step=i, got=got, want=want if all_done else 'P',
                                                                    levels=lv)))
                break
    return fails


def task_reference(case, hs):
    """what the coroutine has done, given the states of the futures it awaits"""
    k = case['n']
    final = case['final']
    for j in range(k):
        if hs[j] == 'P':
            return 'P'
        if hs[j] == 'C':
            return 'C'
        if hs[j].startswith('X'):
            return hs[j]
    if final[0] == 'r':
        return 'V' + final[1:]
    if final[0] == 'x':
        return 'Xu' + final[1:]
    if final == 'c':
        return 'C'
    if final[0] == 'f':
        return 'Ra(' + hs[k] + ')'
    return hs[k]  # w / W: the outcome of the awaited future


def monitor_task(case, steps):
    hw = case['handles']['W']
    for i, (op, ret, hs, errs) in enumerate(steps):
        if errs != 'c0l0':
            return [fail(case, 'task-error-escaped', 'delivers exactly once', dict(step=i, errs=errs))]
        if hw >= len(hs):
            continue
        want = task_reference(case, hs)
        got = hs[hw]
        if op == 'drain' and got != want:
            sig = 'cancel-lost-create-task' if (want == 'C' and got == 'P') else 'task-wrong-outcome'
            return [fail(case, sig, "the future returned for a scheduled coroutine ends with the coroutine's outcome",
                         dict(step=i, got=got, want=want))]
        hm = case['handles'].get('M')
        if op == 'drain' and hm is not None and hm < len(hs) and want[0] in 'VXC' and hs[hm] != want:
            return [fail(case, 'task-outcome-not-delivered', "the outcome of a scheduled coroutine is delivered to whoever waits on the "
                         'returned future (here: its mirror), whichever thread and current loop it was scheduled from',
                         dict(step=i, task=got, mirror=hs[hm], want=want))]
        if got != 'P' and got != want:
            return [fail(case, 'task-wrong-outcome', 'nothing else is delivered', dict(step=i, got=got, want=want))]
    return []


def monitor_action(case, steps):
    a = case['handles']['W']
    call = case['call']
    st, calls, used = 'P', 0, False
    for i, (op, ret, hs, errs) in enumerate(steps):
        if a >= len(hs):
            continue
        n_calls, got = hs[a][1:].split(':', 1)
        n_calls = int(n_calls)
        if n_calls > 1:
            return [fail(case, 'action-ran-twice', 'a cancellable action runs its function at most once',
                         dict(step=i, calls=n_calls))]
        if op.startswith('run:'):
            if st != 'P':
                if ret != 'Eact' or n_calls != calls or got != st:
                    return [fail(case, 'action-not-refused', 'refuses to run again or after cancellation',
                                 dict(step=i, ret=ret, before=st, after=got, calls=n_calls))]
            elif not used:
                used = True
                calls = 1
                if n_calls != 1:
                    return [fail(case, 'action-not-run', 'run() calls the function', dict(step=i, calls=n_calls))]
                if call[0] == 'k':
                    # superseded while it ran: it stays cancelled (what run() raises then is left to the correspondence)
                    want = 'C'
                    if call[1] == 'r' and ret != 'ok':
                        return [fail(case, 'action-outcome', 'a function that returned normally does not make run() raise: the '
                                     'outcome is reported through the action itself', dict(step=i, ret=ret, got=got))]
                    if got != want:
                        return [fail(case, 'action-outcome', 'an action cancelled while it runs stays cancelled',
                                     dict(step=i, ret=ret, got=got, want=want))]
                    st = want
                    continue
                want = {'r': 'V' + call[1:], 'x': 'Xu' + call[1:], 'f': 'Ra(P)', 'b': None}[call[0]]
                if want is not None and (got != want or ret != 'ok'):
                    return [fail(case, 'action-outcome', 'reports its outcome (value or exception) through itself',
                                 dict(step=i, ret=ret, got=got, want=want))]
                if want is not None:
                    st = want
            else:
                # run again after a BaseException escaped from the function: only "at most once" is demanded
                st = got
        elif op.startswith('can:'):
            if st == 'P':
                st = 'C'
            if got != st:
                return [fail(case, 'action-outcome', 'a cancelled action is cancelled; a done one keeps its outcome',
                             dict(step=i, got=got, want=st))]
        if n_calls != calls:
            return [fail(case, 'action-ran-twice', 'the function runs only inside the first run()', dict(step=i, calls=n_calls))]
    return []


def monitors(case, out):
    if out and out[0].startswith('crash:'):
        return [fail(case, 'adapter-crashed', 'the adapters do not raise', out[0])]
    steps = steps_of(case, out)
    fam = case['fam']
    if fam in ('unwrap', 'mirror', 'comm', 'rpc'):
        return monitor_chain(case, steps)
    if fam == 'task':
        return monitor_task(case, steps)
    if fam == 'action':
        return monitor_action(case, steps)
    return []


def monitor_corpus(r):
    if r.get('pause_reply') == 'P':
        return [dict(signature='cancel-lost-schedule-rpc', clause='the reply of a scheduled control call ends with the cancellation '
                     'of the action it awaits', case=dict(fam='corpus-f20'), detail=r)]
    if not r.get('stepping') or r.get('pause_reply') != 'C':
        return [dict(signature='corpus-f20-shape', clause='corpus scenario: RPC pause during a step, then play', case=dict(
            fam='corpus-f20'), detail=r)]
    return []


# ---------------------------------------------------------------------------------------------------------------------

def idle_loop_stream(_=None):
    """impl-only: `create_task` (and so every subscriber converted by `convert_to_comm`) is called from a thread that is NOT the
    loop's, while the loop idles in its selector with nothing scheduled: the coroutine must be run and its outcome delivered
    without anything else waking the loop"""
    from harness import common
    common.ensure_repo_on_path()
    import asyncio
    import threading
    import time
    from plumpy import futures
    fails = []
    for what in ('value', 'exception'):
        loop = asyncio.new_event_loop()
        ready = threading.Event()

        def runner():
            asyncio.set_event_loop(loop)
            loop.call_soon(ready.set)
            loop.run_forever()
        t = threading.Thread(target=runner, daemon=True)
        t.start()
        ready.wait(5)
        time.sleep(0.2)            # the loop now blocks in its selector

        async def coro():
            if what == 'exception':
                raise ValueError('boom')
            return 5
        fut = futures.create_task(coro, loop)
        deadline = time.time() + 5
        while time.time() < deadline and not fut.done():
            time.sleep(0.01)
        ok = fut.done()
        if ok and not fut.cancelled():
            fut.exception()          # (retrieved: nothing is left for the garbage collector to report)
        if not ok:
            fails.append(dict(signature='task-never-run-on-idle-loop', clause="the future returned for a scheduled coroutine ends with the "
                              "coroutine's result or exception (scheduled from another thread onto an idle loop)",
                              detail=dict(outcome=what), case=dict(fam='idle-loop', groups=[])))
        loop.call_soon_threadsafe(loop.stop)
        t.join(5)
        try:
            loop.close()
        except Exception:  # noqa
            pass
    return fails


def _in_child(fn):
    """run an impl-only stream in a worker process of its own (it sets and closes event loops)"""
    with mp.Pool(1, maxtasksperchild=1) as pool:
        return pool.apply(fn)


def shutdown_stream(_=None):
    """impl-only: the coroutine scheduled by `create_task` is suspended on something that never completes and EVERY task of the loop
    is cancelled (what `asyncio.run()` and shutdown code do, reaching the hidden wrapper task of create_task too): the coroutine ends
    with that cancellation, so the returned future - and its mirror on the communicator side - end cancelled, not pending for ever"""
    from harness import common
    common.ensure_repo_on_path()
    import asyncio
    from plumpy import futures, communications
    fails = []
    for suspended_for in (1, 3):
        for mirror in (False, True):
            loop = asyncio.new_event_loop()
            asyncio.set_event_loop(loop)

            def once():
                loop.call_soon(loop.stop)
                loop.run_forever()
            state = []

            async def coro():
                state.append('started')
                try:
                    await loop.create_future()
                finally:
                    state.append('ended')
            fut = futures.create_task(coro, loop)
            kiwi = communications.plum_to_kiwi_future(fut) if mirror else None
            for _ in range(suspended_for + 2):
                once()
            for t in asyncio.all_tasks(loop):
                t.cancel()
            for _ in range(6):
                once()
            got = 'cancelled' if fut.cancelled() else 'done' if fut.done() else 'pending'
            gotm = None if kiwi is None else ('cancelled' if kiwi.cancelled() else 'done' if kiwi.done() else 'pending')
            if state != ['started', 'ended'] or got != 'cancelled' or (kiwi is not None and gotm != 'cancelled'):
                fails.append(dict(signature='cancel-lost-create-task', clause="the future returned for a scheduled coroutine (and its mirror) "
                                  "ends with the coroutine's cancellation", detail=dict(coroutine=state, future=got, mirror=gotm),
                                  case=dict(fam='shutdown', groups=[])))
            try:
                loop.close()
            except Exception:  # noqa
                pass
    # a coroutine FACTORY that fails when it is called (before there is a coroutine): the returned future ends with that exception
    loop = asyncio.new_event_loop()
    asyncio.set_event_loop(loop)
    try:
        def factory():
            raise ValueError('no coroutine')
        fut = futures.create_task(factory, loop)
        kiwi = communications.plum_to_kiwi_future(fut)
        for _ in range(6):
            loop.call_soon(loop.stop)
            loop.run_forever()
        got = ('exc:' + type(fut.exception()).__name__) if (fut.done() and not fut.cancelled() and fut.exception() is not None) \
            else 'cancelled' if fut.cancelled() else 'done' if fut.done() else 'pending'
        gotm = ('exc:' + type(kiwi.exception()).__name__) if (kiwi.done() and not kiwi.cancelled() and kiwi.exception() is not None) \
            else 'pending' if not kiwi.done() else 'other'
        if got != 'exc:ValueError' or gotm != 'exc:ValueError':
            fails.append(dict(signature='task-wrong-outcome', clause="the future returned for a scheduled coroutine ends with the "
                              "coroutine's result or exception (here: the factory raised when called)",
                              detail=dict(future=got, mirror=gotm), case=dict(fam='shutdown', groups=[])))
    finally:
        loop.close()
    asyncio.set_event_loop(None)
    return fails


def run(ctx):
    cases, exhaustive = gen_cases(ctx)
    hints = getattr(ctx, 'hints', None) or []
    for h in hints:
        c = h.get('case')
        if isinstance(c, dict) and 'groups' in c:
            cases.append(dict(fam=c.get('fam', 'random'), groups=[(t, list(g)) for t, g in c['groups']],
                              **{k: v for k, v in c.get('meta', {}).items() if k not in ('fam',)}))
    # fail-fast probe: a tree on which runs crash or block (every blocked run costs a timeout) is reported from a sample
    cases = common.probe_first(ctx, cases, run_impl, lambda out: bool(out) and str(out[0]).startswith('crash:'), n_probe=400, timeout=300)
    impl = common.robust_map(run_impl, cases, ctx.workers, chunksize=64)
    with mp.Pool(1) as pool:
        corpus = pool.apply(fi.corpus_f20)
    lines = [fi.model_line(c['groups']) for c in cases]
    model = None
    if ctx.model.available:
        nchunk = max(1, ctx.workers)
        size = (len(lines) + nchunk - 1) // nchunk
        chunks = [lines[i:i + size] for i in range(0, len(lines), size)]
        outs = ctx.model.run_parallel('futures', chunks)
        model = [l for ch in outs for l in ch]
    divergences, failures = [], list(monitor_corpus(corpus)) + idle_loop_stream() + _in_child(shutdown_stream)
    distinct = set()
    fams, depths, terms, threads, nops = {}, {}, {}, {}, 0
    for idx, (case, out) in enumerate(zip(cases, impl)):
        il = ' '.join(out)
        failures.extend(monitors(case, out))
        if model is not None and model[idx] != il:
            mt, it = model[idx].split(' '), out
            k = next((i for i in range(min(len(mt), len(it))) if mt[i] != it[i]), min(len(mt), len(it)))
            ops = lines[idx].split(' ')
            divergences.append(dict(case=dict(fam=case['fam'], groups=case['groups'], meta={
                kk: v for kk, v in case.items() if kk != 'groups'}), line=lines[idx], first_differing_op=k,
                op=ops[k] if k < len(ops) else None, impl=it[k] if k < len(it) else None, model=mt[k] if k < len(mt) else None))
        fam = case['fam']
        fams[fam] = fams.get(fam, 0) + 1
        d = case.get('n', 0)
        depths[f'{fam}:{d}'] = depths.get(f'{fam}:{d}', 0) + 1
        if 'term' in case:
            terms[case['term']] = terms.get(case['term'], 0) + 1
        for t, g in case['groups']:
            threads[t] = threads.get(t, 0) + 1
            nops += len(g)
        if (fam == 'random' and len(out) >= 6) or (fam != 'random' and case.get('n', 0) >= 1):
            distinct.add(lines[idx] + '#' + (out[-1] if out else ''))
    # smallest failing input first (it is the one written to the replay file)
    failures.sort(key=lambda f: sum(len(g) for _, g in f['case'].get('groups', [])))
    divergences.sort(key=lambda d: len(d['line']))
    pick = [0, len(cases) // 3, (2 * len(cases)) // 3, len(cases) - 1]
    return dict(
        evaluations=len(cases) + 1, distinct_nontrivial=len(distinct),
        rule='chains of futures resolving to futures of every depth <= D x 3 outcomes of the innermost level x every order of '
             '(apply adapter, complete level j) [exhaustive while (D+2)! is small, sampled beyond] x patterns of loop runs in '
             'between, on real kiwipy/asyncio futures across a loop thread and a communicator thread, for unwrap_kiwi_future, '
             'plum_to_kiwi_future, LoopCommunicator rpc_send + unwrap, Process._schedule_rpc; create_task over coroutines awaiting '
             'k futures; every run/cancel sequence of a CancellableAction; random operation sequences. non-trivial = depth / '
             'sequence length >= 1 (random: >= 6 observations); distinct = distinct (operation line, final observation)',
        samples=[dict(line=lines[i], impl=' '.join(impl[i])[-300:]) for i in pick],
        traces_validated=len(cases) if model is not None else 0,
        divergences=divergences, failures=failures, exhaustive=False,
        histograms=dict(family=fams, family_depth=depths, innermost_outcome=terms, group_thread=threads, operations=nops,
                        orders_exhaustive_for_all_depths=exhaustive, corpus_f20=corpus),
    )


def replay(ctx, failure):
    case = failure['case']
    if case.get('fam') == 'idle-loop':
        return dict(failures=idle_loop_stream())
    if case.get('fam') == 'shutdown':
        return dict(failures=_in_child(shutdown_stream))
    if case.get('fam') == 'corpus-f20':
        r = fi.corpus_f20()
        return dict(impl=r, failures=monitor_corpus(r))
    c = dict(case.get('meta', {}))
    c['fam'] = case['fam']
    c['groups'] = [(t, list(g)) for t, g in case['groups']]
    with mp.Pool(1) as pool:
        out = pool.apply(run_impl, (c,))
    line = fi.model_line(c['groups'])
    m = ctx.model.run('futures', [line]) if ctx.model.available else None
    return dict(line=line, impl=' '.join(out), model=m[0] if m else None, failures=monitors(c, out))
