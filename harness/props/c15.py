"""C15 — exposing ports copies exactly the selected ports, independently of the source."""
import itertools
import copy
import multiprocessing as mp
import re
import hashlib

from harness import common

PROPERTY = 'C15'
LEAN_PROPS = 'PlumpyModel.Props.C15'
ASSUMPTIONS = [
    'port names are drawn from a set in which names are string prefixes of one another (a, ab, abc, a_b, b, x)',
    'include rule sets contain no rule that is an ancestor of another rule of the same set (the property\'s side condition)',
    'independence is probed by mutating every reachable port object on one side after the expose and re-reading the other side, '
    'including IN-PLACE changes of mutable attribute values (the dict used as the default of a leaf port or of a namespace; '
    'finding F33: namespace defaults were shared by reference); in the full model values are atoms, so this clause is decided by '
    'the probe alone',
    'full model: the source and the destination share no port object before the first expose (C15_full_seq_invariant proves '
    'that exposes keep it so); every namespace has distinct keys (a dict)',
    'full stream: identity is compared with `is` against the objects numbered before the first call; property values and leaf '
    'attributes are compared by `repr` (interned to atoms)',
]
TRUSTED = ['selection model lean/PlumpyModel/Expose/Model.lean (hand-written mirror of PortNamespace.absorb / strip_namespace), '
           'compared with the real absorb on every case',
           'full model lean/PlumpyModel/Expose/Full.lean (hand-written mirror of ProcessSpec._expose_ports, '
           'PortNamespace.create_port_namespace / absorb / __setitem__ / valid_type.setter on objects with identities), compared with '
           'the real expose_inputs / expose_outputs on every case of the full stream (pmodel exposefull)',
           'the enumeration of mutable PortNamespace properties and the defaults of PortNamespace(name) are constants of the model '
           '(Full.defaultProps, dynIdx, vtIdx), checked against the real class in every case',
           'copy.copy / copy.deepcopy (Python runtime)']

NAMES = ['a', 'ab', 'abc', 'b', 'a_b', 'x']
LEAF_ATTRS = [dict(), dict(valid_type=int), dict(required=False), dict(default=3), dict(help='h'), dict(valid_type=str, required=False),
              dict(default={'cut': [1, 2]})]       # a mutable default: changed IN PLACE by the independence probe
NS_PROPS = ['dynamic', 'required', 'valid_type', 'help', 'populate_defaults', 'default']


def gen_tree(rng, depth, top=True):
    n = rng.randint(1, 4) if top else rng.choice([0, 1, 1, 2, 2, 3])     # nested namespaces may be empty (purely dynamic)
    names = rng.sample(NAMES, n)
    out = []
    for nm in names:
        if depth > 0 and rng.random() < 0.45:
            props = {}
            if rng.random() < 0.5:
                props['dynamic'] = rng.random() < 0.5
            if rng.random() < 0.5:
                props['required'] = rng.random() < 0.5
            if rng.random() < 0.3:
                props['help'] = 'ns-' + nm
            if rng.random() < 0.3:
                props['populate_defaults'] = False
            if rng.random() < 0.3:
                # a mutable default of a nested namespace (changed in place by the probe): a dict, or a mutable mapping of another
                # kind (collections.UserDict - as an attribute dictionary or a configuration object would be)
                props['default'] = {'d': [nm]} if rng.random() < 0.5 else ('USERDICT', nm)
            if rng.random() < 0.3:
                props['unit'] = 'eV'          # a PortNamespace SUBCLASS carrying extra state (class UnitNS below)
            out.append((nm, props, gen_tree(rng, depth - 1, top=False)))
        else:
            out.append((nm, rng.randrange(len(LEAF_ATTRS)), None))
    return out


def enc(tree):
    toks = [str(len(tree))]

    def go(t):
        for nm, _a, sub in t:
            if sub is None:
                toks.extend(['L', nm])
            else:
                toks.extend(['N', nm, str(len(sub))])
                go(sub)
    go(tree)
    return ' '.join(toks)


def all_paths(tree, pre=()):
    for nm, _a, sub in tree:
        yield pre + (nm,)
        if sub is not None:
            yield from all_paths(sub, pre + (nm,))


def leaf_paths_tree(tree, pre=()):
    for nm, _a, sub in tree:
        if sub is None:
            yield pre + (nm,)
        else:
            yield from leaf_paths_tree(sub, pre + (nm,))


def no_ancestor(rules):
    rs = [r.split('.') for r in rules]
    return not any(i != j and a == b[:len(a)] and a != b for i, a in enumerate(rs) for j, b in enumerate(rs))


def selected(ex, inc, path):
    """reference rule (component-wise prefixes), written from the property text"""
    def pref(rule):
        r = rule.split('.')
        return len(r) <= len(path) and list(path[:len(r)]) == r
    if ex and any(pref(r) for r in ex):
        return False
    if inc:
        return any(pref(r) for r in inc)
    return True


def fmt_rules(r):
    return '-' if r is None else ('()' if list(r) == [] else ','.join(r))


def gen_case(rng):
    tree = gen_tree(rng, 3)
    allp = ['.'.join(p) for p in all_paths(tree)] + ['zz', 'a.zz', 'ab.x.y', 'abc', 'a']
    mode = rng.choice(['none', 'ex', 'ex', 'inc', 'inc', 'inc', 'exempty', 'incempty', 'both'])
    ex = inc = None
    if mode in ('ex', 'both'):
        ex = rng.sample(allp, rng.randint(1, min(3, len(allp))))
    if mode in ('inc', 'both'):
        for _ in range(20):
            inc = rng.sample(allp, rng.randint(1, min(3, len(allp))))
            if no_ancestor(inc):
                break
        else:
            inc = inc[:1]
    if mode == 'exempty':
        ex = []
    if mode == 'incempty':
        inc = []
    ns = rng.choice([None, None, 'tgt', 'tgt.sub', 'a'])
    opts = None
    r = rng.random()
    if r < 0.35:
        opts = {}
        for k in rng.sample(['dynamic', 'required', 'help', 'populate_defaults', 'default', 'default'], rng.randint(1, 2)):
            opts[k] = {'dynamic': True, 'required': False, 'help': 'override', 'populate_defaults': False,
                       'default': rng.choice(['UNSPECIFIED', {'y': 2}])}[k]       # 'UNSPECIFIED' stands for plumpy.ports.UNSPECIFIED
    elif r < 0.42:
        opts = {'no_such_property': 1}
    top = {}
    if rng.random() < 0.5:
        top['dynamic'] = rng.random() < 0.5
    if rng.random() < 0.3:
        top['help'] = 'top'
    if rng.random() < 0.35:
        top['default'] = {'x': 1}         # the source namespace declares a default of its own
    kind = rng.choice(['inputs', 'outputs'])
    # one case in five: specs whose namespace class has its own separator ('/'), as `PORT_NAMESPACE_TYPE` subclasses may
    sep = '/' if rng.random() < 0.2 else '.'
    return dict(tree=tree, ex=ex, inc=inc, ns=ns, opts=opts, top=top, kind=kind, sep=sep)


def build(ns, tree, plumpy, ns_cls=None):
    from plumpy.ports import PortNamespace, InputPort
    for nm, attr, sub in tree:
        if sub is None:
            ns[nm] = InputPort(nm, **copy.deepcopy(LEAF_ATTRS[attr]))
        else:
            attr = dict(attr)
            if isinstance(attr.get('default'), (tuple, list)) and attr['default'][0] == 'USERDICT':
                import collections
                attr['default'] = collections.UserDict({'d': [attr['default'][1]]})
            if ns_cls is not None:
                ns[nm] = ns_cls(nm, **{k: v for k, v in attr.items() if k != 'unit'})
                ns[nm].unit = attr.get('unit')
            elif 'unit' in attr:
                ns[nm] = unit_ns_class()(nm, **{k: v for k, v in attr.items() if k != 'unit'})
                ns[nm].unit = attr['unit']
            else:
                ns[nm] = PortNamespace(nm, **attr)
            build(ns[nm], sub, plumpy, ns_cls)


_SLASH = []


def slash_classes():
    """a namespace class with its own separator and the spec class that uses it"""
    if not _SLASH:
        import plumpy
        from plumpy.ports import PortNamespace

        class SlashNS(PortNamespace):
            NAMESPACE_SEPARATOR = '/'
            unit = None

        class SlashSpec(plumpy.ProcessSpec):
            PORT_NAMESPACE_TYPE = SlashNS
        _SLASH.extend([SlashNS, SlashSpec])
    return _SLASH


_UNIT_NS = []


def unit_ns_class():
    if not _UNIT_NS:
        from plumpy.ports import PortNamespace

        class UnitNS(PortNamespace):
            """a PortNamespace subclass with extra state and behaviour, as applications define them"""
            unit = None
        _UNIT_NS.append(UnitNS)
    return _UNIT_NS[0]


def snapshot(ns):
    """canonical deep description of a port namespace (properties + ports), for comparisons"""
    from plumpy.ports import PortNamespace
    d = {'__props__': tuple((k, repr(getattr(ns, k, None))) for k in NS_PROPS) + (('class', type(ns).__name__), ('unit', getattr(ns, 'unit', None)))}
    for k, v in ns.items():
        if isinstance(v, PortNamespace):
            d[k] = snapshot(v)
        else:
            d[k] = ('leaf', repr(v.valid_type), v.required, repr(v.default) if v.has_default() else None, v.help)
    return d


def leaf_paths(ns, pre=()):
    from plumpy.ports import PortNamespace
    out = []
    for k, v in ns.items():
        if isinstance(v, PortNamespace):
            out.extend(leaf_paths(v, pre + (k,)))
        else:
            out.append(pre + (k,))
    return out


def all_ports(ns):
    from plumpy.ports import PortNamespace
    for k, v in ns.items():
        yield v
        if isinstance(v, PortNamespace):
            yield from all_ports(v)


def run_impl(case):
    common.ensure_repo_on_path()
    import plumpy
    from plumpy.ports import PortNamespace, InputPort
    tree, ex, inc, nsname, opts, top, kind = (case[k] for k in ('tree', 'ex', 'inc', 'ns', 'opts', 'top', 'kind'))
    fails = []
    sep = case.get('sep', '.')
    ns_cls, spec_cls = slash_classes() if sep == '/' else (None, plumpy.ProcessSpec)
    NS = ns_cls or PortNamespace

    def real(r):            # a rule / namespace in the notation of the spec's namespace class
        return r if (r is None or sep == '.') else r.replace('.', sep)

    def F(sig, clause, detail=None):
        fails.append(dict(signature=sig, clause=clause, detail=detail))

    class Src(plumpy.Process):
        _spec_class = spec_cls

        @classmethod
        def define(cls, spec):
            super().define(spec)
            target = getattr(spec, kind)
            for k, v in top.items():
                setattr(target, k, v)
            build(target, tree, plumpy, ns_cls)

    pre_ports = {}

    class Dst(plumpy.Process):
        _spec_class = spec_cls

        @classmethod
        def define(cls, spec):
            super().define(spec)
            target = getattr(spec, kind)
            target['pre1'] = InputPort('pre1', valid_type=int)
            target['pre2'] = NS('pre2')
            target['pre2']['q'] = InputPort('q')
            pre_ports['pre1'] = target['pre1']
            pre_ports['pre2'] = target['pre2']
            pre_ports['pre2.q'] = target['pre2']['q']

    src_ns = getattr(Src.spec(), kind)
    dst_ns = getattr(Dst.spec(), kind)
    src_before = snapshot(src_ns)
    dst_before = snapshot(dst_ns)
    expose = getattr(Dst.spec(), 'expose_' + kind)
    err = None
    try:
        from plumpy.ports import UNSPECIFIED
        real_opts = None if opts is None else {k: (UNSPECIFIED if v == 'UNSPECIFIED' else copy.deepcopy(v)) for k, v in opts.items()}
        expose(Src, namespace=real(nsname), exclude=None if ex is None else [real(r) for r in ex],
               include=None if inc is None else [real(r) for r in inc], namespace_options=real_opts)
    except Exception as e:  # noqa
        err = type(e).__name__
    obs = dict(error=err, paths=None)
    should_reject = (ex is not None and inc is not None) or (opts is not None and 'no_such_property' in opts)
    if should_reject:
        if err != 'ValueError':
            F('c15-not-rejected', 'include together with exclude (or an unknown namespace option) is rejected',
              dict(error=err))
        return obs, fails
    if err is not None:
        F('c15-expose-raised:' + err, 'exposing with valid rules succeeds', dict(error=err))
        return obs, fails
    target = dst_ns
    if nsname:
        for part in nsname.split('.'):
            target = target[part]
    # the destination's pre-existing ports stay (target namespace 'a' etc. never collides with pre1/pre2)
    want_pre = {'pre1': dst_ns.get('pre1'), 'pre2': dst_ns.get('pre2')}
    if nsname is not None or True:
        if want_pre['pre1'] is not pre_ports['pre1'] or want_pre['pre2'] is not pre_ports['pre2'] \
                or dst_ns['pre2'].get('q') is not pre_ports['pre2.q']:
            F('c15-destination-ports-disturbed', 'other ports of the destination stay in place', None)
    got = [p for p in leaf_paths(target) if not (nsname is None and p[0] in ('pre1', 'pre2'))]
    obs['paths'] = ['.'.join(p) for p in got]
    want = [p for p in leaf_paths_tree(tree) if selected(ex, inc, p)]
    if got != want:
        F('c15-selection', 'exactly the ports selected by the include / exclude rules are exposed (component-wise paths)',
          dict(got=obs['paths'], want=['.'.join(p) for p in want]))
    # properties: the target namespace takes the source namespace's properties unless overridden
    src_props = dict(src_before['__props__'])
    for k in NS_PROPS:
        have = repr(getattr(target, k, None))
        exp = (repr(()) if opts[k] == 'UNSPECIFIED' else repr(opts[k])) if (opts and k in opts) else src_props[k]
        if have != exp:
            F('c15-namespace-properties:' + k, 'the target namespace has the source namespace\'s properties unless overridden', dict(prop=k, have=have, want=exp))
            break
    # copied ports carry the attributes of their sources
    def sub_snapshot(snap, path):
        for part in path:
            snap = snap[part]
        return snap
    tgt_snap = snapshot(target)
    for p in got:
        if sub_snapshot(tgt_snap, p) != sub_snapshot(src_before, p):
            F('c15-port-attributes', 'a copied port has the attributes of its source', dict(path='.'.join(p)))
            break
    for p in set(tuple(q[:i]) for q in got for i in range(1, len(q))):
        if sub_snapshot(tgt_snap, p)['__props__'] != sub_snapshot(src_before, p)['__props__']:
            F('c15-nested-namespace-properties', 'nested namespaces keep the source namespace\'s properties', dict(path='.'.join(p)))
            break
    # independence, both directions
    for port in list(all_ports(target)):
        if port in (pre_ports['pre1'], pre_ports['pre2'], pre_ports['pre2.q']):
            continue
        port.help = 'mutated'
        port.required = not port.required
        if isinstance(port, PortNamespace):
            port['newport'] = InputPort('newport')
            port.dynamic = not port.dynamic
            if port.has_default() and hasattr(port.default, '__setitem__'):
                port.default['probe-dst'] = 9      # in place: the default VALUE of a copied namespace is a copy too
        elif port.has_default() and isinstance(port.default, dict):
            port.default['cut'].append(9)          # in place: a shallow copy of the port would share this object
    target.help = 'mutated-top'
    if target.has_default() and isinstance(target.default, dict) and not (opts and 'default' in opts):
        target.default['probe-dst-top'] = 9
    if snapshot(src_ns) != src_before:
        F('c15-source-changed-by-destination', 'later changes to the destination do not show through to the source', None)
    dst_mid = snapshot(dst_ns)
    for port in list(all_ports(src_ns)):
        port.help = 'src-mutated'
        port.required = not port.required
        if isinstance(port, PortNamespace):
            port['srcnew'] = InputPort('srcnew')
            if port.has_default() and hasattr(port.default, '__setitem__'):
                port.default['probe-src'] = 7
        elif port.has_default() and isinstance(port.default, dict):
            port.default['cut'].append(7)
    if src_ns.has_default() and isinstance(src_ns.default, dict):
        src_ns.default['probe-src-top'] = 7
    if snapshot(dst_ns) != dst_mid:
        F('c15-destination-changed-by-source', 'later changes to the source do not show through to the destination', None)
    return obs, fails



# ---------------------------------------------------------------------------------------------------------------------------
# full stream: the whole `_expose_ports` call on port OBJECTS (model lean/PlumpyModel/Expose/Full.lean, `pmodel exposefull`)
# ---------------------------------------------------------------------------------------------------------------------------
PROP_ORDER = ['default', 'dynamic', 'help', 'populate_defaults', 'required', 'valid_type', 'validator']   # = the model's enumeration
BASE_ATOMS = {'None': 0, 'True': 1, 'False': 2, '()': 3}            # Full.noneAtom / trueAtom / defaultProps
DEFAULT_PROPS = [3, 2, 0, 1, 1, 0, 0]                                # Full.defaultProps
FULL_NAMESPACES = [None, None, '', 'tgt', 'tgt', 'tgt.sub', 'a', 'ab.x', 'pre2', 'pre2.deep', 'pre1', 'pre2.q', 'pre2.q.z', 'new.',
                   'a..b', 'abc']
VT = {'int': int, 'str': str}


def gen_ns_props(rng, nm):
    props = {}
    if rng.random() < 0.5:
        props['dynamic'] = rng.random() < 0.5
    if rng.random() < 0.5:
        props['required'] = rng.random() < 0.5
    if rng.random() < 0.3:
        props['help'] = 'ns-' + nm
    if rng.random() < 0.3:
        props['populate_defaults'] = False
    if rng.random() < 0.25:
        props['valid_type'] = rng.choice(['int', 'str'])       # the setter forces dynamic=True …
        if rng.random() < 0.4:
            props['_dynamic_after'] = False                      # … unless `dynamic` is assigned afterwards
    if rng.random() < 0.2:
        props['default'] = {'d': nm}
    return props


def gen_full_tree(rng, depth, names, top=True):
    n = rng.randint(1, 4) if top else rng.choice([0, 1, 1, 2, 2, 3])
    out = []
    for nm in rng.sample(names, min(n, len(names))):
        if depth > 0 and rng.random() < 0.45:
            out.append((nm, gen_ns_props(rng, nm), gen_full_tree(rng, depth - 1, names, top=False)))
        else:
            out.append((nm, rng.randrange(len(LEAF_ATTRS)), None))
    return out


def gen_rules(rng, tree):
    allp = ['.'.join(p) for p in all_paths(tree)] + ['zz', 'a.zz', 'ab.x.y', 'abc', 'a']
    mode = rng.choice(['none', 'none', 'ex', 'ex', 'inc', 'inc', 'inc', 'exempty', 'incempty', 'both', 'exempty+inc'])
    ex = inc = None
    if mode in ('ex', 'both'):
        ex = rng.sample(allp, rng.randint(1, min(3, len(allp))))
    if mode in ('inc', 'both', 'exempty+inc'):
        for _ in range(20):
            inc = rng.sample(allp, rng.randint(1, min(3, len(allp))))
            if no_ancestor(inc):
                break
        else:
            inc = inc[:1]
    if mode in ('exempty', 'exempty+inc'):
        ex = []
    if mode == 'incempty':
        inc = []
    return ex, inc


def gen_full_opts(rng):
    r = rng.random()
    if r < 0.45:
        return None
    if r < 0.5:
        return {}
    vals = {'dynamic': [True, False], 'required': [False, True], 'help': ['override'], 'populate_defaults': [False],
            'default': ['UNSPECIFIED', {'y': 2}], 'valid_type': ['int', None], 'validator': [None]}
    opts = {k: rng.choice(vals[k]) for k in rng.sample(sorted(vals), rng.randint(1, 3))}
    if rng.random() < 0.15:
        opts['no_such_property'] = 1
    return opts


def gen_full_case(rng):
    """destination with ports of its own (also under the names the sources use, and under the target namespaces), one or two
    sources, one to three expose calls in a row (the later calls see the ports of the earlier ones)"""
    kind = rng.choice(['inputs', 'outputs'])
    dst = gen_full_tree(rng, 2, NAMES + ['pre1', 'pre2', 'tgt'])
    if rng.random() < 0.6:
        dst = [e for e in dst if e[0] not in ('pre1', 'pre2')] + [('pre1', 1, None), ('pre2', {}, [('q', 0, None)])]
    srcs = [dict(tree=gen_full_tree(rng, 3, NAMES), top=gen_ns_props(rng, 'top')) for _ in range(rng.choice([1, 1, 2]))]
    calls = []
    for _ in range(rng.choice([1, 1, 2, 2, 3])):
        si = rng.randrange(len(srcs))
        ex, inc = gen_rules(rng, srcs[si]['tree'])
        ns = calls[-1]['ns'] if calls and rng.random() < 0.4 else rng.choice(FULL_NAMESPACES)   # again into the same namespace
        calls.append(dict(src=si, ns=ns, ex=ex, inc=inc, opts=gen_full_opts(rng)))
    return dict(full=True, kind=kind, dst=dst, dst_top=gen_ns_props(rng, 'dst') if rng.random() < 0.3 else {}, srcs=srcs, calls=calls)


def build_full(ns, tree):
    from plumpy.ports import PortNamespace, InputPort
    for nm, attr, sub in tree:
        if sub is None:
            ns[nm] = InputPort(nm, **copy.deepcopy(LEAF_ATTRS[attr]))
        else:
            ns[nm] = PortNamespace(nm)
            apply_props(ns[nm], attr)
            build_full(ns[nm], sub)


def apply_props(ns, props):
    for k, v in props.items():
        if k == 'valid_type':
            ns.valid_type = VT[v]
        elif not k.startswith('_'):
            setattr(ns, k, copy.deepcopy(v))
    if '_dynamic_after' in props:
        ns.dynamic = props['_dynamic_after']


class Atoms:
    def __init__(self):
        self.t = dict(BASE_ATOMS)

    def __call__(self, value):
        return self.t.setdefault(repr(value), len(self.t))


def real_prop_names():
    from plumpy.ports import PortNamespace
    from plumpy.utils import is_mutable_property
    return [a for a in dir(PortNamespace('x')) if is_mutable_property(PortNamespace, a)]


def ns_props(ns, atoms, names):
    return ','.join(str(atoms(getattr(ns, k))) for k in names)


def leaf_attr(port, atoms):
    return atoms((type(port).__name__, repr(port.valid_type), port.required, repr(port.default) if port.has_default() else '<no default>',
                  port.help, repr(port.validator)))


def objects(ns):
    """the objects of a namespace in pre-order, the namespace first"""
    return [ns] + list(all_ports(ns))


def enc_full(ns, atoms, names):
    from plumpy.ports import PortNamespace

    def go(n):
        toks = [str(len(n))]
        for k, v in n.items():
            if isinstance(v, PortNamespace):
                toks += ['N', k, ns_props(v, atoms, names)] + go(v)
            else:
                toks += ['L', k, str(leaf_attr(v, atoms))]
        return toks
    return ' '.join([ns_props(ns, atoms, names)] + go(ns))


def dump_full(ns, atoms, names, cls):
    from plumpy.ports import PortNamespace
    out = [f'@:N:{ns_props(ns, atoms, names)}:{cls(ns)}']

    def go(n, pre):
        for k, v in n.items():
            if isinstance(v, PortNamespace):
                out.append(f'{pre}{k}:N:{ns_props(v, atoms, names)}:{cls(v)}')
                go(v, f'{pre}{k}.')
            else:
                out.append(f'{pre}{k}:L:{leaf_attr(v, atoms)}:{cls(v)}')
    go(ns, '')
    return ' '.join(out)


ERR_KINDS = [('mutually exclusive', 'exclusive'), ('is not a supported PortNamespace property', 'unknownopt'),
             ('already contains a Port', 'occupied'), ('cannot be an empty string', 'emptyname')]


def run_full_impl(case):
    """-> (model input line, observation line of the real code, monitor failures)"""
    common.ensure_repo_on_path()
    import plumpy
    from plumpy.ports import UNSPECIFIED
    kind = case['kind']
    fails = []
    names = real_prop_names()
    atoms = Atoms()

    def mk(tree, top):
        class P(plumpy.Process):
            @classmethod
            def define(cls, spec):
                super().define(spec)
                target = getattr(spec, kind)
                apply_props(target, top)
                build_full(target, tree)
        return P

    Dst = mk(case['dst'], case['dst_top'])
    Srcs = [mk(s['tree'], s['top']) for s in case['srcs']]
    dst_ns = getattr(Dst.spec(), kind)
    src_nss = [getattr(S.spec(), kind) for S in Srcs]
    d_objs = objects(dst_ns)
    s_objs = [o for s in src_nss for o in objects(s)]
    klass = {id(o): f'D{i}' for i, o in enumerate(d_objs)}
    klass.update({id(o): f'S{i}' for i, o in enumerate(s_objs)})
    keep = list(d_objs) + list(s_objs)               # keep every classified object alive: `id` stays unambiguous
    toks = ['DST', enc_full(dst_ns, atoms, names)]
    for s in src_nss:
        toks += ['SRC', enc_full(s, atoms, names)]
    obs = []
    memory = getattr(Dst.spec(), '_exposed_' + kind)
    for k, call in enumerate(case['calls'], 1):
        opts = call['opts']
        real_opts = None if opts is None else {
            o: (UNSPECIFIED if v == 'UNSPECIFIED' else VT[v] if (o == 'valid_type' and v is not None) else copy.deepcopy(v))
            for o, v in opts.items()}
        if opts is None:
            otok = '-'
        elif not opts:
            otok = '()'
        else:
            otok = ','.join(f"{names.index(o) if o in names else 100 + j}:{atoms(real_opts[o])}" for j, o in enumerate(opts))
        nstok = '-' if call['ns'] is None else '=' + call['ns']
        toks += ['CALL', str(call['src']), nstok, fmt_rules(call['ex']), fmt_rules(call['inc']), otok]
        before_leaves = leaf_paths(dst_ns)
        err = '-'
        absorbed = None
        try:
            getattr(Dst.spec(), 'expose_' + kind)(Srcs[call['src']], namespace=call['ns'], exclude=call['ex'], include=call['inc'],
                                                  namespace_options=real_opts)
            absorbed = memory[call['ns']][Srcs[call['src']]]
        except ValueError as e:
            err = next((kd for frag, kd in ERR_KINDS if frag in str(e)), 'ValueError:' + str(e)[:40])
        except Exception as e:  # noqa
            err = type(e).__name__
        for o in objects(dst_ns):
            if id(o) not in klass:
                klass[id(o)] = f'F{k}'
                keep.append(o)
        head = f"names={','.join(absorbed) if absorbed else '-'} err={err}"
        obs.append(head + ' ' + dump_full(dst_ns, atoms, names, lambda o: klass[id(o)]))
        # monitors written from the property text (and from C15_full_rejected_adds_no_port): a raising call adds / removes no port
        if err != '-' and leaf_paths(dst_ns) != before_leaves:
            fails.append(dict(signature='c15-rejected-call-changed-ports', clause='a rejected expose adds and removes no port',
                              detail=dict(call=k, error=err)))
        should_reject = (call['ex'] is not None and call['inc'] is not None) or (opts is not None and 'no_such_property' in opts)
        if should_reject and err == '-':
            fails.append(dict(signature='c15-not-rejected', clause='include together with exclude (or an unknown namespace option) is rejected',
                              detail=dict(call=k)))
    if names != PROP_ORDER or ns_props(plumpy.ports.PortNamespace('x'), Atoms(), names) != ','.join(map(str, DEFAULT_PROPS)):
        # the model's property enumeration / defaults are not those of this PortNamespace: shows as a divergence
        obs.append('property-table-differs ' + json_dumps(names))
    return ' '.join(toks), ' | '.join(obs), fails


def digest_line(x):
    return hashlib.sha1(x.encode()).hexdigest()[:16]


def json_dumps(x):
    import json
    return json.dumps(x, sort_keys=True)


def full_corpus():
    t1 = [('a', {}, [('x', 0, None)]), ('ab', {'valid_type': 'int', '_dynamic_after': False}, [('x', 0, None), ('y', 1, None)]), ('abc', 2, None)]
    d1 = [('pre1', 1, None), ('a', 3, None), ('pre2', {}, [('q', 0, None)]), ('tgt', {'help': 'mine'}, [('abc', 0, None), ('own', 1, None)])]
    s1 = dict(tree=t1, top={'help': 'top', 'valid_type': 'str'})
    C = lambda **kw: dict(dict(src=0, ns=None, ex=None, inc=None, opts=None), **kw)   # noqa
    return [dict(full=True, kind='inputs', dst=d1, dst_top={}, srcs=[s1], calls=[C(ns='tgt'), C(ns='tgt', inc=['ab.x'])]),
            dict(full=True, kind='inputs', dst=d1, dst_top={}, srcs=[s1], calls=[C(opts={'dynamic': False}), C(ns='pre1')]),
            dict(full=True, kind='outputs', dst=d1, dst_top={}, srcs=[s1], calls=[C(ns='new.sub', ex=[], inc=['a']), C(ns='n2', opts={'no_such_property': 1, 'help': 'override'})]),
            dict(full=True, kind='inputs', dst=d1, dst_top={}, srcs=[s1], calls=[C(ns='new.'), C(ns='pre2.q.z'), C(ns='', ex=['a'], inc=['ab'])])]

def model_line(case):
    return f"{fmt_rules(case['ex'])} {fmt_rules(case['inc'])} {enc(case['tree'])}"


def corpus():
    """witnesses of the repaired defect F13 (string-prefix include match) and side-condition corners"""
    t1 = [('a', {}, [('x', 0, None)]), ('ab', {}, [('x', 0, None), ('y', 1, None)]), ('abc', 2, None)]
    t2 = [('a', {'dynamic': True}, []), ('b', 0, None)]
    return [dict(tree=t2, ex=None, inc=None, ns='tgt', opts=None, top={}, kind='inputs'),
            dict(tree=t1, ex=None, inc=['ab.x'], ns=None, opts=None, top={}, kind='inputs'),
            dict(tree=t1, ex=None, inc=['abc'], ns='tgt', opts=None, top={}, kind='outputs'),
            dict(tree=t1, ex=['a'], inc=None, ns=None, opts={'dynamic': True}, top={'help': 'top'}, kind='inputs'),
            dict(tree=t1, ex=['a.x'], inc=['ab'], ns=None, opts=None, top={}, kind='inputs'),
            dict(tree=t1, ex=[], inc=['ab'], ns=None, opts=None, top={}, kind='inputs')]


def run(ctx):
    rng = ctx.rng
    n = 4000 if not ctx.thorough else 60000
    cases = corpus() + [gen_case(rng) for _ in range(n)]
    with mp.Pool(ctx.workers) as pool:
        res = pool.map(run_impl, cases, chunksize=100)
    # the model decides the selection for cases that are not rejected
    idx = [i for i, (c, (obs, _f)) in enumerate(zip(cases, res)) if obs['paths'] is not None]
    lines = [model_line(cases[i]) for i in idx]
    model = ctx.model.run('expose', lines)
    divergences, failures = [], []
    distinct = set()
    hist = dict(mode={}, namespace={}, rejected=0, strict_subset=0, options=0)
    for j, i in enumerate(idx):
        il = ' '.join(res[i][0]['paths'])
        if model is not None and model[j] != il:
            divergences.append(dict(case=cases[i], line=lines[j], impl=il, model=model[j]))
    # full stream: the whole call on port objects, sequences of calls, against `pmodel exposefull`
    nfull = 2500 if not ctx.thorough else 40000
    fcases = full_corpus() + [gen_full_case(rng) for _ in range(nfull)]
    with mp.Pool(ctx.workers) as pool:
        fres = pool.map(run_full_impl, fcases, chunksize=100)
    fmodel = ctx.model.run('exposefull', [r[0] for r in fres])
    fhist = dict(calls=0, errors={}, overwrite_in_place=0, existing_target=0, second_call_sees_first=0)
    for c, (line, il, ffails) in zip(fcases, fres):
        for f in ffails:
            failures.append(dict(f, case=c))
    for j, (c, (line, il, _ff)) in enumerate(zip(fcases, fres)):
        if fmodel is not None and fmodel[j] != il:
            divergences.append(dict(case=c, line=line, impl=il, model=fmodel[j]))
        parts = il.split(' | ')
        fhist['calls'] += len(c['calls'])
        seen_f = False
        for part in parts:
            m = re.search(r'err=(\S+)', part)
            if m and m.group(1) != '-':
                fhist['errors'][m.group(1)] = fhist['errors'].get(m.group(1), 0) + 1
        if len(parts) > 1 and ':F1' in parts[-1] and ':F2' in parts[-1]:
            fhist['second_call_sees_first'] += 1
        dst_names = {e[0] for e in c['dst']}
        if any(call['ns'] in (None, '') and dst_names & {e[0] for e in c['srcs'][call['src']]['tree']} for call in c['calls']):
            fhist['overwrite_in_place'] += 1
        if any(call['ns'] and call['ns'].split('.')[0] in dst_names for call in c['calls']):
            fhist['existing_target'] += 1
        if ':F' in il:
            distinct.add(digest_line(il))
    hist['full'] = fhist
    for c, (obs, fails) in zip(cases, res):
        for f in fails:
            f = dict(f)
            f['case'] = c
            failures.append(f)
        mode = ('both' if c['ex'] is not None and c['inc'] is not None else 'ex' if c['ex'] is not None else 'inc' if c['inc'] is not None else 'none')
        hist['mode'][mode] = hist['mode'].get(mode, 0) + 1
        hist['namespace'][str(c['ns'])] = hist['namespace'].get(str(c['ns']), 0) + 1
        if obs['paths'] is None:
            hist['rejected'] += 1
        else:
            total = len(list(leaf_paths_tree(c['tree'])))
            if 0 < len(obs['paths']) < total:
                hist['strict_subset'] += 1
                distinct.add(model_line(c) + '|' + str(c['ns']))
        if c['opts']:
            hist['options'] += 1
    return dict(
        evaluations=len(cases) + len(fcases), distinct_nontrivial=len(distinct),
        rule='random source trees (depth <= 3) whose names are string prefixes of one another x exclude / include rule sets over '
             'existing and non-existing dotted paths x target namespace x namespace option overrides x inputs/outputs; '
             'non-trivial = a strict, non-empty subset of the source leaves is exposed; distinct = distinct (rules, tree, namespace)',
        samples=[dict(case=cases[i], exposed=res[i][0]) for i in (0, len(cases) // 2, len(cases) - 1)],
        traces_validated=(len(idx) + len(fcases)) if model is not None else 0, divergences=divergences, failures=failures,
        histograms=hist, exhaustive=False)


def replay(ctx, failure):
    case = failure['case']
    if case.get('full'):
        def fixt(t):
            return [(nm, a, None if sub is None else fixt(sub)) for nm, a, sub in t]
        case = dict(case, dst=fixt(case['dst']), srcs=[dict(s, tree=fixt(s['tree'])) for s in case['srcs']])
        line, il, fails = run_full_impl(case)
        m = ctx.model.run('exposefull', [line])
        return dict(impl=il, model=m[0] if m else None, line=line, failures=fails)
    def fix(t):
        return [(nm, a, None if sub is None else fix(sub)) for nm, a, sub in t]
    case = dict(case, tree=fix(case['tree']))
    obs, fails = run_impl(case)
    m = ctx.model.run('expose', [model_line(case)]) if obs['paths'] is not None else None
    return dict(impl=obs, model=m[0] if m else None, failures=fails)
