"""C15 — exposing ports copies exactly the selected ports, independently of the source."""
import itertools
import copy
import multiprocessing as mp

from harness import common

PROPERTY = 'C15'
LEAN_PROPS = 'PlumpyModel.Props.C15'
ASSUMPTIONS = [
    'port names are drawn from a set in which names are string prefixes of one another (a, ab, abc, a_b, b, x)',
    'include rule sets contain no rule that is an ancestor of another rule of the same set (the property\'s side condition)',
    'independence is probed by mutating every reachable port object on one side after the expose and re-reading the other side; '
    'in-place mutation of a shared mutable attribute VALUE (e.g. a dict used as default) is not probed',
]
TRUSTED = ['selection model lean/PlumpyModel/Expose/Model.lean (hand-written mirror of PortNamespace.absorb / strip_namespace), '
           'compared with the real absorb on every case', 'copy.copy / copy.deepcopy (Python runtime)']

NAMES = ['a', 'ab', 'abc', 'b', 'a_b', 'x']
LEAF_ATTRS = [dict(), dict(valid_type=int), dict(required=False), dict(default=3), dict(help='h'), dict(valid_type=str, required=False),
              dict(default={'cut': [1, 2]})]       # a mutable default: changed IN PLACE by the independence probe
NS_PROPS = ['dynamic', 'required', 'valid_type', 'help', 'populate_defaults', 'default']


def gen_tree(rng, depth, top=True):
    n = rng.randint(1, 4) if top else rng.choice([0, 1, 1, 2, 2, 3])     # nested namespaces may be empty (purely dynamic)
    names = rng.sample(NAMES, n)
    out = []
    for nm in names:
        if depth > 0 and rng.random() < 0.45:
            props = {}
            if rng.random() < 0.5:
                props['dynamic'] = rng.random() < 0.5
            if rng.random() < 0.5:
                props['required'] = rng.random() < 0.5
            if rng.random() < 0.3:
                props['help'] = 'ns-' + nm
            if rng.random() < 0.3:
                props['populate_defaults'] = False
            if rng.random() < 0.3:
                props['unit'] = 'eV'          # a PortNamespace SUBCLASS carrying extra state (class UnitNS below)
            out.append((nm, props, gen_tree(rng, depth - 1, top=False)))
        else:
            out.append((nm, rng.randrange(len(LEAF_ATTRS)), None))
    return out


def enc(tree):
    toks = [str(len(tree))]

    def go(t):
        for nm, _a, sub in t:
            if sub is None:
                toks.extend(['L', nm])
            else:
                toks.extend(['N', nm, str(len(sub))])
                go(sub)
    go(tree)
    return ' '.join(toks)


def all_paths(tree, pre=()):
    for nm, _a, sub in tree:
        yield pre + (nm,)
        if sub is not None:
            yield from all_paths(sub, pre + (nm,))


def leaf_paths_tree(tree, pre=()):
    for nm, _a, sub in tree:
        if sub is None:
            yield pre + (nm,)
        else:
            yield from leaf_paths_tree(sub, pre + (nm,))


def no_ancestor(rules):
    rs = [r.split('.') for r in rules]
    return not any(i != j and a == b[:len(a)] and a != b for i, a in enumerate(rs) for j, b in enumerate(rs))


def selected(ex, inc, path):
    """reference rule (component-wise prefixes), written from the property text"""
    def pref(rule):
        r = rule.split('.')
        return len(r) <= len(path) and list(path[:len(r)]) == r
    if ex and any(pref(r) for r in ex):
        return False
    if inc:
        return any(pref(r) for r in inc)
    return True


def fmt_rules(r):
    return '-' if r is None else ('()' if list(r) == [] else ','.join(r))


def gen_case(rng):
    tree = gen_tree(rng, 3)
    allp = ['.'.join(p) for p in all_paths(tree)] + ['zz', 'a.zz', 'ab.x.y', 'abc', 'a']
    mode = rng.choice(['none', 'ex', 'ex', 'inc', 'inc', 'inc', 'exempty', 'incempty', 'both'])
    ex = inc = None
    if mode in ('ex', 'both'):
        ex = rng.sample(allp, rng.randint(1, min(3, len(allp))))
    if mode in ('inc', 'both'):
        for _ in range(20):
            inc = rng.sample(allp, rng.randint(1, min(3, len(allp))))
            if no_ancestor(inc):
                break
        else:
            inc = inc[:1]
    if mode == 'exempty':
        ex = []
    if mode == 'incempty':
        inc = []
    ns = rng.choice([None, None, 'tgt', 'tgt.sub', 'a'])
    opts = None
    r = rng.random()
    if r < 0.35:
        opts = {}
        for k in rng.sample(['dynamic', 'required', 'help', 'populate_defaults', 'default', 'default'], rng.randint(1, 2)):
            opts[k] = {'dynamic': True, 'required': False, 'help': 'override', 'populate_defaults': False,
                       'default': rng.choice(['UNSPECIFIED', {'y': 2}])}[k]       # 'UNSPECIFIED' stands for plumpy.ports.UNSPECIFIED
    elif r < 0.42:
        opts = {'no_such_property': 1}
    top = {}
    if rng.random() < 0.5:
        top['dynamic'] = rng.random() < 0.5
    if rng.random() < 0.3:
        top['help'] = 'top'
    if rng.random() < 0.35:
        top['default'] = {'x': 1}         # the source namespace declares a default of its own
    kind = rng.choice(['inputs', 'outputs'])
    return dict(tree=tree, ex=ex, inc=inc, ns=ns, opts=opts, top=top, kind=kind)


def build(ns, tree, plumpy):
    from plumpy.ports import PortNamespace, InputPort
    for nm, attr, sub in tree:
        if sub is None:
            ns[nm] = InputPort(nm, **copy.deepcopy(LEAF_ATTRS[attr]))
        else:
            if 'unit' in attr:
                ns[nm] = unit_ns_class()(nm, **{k: v for k, v in attr.items() if k != 'unit'})
                ns[nm].unit = attr['unit']
            else:
                ns[nm] = PortNamespace(nm, **attr)
            build(ns[nm], sub, plumpy)


_UNIT_NS = []


def unit_ns_class():
    if not _UNIT_NS:
        from plumpy.ports import PortNamespace

        class UnitNS(PortNamespace):
            """a PortNamespace subclass with extra state and behaviour, as applications define them"""
            unit = None
        _UNIT_NS.append(UnitNS)
    return _UNIT_NS[0]


def snapshot(ns):
    """canonical deep description of a port namespace (properties + ports), for comparisons"""
    from plumpy.ports import PortNamespace
    d = {'__props__': tuple((k, repr(getattr(ns, k, None))) for k in NS_PROPS) + (('class', type(ns).__name__), ('unit', getattr(ns, 'unit', None)))}
    for k, v in ns.items():
        if isinstance(v, PortNamespace):
            d[k] = snapshot(v)
        else:
            d[k] = ('leaf', repr(v.valid_type), v.required, repr(v.default) if v.has_default() else None, v.help)
    return d


def leaf_paths(ns, pre=()):
    from plumpy.ports import PortNamespace
    out = []
    for k, v in ns.items():
        if isinstance(v, PortNamespace):
            out.extend(leaf_paths(v, pre + (k,)))
        else:
            out.append(pre + (k,))
    return out


def all_ports(ns):
    from plumpy.ports import PortNamespace
    for k, v in ns.items():
        yield v
        if isinstance(v, PortNamespace):
            yield from all_ports(v)


def run_impl(case):
    common.ensure_repo_on_path()
    import plumpy
    from plumpy.ports import PortNamespace, InputPort
    tree, ex, inc, nsname, opts, top, kind = (case[k] for k in ('tree', 'ex', 'inc', 'ns', 'opts', 'top', 'kind'))
    fails = []

    def F(sig, clause, detail=None):
        fails.append(dict(signature=sig, clause=clause, detail=detail))

    class Src(plumpy.Process):
        @classmethod
        def define(cls, spec):
            super().define(spec)
            target = getattr(spec, kind)
            for k, v in top.items():
                setattr(target, k, v)
            build(target, tree, plumpy)

    pre_ports = {}

    class Dst(plumpy.Process):
        @classmethod
        def define(cls, spec):
            super().define(spec)
            target = getattr(spec, kind)
            target['pre1'] = InputPort('pre1', valid_type=int)
            target['pre2'] = PortNamespace('pre2')
            target['pre2']['q'] = InputPort('q')
            pre_ports['pre1'] = target['pre1']
            pre_ports['pre2'] = target['pre2']
            pre_ports['pre2.q'] = target['pre2']['q']

    src_ns = getattr(Src.spec(), kind)
    dst_ns = getattr(Dst.spec(), kind)
    src_before = snapshot(src_ns)
    dst_before = snapshot(dst_ns)
    expose = getattr(Dst.spec(), 'expose_' + kind)
    err = None
    try:
        from plumpy.ports import UNSPECIFIED
        real_opts = None if opts is None else {k: (UNSPECIFIED if v == 'UNSPECIFIED' else copy.deepcopy(v)) for k, v in opts.items()}
        expose(Src, namespace=nsname, exclude=ex, include=inc, namespace_options=real_opts)
    except Exception as e:  # noqa
        err = type(e).__name__
    obs = dict(error=err, paths=None)
    should_reject = (ex is not None and inc is not None) or (opts is not None and 'no_such_property' in opts)
    if should_reject:
        if err != 'ValueError':
            F('c15-not-rejected', 'include together with exclude (or an unknown namespace option) is rejected',
              dict(error=err))
        return obs, fails
    if err is not None:
        F('c15-expose-raised:' + err, 'exposing with valid rules succeeds', dict(error=err))
        return obs, fails
    target = dst_ns
    if nsname:
        for part in nsname.split('.'):
            target = target[part]
    # the destination's pre-existing ports stay (target namespace 'a' etc. never collides with pre1/pre2)
    want_pre = {'pre1': dst_ns.get('pre1'), 'pre2': dst_ns.get('pre2')}
    if nsname is not None or True:
        if want_pre['pre1'] is not pre_ports['pre1'] or want_pre['pre2'] is not pre_ports['pre2'] \
                or dst_ns['pre2'].get('q') is not pre_ports['pre2.q']:
            F('c15-destination-ports-disturbed', 'other ports of the destination stay in place', None)
    got = [p for p in leaf_paths(target) if not (nsname is None and p[0] in ('pre1', 'pre2'))]
    obs['paths'] = ['.'.join(p) for p in got]
    want = [p for p in leaf_paths_tree(tree) if selected(ex, inc, p)]
    if got != want:
        F('c15-selection', 'exactly the ports selected by the include / exclude rules are exposed (component-wise paths)',
          dict(got=obs['paths'], want=['.'.join(p) for p in want]))
    # properties: the target namespace takes the source namespace's properties unless overridden
    src_props = dict(src_before['__props__'])
    for k in NS_PROPS:
        have = repr(getattr(target, k, None))
        exp = (repr(()) if opts[k] == 'UNSPECIFIED' else repr(opts[k])) if (opts and k in opts) else src_props[k]
        if have != exp:
            F('c15-namespace-properties:' + k, 'the target namespace has the source namespace\'s properties unless overridden', dict(prop=k, have=have, want=exp))
            break
    # copied ports carry the attributes of their sources
    def sub_snapshot(snap, path):
        for part in path:
            snap = snap[part]
        return snap
    tgt_snap = snapshot(target)
    for p in got:
        if sub_snapshot(tgt_snap, p) != sub_snapshot(src_before, p):
            F('c15-port-attributes', 'a copied port has the attributes of its source', dict(path='.'.join(p)))
            break
    for p in set(tuple(q[:i]) for q in got for i in range(1, len(q))):
        if sub_snapshot(tgt_snap, p)['__props__'] != sub_snapshot(src_before, p)['__props__']:
            F('c15-nested-namespace-properties', 'nested namespaces keep the source namespace\'s properties', dict(path='.'.join(p)))
            break
    # independence, both directions
    for port in list(all_ports(target)):
        if port in (pre_ports['pre1'], pre_ports['pre2'], pre_ports['pre2.q']):
            continue
        port.help = 'mutated'
        port.required = not port.required
        if isinstance(port, PortNamespace):
            port['newport'] = InputPort('newport')
            port.dynamic = not port.dynamic
        elif port.has_default() and isinstance(port.default, dict):
            port.default['cut'].append(9)          # in place: a shallow copy of the port would share this object
    target.help = 'mutated-top'
    if snapshot(src_ns) != src_before:
        F('c15-source-changed-by-destination', 'later changes to the destination do not show through to the source', None)
    dst_mid = snapshot(dst_ns)
    for port in list(all_ports(src_ns)):
        port.help = 'src-mutated'
        port.required = not port.required
        if isinstance(port, PortNamespace):
            port['srcnew'] = InputPort('srcnew')
        elif port.has_default() and isinstance(port.default, dict):
            port.default['cut'].append(7)
    if snapshot(dst_ns) != dst_mid:
        F('c15-destination-changed-by-source', 'later changes to the source do not show through to the destination', None)
    return obs, fails


def model_line(case):
    return f"{fmt_rules(case['ex'])} {fmt_rules(case['inc'])} {enc(case['tree'])}"


def corpus():
    """witnesses of the repaired defect F13 (string-prefix include match) and side-condition corners"""
    t1 = [('a', {}, [('x', 0, None)]), ('ab', {}, [('x', 0, None), ('y', 1, None)]), ('abc', 2, None)]
    t2 = [('a', {'dynamic': True}, []), ('b', 0, None)]
    return [dict(tree=t2, ex=None, inc=None, ns='tgt', opts=None, top={}, kind='inputs'),
            dict(tree=t1, ex=None, inc=['ab.x'], ns=None, opts=None, top={}, kind='inputs'),
            dict(tree=t1, ex=None, inc=['abc'], ns='tgt', opts=None, top={}, kind='outputs'),
            dict(tree=t1, ex=['a'], inc=None, ns=None, opts={'dynamic': True}, top={'help': 'top'}, kind='inputs'),
            dict(tree=t1, ex=['a.x'], inc=['ab'], ns=None, opts=None, top={}, kind='inputs'),
            dict(tree=t1, ex=[], inc=['ab'], ns=None, opts=None, top={}, kind='inputs')]


def run(ctx):
    rng = ctx.rng
    n = 4000 if not ctx.thorough else 60000
    cases = corpus() + [gen_case(rng) for _ in range(n)]
    with mp.Pool(ctx.workers) as pool:
        res = pool.map(run_impl, cases, chunksize=100)
    # the model decides the selection for cases that are not rejected
    idx = [i for i, (c, (obs, _f)) in enumerate(zip(cases, res)) if obs['paths'] is not None]
    lines = [model_line(cases[i]) for i in idx]
    model = ctx.model.run('expose', lines)
    divergences, failures = [], []
    distinct = set()
    hist = dict(mode={}, namespace={}, rejected=0, strict_subset=0, options=0)
    for j, i in enumerate(idx):
        il = ' '.join(res[i][0]['paths'])
        if model is not None and model[j] != il:
            divergences.append(dict(case=cases[i], line=lines[j], impl=il, model=model[j]))
    for c, (obs, fails) in zip(cases, res):
        for f in fails:
            f = dict(f)
            f['case'] = c
            failures.append(f)
        mode = ('both' if c['ex'] is not None and c['inc'] is not None else 'ex' if c['ex'] is not None else 'inc' if c['inc'] is not None else 'none')
        hist['mode'][mode] = hist['mode'].get(mode, 0) + 1
        hist['namespace'][str(c['ns'])] = hist['namespace'].get(str(c['ns']), 0) + 1
        if obs['paths'] is None:
            hist['rejected'] += 1
        else:
            total = len(list(leaf_paths_tree(c['tree'])))
            if 0 < len(obs['paths']) < total:
                hist['strict_subset'] += 1
                distinct.add(model_line(c) + '|' + str(c['ns']))
        if c['opts']:
            hist['options'] += 1
    return dict(
        evaluations=len(cases), distinct_nontrivial=len(distinct),
        rule='random source trees (depth <= 3) whose names are string prefixes of one another x exclude / include rule sets over '
             'existing and non-existing dotted paths x target namespace x namespace option overrides x inputs/outputs; '
             'non-trivial = a strict, non-empty subset of the source leaves is exposed; distinct = distinct (rules, tree, namespace)',
        samples=[dict(case=cases[i], exposed=res[i][0]) for i in (0, len(cases) // 2, len(cases) - 1)],
        traces_validated=len(idx) if model is not None else 0, divergences=divergences, failures=failures,
        histograms=hist, exhaustive=False)


def replay(ctx, failure):
    case = failure['case']
    def fix(t):
        return [(nm, a, None if sub is None else fix(sub)) for nm, a, sub in t]
    case = dict(case, tree=fix(case['tree']))
    obs, fails = run_impl(case)
    m = ctx.model.run('expose', [model_line(case)]) if obs['paths'] is not None else None
    return dict(impl=obs, model=m[0] if m else None, failures=fails)
