"""C06 — a wake-up is never lost to a concurrent pause or interruption."""
from harness import pm_prop

PROPERTY = 'C06'
LEAN_PROPS = 'PlumpyModel.Props.C06'
ASSUMPTIONS = pm_prop.ASSUMPTIONS
TRUSTED = pm_prop.TRUSTED
ALPHABET = ['pause', 'play', 'resume', 'resume-', 'resumeN', 'resumeE', 'complete', 'completeexc', 'completekilled', 'kill']
MONITORS = ['c06', 'looperr']


def run(ctx):
    return pm_prop.run_pm(ctx, ALPHABET, MONITORS, listeners=True)


def replay(ctx, failure):
    return pm_prop.replay_pm(ctx, failure, MONITORS)
