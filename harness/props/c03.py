"""C03 — a failure in user code ends the process EXCEPTED, never half-transitioned (fault enumeration on the real code)."""
import harness.detloop as detloop  # noqa: F401  (must precede plumpy)
import asyncio
import logging
import multiprocessing as mp

import plumpy
from plumpy import process_states as ps
from plumpy.base.state_machine import StateEventHook

from harness import common

PROPERTY = 'C03'
LEAN_PROPS = 'PlumpyModel.Props.C03'
ASSUMPTIONS = [
    'exactly one injected fault per run: (hook point, occurrence index, raise before / after calling super())',
    'scenarios: plain run (outputs, Continue, Wait/resume), run with pause/play at every position, run with kill at every '
    'position, run with a call_soon callback, fail() requested at every position, requests issued by listeners from inside '
    'notifications (also while a pause / play hook is failing); asyncio driven one callback at a time',
    'hooks of the EXCEPTED state itself (on_except, on_excepted) are not fault points: they only run after another failure',
    'the n-th out() call of the harness process is mapped to (step function, await points before it) by the harness (OUT_AT)',
]
TRUSTED = ['lean/PlumpyModel/Fault/Process.lean: the process-control model with listeners with user overrides in every lifecycle hook '
           '(hand-written twins of PM/Listener.lean; whole runs, compared with the real run after every op of every case); that the '
           'twins of a run whose fault has not fired compute what PM/Listener.lean computes is tested by that comparison, not proved',
           'lean/PlumpyModel/Fault/Model.lean: one transition_to with raising hooks, the swallowing loops (listeners, cleanups), '
           'construction, out() (hand-written, compared on every case that exercises them)']

STATE_HOOKS = ['on_run', 'on_running', 'on_exit_running', 'on_wait', 'on_waiting', 'on_exit_waiting', 'on_finish',
               'on_finished', 'on_kill', 'on_killed', 'on_terminated', 'on_close']
OUTPUT_HOOKS = ['on_output_emitting', 'on_output_emitted']
PAUSE_HOOKS = ['on_pausing', 'on_paused', 'on_playing']
LISTENER_HOOKS = ['on_process_running', 'on_process_waiting', 'on_process_paused', 'on_process_played', 'on_output_emitted',
                  'on_process_finished', 'on_process_killed']
STEPS = ['run', 's2', 's3']


class FaultExc(Exception):
    pass


class UnprintableFaultExc(FaultExc):
    """an exception object that cannot be rendered (`str()` of it raises - its message refers to something already released): how it
    is logged must not decide what happens to the process"""

    def __str__(self):
        raise TypeError('this exception cannot be rendered')

    __repr__ = __str__


class FalsyFaultExc(FaultExc):
    """an exception object that is falsy (an error that doubles as the - here empty - collection of its problems): which exception
    it is must not depend on its truth value"""

    def __len__(self):
        return 0


def _wrap(name):
    def hook(self, *a, **kw):
        n = self._hook_counts[name] = self._hook_counts.get(name, 0) + 1
        f = self._fault
        hit = f is not None and f[0] == 'hook' and f[1] == name and f[2] == n
        if hit and f[3] == 'before':
            self._on_fault()
            self._fault_fired = self._fault_exc
            self._fault_ctx = (self.state.value, list(getattr(self, '_entered_ref', [])))
            raise self._fault_exc
        r = getattr(super(Proc, self), name)(*a, **kw)
        if hit and f[3] == 'after':
            self._on_fault()
            self._fault_fired = self._fault_exc
            self._fault_ctx = (self.state.value, list(getattr(self, '_entered_ref', [])))
            raise self._fault_exc
        return r
    hook.__name__ = name
    return hook


class UserFail(Exception):
    """the exception of a `fail()` request of the schedule (the model's `user9`)"""


class Proc(plumpy.Process):
    _fault = None

    def _on_fault(self):       # replaced per run: what the harness wants to know at the moment the fault is raised
        pass

    _fault_fired = None
    _fault_ctx = None

    @classmethod
    def define(cls, spec):
        super().define(spec)
        spec.outputs.dynamic = True

    def __init__(self, *a, fault=None, **kw):
        self._hook_counts = {}
        self._fault = fault
        occ = fault[2] if (fault is not None and len(fault) > 2 and isinstance(fault[2], int)) else 1
        self._fault_exc = (FalsyFaultExc if occ % 2 == 0 else FaultExc)('injected')
        self._trace = []
        self._acts = []
        super().__init__(*a, **kw)

    def _step_fault(self, name):
        n = self._hook_counts[name] = self._hook_counts.get(name, 0) + 1
        f = self._fault
        if f is not None and f[0] == 'step' and f[1] == name and f[2] == n:
            self._fault_fired = self._fault_exc
            raise self._fault_exc

    async def run(self):
        self._trace.append('run')
        self._acts.append((0, (), (), bool(self.paused)))
        self._ran_paused = getattr(self, '_ran_paused', False) or bool(self.paused)
        self.out('o1', 1)
        await asyncio.sleep(0)
        self._step_fault('run')
        return ps.Continue(self.s2, 1, k=2)

    def s2(self, a, k=None):
        self._trace.append('s2')
        self._acts.append((1, (a,), ((0, k),), bool(self.paused)))
        self._ran_paused = getattr(self, '_ran_paused', False) or bool(self.paused)
        self._step_fault('s2')
        self.out('o2', 2)
        return ps.Wait(self.s3)

    async def s3(self, v=None):
        self._trace.append('s3')
        self._acts.append((2, () if v is None else (v,), (), bool(self.paused)))
        self._ran_paused = getattr(self, '_ran_paused', False) or bool(self.paused)
        await asyncio.sleep(0)
        self._step_fault('s3')
        return 5


for _h in STATE_HOOKS + OUTPUT_HOOKS + PAUSE_HOOKS:
    setattr(Proc, _h, _wrap(_h))


class FaultListener(plumpy.ProcessListener):
    def __init__(self, fault, plan=None, do=None):
        super().__init__()
        self.fault = fault
        self.counts = {}
        self.ev = []
        self.fired = False
        self.plan, self.do = plan or {}, do     # {(notification, occurrence): op}: a request made DURING the transition

    def _hit(self, name):
        n = self.counts[name] = self.counts.get(name, 0) + 1
        self.ev.append(name)
        op = self.plan.get((name, n))
        if op is not None and self.do is not None:
            self.do(op)
        f = self.fault
        if f is not None and f[0] == 'listener' and f[1] == name and f[2] == n:
            self.fired = True
            # every other listener fault is an exception that cannot be rendered: a listener's failure is logged and ignored, and
            # how it is logged must not decide what happens to the process
            raise (UnprintableFaultExc if n % 2 == 1 else FaultExc)('listener')

    def on_process_running(self, p): self._hit('on_process_running')
    def on_process_waiting(self, p): self._hit('on_process_waiting')
    def on_process_paused(self, p): self._hit('on_process_paused')
    def on_process_played(self, p): self._hit('on_process_played')
    def on_output_emitted(self, p, port, value, dyn): self._hit('on_output_emitted')
    def on_process_finished(self, p, o): self._hit('on_process_finished')
    def on_process_excepted(self, p, r): self._hit('on_process_excepted')
    def on_process_killed(self, p, m): self._hit('on_process_killed')


def _is_closed(p):
    """public probe: registering a cleanup on a closed process raises ClosedError"""
    try:
        p.add_cleanup(lambda: None)
        return False
    except plumpy.ClosedError:
        return True
    except Exception:
        return bool(getattr(p, '_closed', False))


PROGRAM = ['case 0', 'fn 0 1 cont 1 1 1 1 0=2', 'fn 1 0 wait 2', 'fn 2 1 stop 5 1']      # Proc for `pmodel faultrun`
NOTIF = {'on_process_running': 'run', 'on_process_waiting': 'wai', 'on_process_paused': 'pau', 'on_process_played': 'pla',
         'on_process_finished': 'fin', 'on_process_excepted': 'exc', 'on_process_killed': 'kil'}
STEP_AT = {'run': (0, 1), 's2': (1, 0), 's3': (2, 1)}      # step function -> (fn id, await points before its `_step_fault`)
OUT_AT = {1: (0, 0), 2: (1, 0)}                             # n-th out() call of Proc -> (fn id, await points before it)


def fault_line(f):
    """the `fault …` line that tells the model about the case's fault"""
    if f is None:
        return 'fault none'
    if f[0] == 'hook' and f[1] in STATE_HOOKS + PAUSE_HOOKS:
        return f'fault hook {f[1]} {f[2]} {f[3]}'
    if f[0] == 'hook' and f[1] in OUTPUT_HOOKS:
        return 'fault step %d %d' % OUT_AT[f[2]] if f[2] in OUT_AT else 'fault none'
    if f[0] == 'step':
        return 'fault step %d %d' % STEP_AT[f[1]]
    if f[0] == 'callback':
        return 'fault callback'
    return 'fault none'          # listener / cleanup: swallowed


def run_case(case):
    """case = dict(fault=(kind, name, occurrence, variant) | None, schedule={pos: [ops]}, plan=[((notification, occ), op)])
    Besides the summary the monitors read, the run is recorded as the op lines of `pmodel faultrun` (`ops`) with the observation
    after every op (`obs`, the format of harness/pm.py plus fired / excfault / actsx / rep / loop / trans)."""
    logging.disable(logging.CRITICAL)
    fault, sched = case['fault'], {int(k): v for k, v in case['schedule'].items()}
    loop = detloop.DetLoop()
    # the process lives on `loop`; what the calling thread has as its current loop varies with the case: that loop, another one
    # that never runs, or none at all (requests made from outside a callback then must not depend on the current loop)
    import json as _json, zlib as _zlib
    mode = case.get('loop_mode') or ('own', 'foreign', 'none')[_zlib.crc32(_json.dumps(case, sort_keys=True, default=str).encode()) % 3]
    detloop.use_loop(loop, foreign={'own': False, 'foreign': True, 'none': 'none'}[mode])
    loop_errs, gc_notes = [], []
    fault_name = 'user8' if fault is not None and fault[0] == 'callback' else 'user99'

    def excname(e):
        return fault_name if isinstance(e, FaultExc) else 'user9' if isinstance(e, UserFail) else type(e).__name__

    def on_loop_error(_loop, context):
        # an unretrieved exception on an abandoned future (reported by the garbage collector) did not escape from a callback
        if 'never retrieved' in str(context.get('message', '')) and 'future' in context and 'task' not in context:
            gc_notes.append(1)
            return
        loop_errs.append(type(context.get('exception')).__name__ if context.get('exception') else str(context.get('message')))
    loop.set_exception_handler(on_loop_error)
    res = dict(constructed=True, calls=[])
    try:
        p = Proc(loop=loop, fault=fault)
    except BaseException as e:  # noqa
        res.update(constructed=False, construct_error=type(e).__name__)
        loop.close()
        return res
    lis = FaultListener(fault, {(k[0], int(k[1])): v for k, v in (case.get('plan') or [])}, lambda op: do(op, from_listener=True))
    other = FaultListener(None)          # a second listener: a failing listener must not keep the others from being notified
    p.add_process_listener(lis)
    p.add_process_listener(other)
    cleanups, cleanups2 = [], []

    def cleanup():
        cleanups.append(1)
        if fault is not None and fault[0] == 'cleanup':
            p._fault_fired = p._fault_exc
            raise p._fault_exc
    p.add_cleanup(cleanup)
    p.add_cleanup(lambda: cleanups2.append(1))      # a failing cleanup must not keep the others from running
    entered = [p.state.value]
    p._entered_ref = entered
    p.add_state_event_callback(StateEventHook.ENTERED_STATE, lambda sm, h, st: entered.append(sm.state.value))
    task = loop.create_task(p.step_until_terminated())
    handed, handed_objs = [], []
    p._on_fault = lambda: res.__setitem__('superseded_at_fault', any(op == 'pause' and a.cancelled() for op, a in handed))
    ops, obs, rep = [], [], []
    cb_handles = []

    def fstat(a):
        return ('P' if not a.done() else 'C' if a.cancelled() else 'E:' + excname(a.exception()) if a.exception() is not None else 'D')

    def peek_exception(f):
        # what `f.exception()` would return, WITHOUT marking the exception as retrieved (whether anybody retrieved the failure of
        # the process is itself observed at the end of the run: `unretrieved`)
        return f._exception if hasattr(f, '_exception') else f.exception()

    def observe(ret):
        f = p.future()
        fs = ('pending' if not f.done() else 'cancelled' if f.cancelled() else
              'exc:' + excname(peek_exception(f)) if peek_exception(f) is not None else 'result')
        ts = 'pending' if not task.done() else 'crashed' if (task.cancelled() or task.exception() is not None) else 'done'
        st = p.state
        if st == ps.ProcessState.FINISHED:
            out = f"finished:{'-' if p.result() is None else p.result()}:{1 if p.successful() else 0}"
        elif st == ps.ProcessState.EXCEPTED:
            out = 'excepted:' + excname(p.exception())
        else:
            out = 'killed' if st == ps.ProcessState.KILLED else 'live'
        tr = ' '.join(f"{x[0]}({','.join(str(v) for v in x[1])};{','.join(f'{k}={v}' for k, v in x[2])})@{1 if x[3] else 0}" for x in p._acts)
        stepping, closed = getattr(p, '_stepping', None), getattr(p, '_closed', None)
        sx = [fstat(a) for a in handed_objs]
        obs.append(
            f"ret={ret} st={st.value} paused={int(p.paused)} stepping={'?' if stepping is None else int(stepping)} "
            f"closed={'?' if closed is None else int(closed)} fut={fs} task={ts} acts={''.join(x[0] for x in sx)} trace={tr} "
            f"notif={','.join(NOTIF[n] for n in lis.ev if n in NOTIF)} cleanups={len(cleanups)} ctx= entered=? out={out} "
            f"fired={int(p._fault_fired is not None)} excfault={int(st == ps.ProcessState.EXCEPTED and p.exception() is p._fault_exc)} "
            f"actsx={','.join(sx)} rep={','.join(rep)} loop={','.join(loop_errs)} trans={int(bool(getattr(p, '_transitioning', False)))}")

    def do(op, from_listener=False):
        live = not p.has_terminated()
        r, raised = None, None
        try:
            if op == 'pause':
                r = p.pause('pm')
            elif op == 'play':
                r = p.play()
            elif op == 'kill':
                r = p.kill('km')
            elif op == 'resume':
                r = p.resume(7)
            elif op == 'fail':
                r = p.fail(UserFail('requested'), None)
            elif op == 'callsoon':
                def cb():
                    if fault is not None and fault[0] == 'callback':
                        p._fault_fired = p._fault_exc
                        res['terminated_before_fault'] = p.has_terminated()
                        raise p._fault_exc
                cb_handles.append(p.call_soon(cb))
        except BaseException as e:  # noqa
            raised = e
        if asyncio.isfuture(r):
            handed.append((op, r))
            if not any(r is a for a in handed_objs):
                handed_objs.append(r)
        res['calls'].append(dict(op=op, live=live, raised=type(raised).__name__ if raised else None,
                                 raised_is_fault=raised is p._fault_exc, ret='fut' if asyncio.isfuture(r) else r,
                                 state_after=p.state.value, terminated_after=p.has_terminated(), from_listener=from_listener))
        ret = ('fut' if asyncio.isfuture(r) else 'raised:' + excname(raised) if raised is not None else
               {True: 'T', False: 'F', None: 'none'}.get(r, 'other'))
        if from_listener:
            # issued from inside a notification: not an op of the line protocol; what it raised went to the listener
            if raised is not None:
                rep.append(f'{op}:{ret}')
            return
        ops.append({'resume': 'resume 7', 'callsoon': 'callsoon ' + ('raise' if fault is not None and fault[0] == 'callback' else 'ok')}.get(op, op))
        observe(ret)

    def tick():
        """run ONE callback of the loop (whatever it is); the stepping task and call_soon callbacks are ops of the protocol, the
        rest is plumbing and runs silently"""
        lab = loop.head_label()
        if lab is None:
            return False
        name = None
        if lab[0] == 'task' and lab[2] is task:
            name = 'stepper'
        elif lab[0] == 'task' and lab[1].endswith('ProcessCallback.run'):
            frame = lab[2].get_coro().cr_frame
            handle = frame.f_locals.get('self') if frame is not None else None
            if any(h is handle for h in cb_handles):
                name = 'usercb ' + ('raise' if fault is not None and fault[0] == 'callback' else 'ok')
        loop.step_one()
        if name is not None:
            ops.append('tick ' + name)
            observe('none')
        return True

    n = 0
    last = max(sched.keys(), default=-1)
    while n < 60:
        for op in sched.get(n, []):
            do(op)
        if not tick() and last <= n:
            break
        n += 1
    # a live process must still be controllable: a fresh pause request takes effect (then the run is completed by play)
    res['probe_pause'] = None
    if not p.has_terminated() and fault is not None and fault[0] == 'hook' and fault[1] in PAUSE_HOOKS and p._fault_fired is not None:
        if p.paused:
            do('play')
        n_paused = lis.ev.count('on_process_paused')
        do('pause')
        k = 0
        while k < 50 and not p.paused and not p.has_terminated() and lis.ev.count('on_process_paused') == n_paused and tick():
            k += 1
        # (took effect: paused now, or paused and played again at once by a listener of the plan)
        res['probe_pause'] = bool(p.paused) or p.has_terminated() or lis.ev.count('on_process_paused') > n_paused
    # completion: play, resume, drain
    for _ in range(4):
        if not p.has_terminated():
            do('play')
            if p.state == ps.ProcessState.WAITING:
                do('resume')
        k = 0
        while k < 200 and tick():
            k += 1
        if p.has_terminated() and not loop.n_ready():
            break
    f = p.future()
    # read BEFORE anything here retrieves the exception: would asyncio report the failure to the loop's exception handler as
    # "exception was never retrieved" when a fire-and-forget owner drops the process?
    res['unretrieved'] = bool(getattr(f, '_log_traceback', False)) if f.done() and not f.cancelled() else False
    res.update(
        state=p.state.value, entered=entered, trace=list(p._trace),
        exception_is_fault=p.exception() is p._fault_exc if p.state == ps.ProcessState.EXCEPTED else None,
        exception=type(p.exception()).__name__ if p.exception() is not None else None,
        fired=p._fault_fired is not None or lis.fired,
        closed=_is_closed(p),
        future=('pending' if not f.done() else 'cancelled' if f.cancelled() else
                ('exc-fault' if f.exception() is p._fault_exc else 'exc:' + type(f.exception()).__name__) if f.exception() is not None else 'result'),
        task=('pending' if not task.done() else 'crashed:' + type(task.exception()).__name__ if (not task.cancelled() and task.exception() is not None)
              else 'cancelled' if task.cancelled() else 'done'),
        loop_errs=loop_errs, cleanups=len(cleanups), cleanups_other=len(cleanups2), outputs=dict(p.outputs), notifications=list(lis.ev),
        notifications_other=list(other.ev),
        handed=[(op, 'pending' if not a.done() else 'cancelled' if a.cancelled() else
                 ('exc-fault' if a.exception() is p._fault_exc else 'exc:' + type(a.exception()).__name__) if a.exception() is not None
                 else 'result:' + str(a.result())) for op, a in handed],
        transitioning=bool(getattr(p, '_transitioning', False)),
        result=p.result() if p.state == ps.ProcessState.FINISHED else None,
        fault_ctx=p._fault_ctx,
        ran_paused=bool(getattr(p, '_ran_paused', False)),
        ops=ops, obs=obs,
    )
    loop.close()
    return res


# ---------------------------------------------------------------------------------------------------------------
PHASE = {'on_exit_running': 'exiting', 'on_exit_waiting': 'exiting', 'on_run': 'entering', 'on_wait': 'entering',
         'on_finish': 'entering', 'on_kill': 'entering', 'on_running': 'entered', 'on_waiting': 'entered',
         'on_finished': 'entered', 'on_killed': 'entered', 'on_terminated': 'terminated', 'on_close': 'close'}
TARGET_OF = {'on_run': 'running', 'on_wait': 'waiting', 'on_finish': 'finished', 'on_kill': 'killed'}


def model_query(case, res):
    """the transition in which the fault fired, as a line for `pmodel fault` (None when the fault is not a transition fault)"""
    f = case['fault']
    if f is None or not res.get('fired'):
        return None
    if f[0] == 'callback' and res.get('terminated_before_fault'):
        return None
    if f[0] in ('step', 'callback') or (f[0] == 'hook' and f[1] in OUTPUT_HOOKS):
        # the exception reaches the end of the step / fail(): a plain transition to EXCEPTED with it
        frm = 'running'
        return f'{frm} excepted 1 none -'
    if f[0] != 'hook' or f[1] not in PHASE:
        return None
    cur, entered = res['fault_ctx']
    ph = PHASE[f[1]]
    if ph == 'exiting':
        frm, tgt = cur, 'finished'
    elif ph == 'entering':
        frm, tgt = cur, TARGET_OF[f[1]]
    elif ph == 'entered':
        frm, tgt = (entered[-1] if entered else 'created'), cur
    else:
        frm, tgt = (entered[-2] if len(entered) >= 2 else 'created'), cur
    return f'{frm} {tgt} 0 {ph} {f[3]}'


def impl_line(res):
    fut = {'exc-fault': 'exc-fault', 'result': 'result', 'pending': 'pending', 'exc:KilledError': 'killed'}.get(res['future'], 'exc-other')
    return (f"label={res['state']} excfault={1 if res['exception_is_fault'] else 0} fut={fut} closed={int(res['closed'])} "
            f"cleanups={res['cleanups']} raised=none")


def monitors(case, res, base):
    """the property's clauses on the implementation's observations; `base` is the fault-free run of the same schedule"""
    out = []

    def F(sig, clause, detail=None):
        out.append(dict(signature=sig, clause=clause, detail=detail, case=case))
    f = case['fault']
    if f is None:
        return out
    if f[0] == 'construct':
        if res['constructed']:
            F('c03-construction-fault-swallowed', 'an exception raised during construction propagates to the caller')
        return out
    if not res['constructed']:
        F('c03-construction-failed', 'construction succeeds without a construction fault', res.get('construct_error'))
        return out
    if not res['fired']:
        return out
    escaped = [e for e in res['loop_errs'] if e in ('FaultExc', 'FalsyFaultExc')]
    if escaped or res['task'].startswith('crashed') or res['task'] == 'cancelled':
        F('c03-escaped-into-loop', 'the exception never escapes into the event loop and stepping returns normally',
          dict(loop=res['loop_errs'], task=res['task']))
    if res.get('unretrieved') and res['state'] == 'excepted':
        F('c03-failure-left-for-the-loop', 'the exception never escapes into the event loop (the process has taken note of its own '
          'failure: it is not reported to the loop\'s exception handler as never retrieved when the process is dropped)',
          dict(state=res['state'], future=res['future']))
    if res['transitioning']:
        F('c03-stuck-transitioning', 'the process is never left stuck between states')
    kind = f[0]
    if kind == 'callback' and res.get('terminated_before_fault'):
        # a late callback failing on a process that has already terminated must change nothing (that is C01)
        return out
    if kind in ('hook', 'step', 'callback') and not (kind == 'hook' and f[1] in PAUSE_HOOKS):
        ok = (res['state'] == 'excepted' and res['exception_is_fault'] and res['closed'] and res['future'] == 'exc-fault'
              and res['task'] == 'done')
        if not ok:
            after_close = kind == 'hook' and f[1] in ('on_terminated', 'on_close') and f[3] == 'after'
            sig = f'c03-fault-after-close:{f[1]}' if after_close else f'c03-not-excepted:{f[1]}:{f[3]}'
            F(sig, 'a fault in user code ends the process EXCEPTED with exactly that exception, closed, its future raising it',
              dict(state=res['state'], exception=res['exception'], exception_is_fault=res['exception_is_fault'],
                   closed=res['closed'], future=res['future'], task=res['task']))
    elif kind == 'hook':  # pause / play hooks
        reported = any(c['raised_is_fault'] for c in res['calls']) or any(st == 'exc-fault' for _op, st in res['handed'])
        # (a pause request that was superseded by a kill - its action future cancelled - before the hook failed has nobody left to
        # report to: the failure is logged and the kill is served)
        if not reported and not res.get('superseded_at_fault'):
            F('c03-pause-fault-not-reported', 'a fault in a pause or play hook is reported to whoever requested the pause or play',
              dict(calls=res['calls'], handed=res['handed']))
        if res.get('ran_paused'):
            F('c03-pause-fault-half-played', 'a fault in a pause or play hook leaves the process live and controllable: either paused '
              '(and then not running) or playing', dict(detail='a step function started while the process reported paused', calls=res['calls'][-4:]))
        if res['state'] == 'excepted' and res['exception_is_fault']:
            F('c03-pause-fault-killed-process', 'a fault in a pause or play hook leaves the process live and controllable')
        elif res['state'] not in ('finished', 'killed'):
            F('c03-pause-fault-uncontrollable', 'a fault in a pause or play hook leaves the process live and controllable',
              dict(state=res['state']))
        elif res.get('probe_pause') is False:
            F('c03-pause-fault-uncontrollable', 'a fault in a pause or play hook leaves the process live and controllable',
              dict(detail='a further pause() after the fault never took effect', calls=res['calls'][-4:]))
    elif kind == 'listener':
        same = all(res[k] == base[k] for k in ('state', 'trace', 'outputs', 'result', 'future', 'closed', 'entered', 'cleanups'))
        if not same:
            F('c03-listener-fault-visible', 'an exception raised by a listener changes nothing about the process',
              dict(with_fault={k: res[k] for k in ('state', 'trace', 'future')}, without={k: base[k] for k in ('state', 'trace', 'future')}))
    elif kind == 'cleanup':
        if res['state'] != base['state'] or res['future'] != base['future'] or not res['closed']:
            F('c03-cleanup-fault-visible', 'a failing cleanup does not disturb termination', dict(state=res['state']))
    return out


def gen_cases(ctx):
    P = range(0, 9)
    plain = [{}]
    pp = [{i: ['pause'], j: ['play']} for i in P for j in P if j >= i]
    kills = [{i: ['kill']} for i in P]
    calls = [{i: ['callsoon']} for i in P]
    occ = (1, 2, 3) if not ctx.thorough else (1, 2, 3, 4)
    cases = []
    for h in STATE_HOOKS + OUTPUT_HOOKS:
        for o in occ:
            for v in ('before', 'after'):
                for sc in plain + kills + (pp[::3] if not ctx.thorough else pp):
                    cases.append(dict(fault=('hook', h, o, v), schedule=sc))
    for h in PAUSE_HOOKS:
        for o in (1, 2):
            for v in ('before', 'after'):
                # (also: a second pause after the one whose hook failed, with no play in between - it must still take effect)
                pp2 = [{i: ['pause'], j: ['pause']} for i in P for j in P if j > i][::2]
                for sc in pp + [{i: ['pause']} for i in P] + [{**s, 8: ['kill']} for s in pp[::5]] + pp2:
                    cases.append(dict(fault=('hook', h, o, v), schedule=sc))
    for st in STEPS:
        for sc in plain + kills + pp[::2]:
            cases.append(dict(fault=('step', st, 1, 'before'), schedule=sc))
    both = [{i: [a, 'callsoon']} for i in P for a in ('kill', 'pause')] + [{i: ['callsoon', a]} for i in P for a in ('kill', 'pause')]
    for sc in calls + both + [{**c, 0: ['pause'], 3: ['play']} for c in calls if 0 not in c and 3 not in c]:
        cases.append(dict(fault=('callback', 'cb', 1, 'before'), schedule=sc))
    for h in LISTENER_HOOKS:
        for o in (1, 2, 3):
            for sc in plain + kills + pp[::2]:
                cases.append(dict(fault=('listener', h, o, 'before'), schedule=sc))
    for sc in plain + kills:
        cases.append(dict(fault=('cleanup', 'c', 1, 'before'), schedule=sc))
    for v in ('before', 'after'):
        cases.append(dict(fault=('construct', 'on_create', 1, v), schedule={}))
    # a request made by a LISTENER during a transition (so possibly the very transition in which the fault fires)
    plans = [[((n, o), op)] for n in ('on_process_running', 'on_process_waiting', 'on_process_paused', 'on_process_played')
             for o in (1, 2) for op in ('kill', 'pause', 'play') if not (n == 'on_process_paused' and op == 'pause')]
    for h in STATE_HOOKS:
        for o in (1, 2):
            for v in ('before', 'after'):
                for plan in plans:
                    for sc in ({}, {1: ['pause'], 4: ['play']}):
                        cases.append(dict(fault=('hook', h, o, v), schedule=sc, plan=plan))
    for st in STEPS:
        for plan in plans:
            cases.append(dict(fault=('step', st, 1, 'before'), schedule={}, plan=plan))
    # a pause / play hook failing inside a request that a listener issued from inside another pause / play / transition, or while a
    # listener interferes with the pause that is being enacted (F28: the superseded pause action)
    for h in PAUSE_HOOKS:
        for o in (1, 2):
            for v in ('before', 'after'):
                for plan in plans:
                    for sc in ({0: ['pause'], 2: ['play']}, {1: ['pause'], 4: ['play']}):
                        cases.append(dict(fault=('hook', h, o, v), schedule=sc, plan=plan))
    # fail() requested by the environment at every position: the hooks of the transition it starts (F30: on_exit_waiting raising
    # while the stepping task is suspended on the wait of the state being left)
    for h in STATE_HOOKS:
        for o in (1, 2):
            for v in ('before', 'after'):
                for i in P:
                    cases.append(dict(fault=('hook', h, o, v), schedule={i: ['fail']}))
    return cases


# (round 4, findings F28 / F30: the case in which the pending pause action performs the step's transition, a listener of that
# transition calls kill() - which cancels the running pause action - and on_pausing then raises; it is case of the enumeration now)
NESTED_WITNESS = dict(fault=('hook', 'on_pausing', 1, 'before'), schedule={1: ['pause'], 4: ['play']},
                      plan=[(('on_process_running', 2), 'kill')])


def _work(case):
    if case['fault'] is not None and case['fault'][0] == 'construct':
        return run_construct(case), None
    res = run_case(case)
    base = run_case(dict(fault=None, schedule=case['schedule'], plan=case.get('plan'))) if case['fault'] and case['fault'][0] in ('listener', 'cleanup') else None
    return res, base


def run_construct(case):
    v = case['fault'][3]

    class Bad(Proc):
        def on_create(self):
            if v == 'before':
                raise FaultExc('construct')
            super().on_create()
            raise FaultExc('construct')
    loop = detloop.DetLoop()
    asyncio.set_event_loop(loop)
    try:
        Bad(loop=loop)
        out = dict(constructed=True, fired=True)
    except FaultExc:
        out = dict(constructed=False, construct_error='FaultExc', fired=True)
    except BaseException as e:  # noqa
        out = dict(constructed=False, construct_error=type(e).__name__, fired=True)
    loop.close()
    if case['fault'][0] == 'construct' and not out['constructed'] and out['construct_error'] == 'FaultExc':
        out['ok'] = True
    return out


OBS_KEYS = ['ret', 'st', 'paused', 'stepping', 'closed', 'fut', 'task', 'acts', 'trace', 'notif', 'cleanups', 'ctx', 'entered', 'out',
            'fired', 'excfault', 'actsx', 'rep', 'loop', 'trans']


def parse_obs(line):
    """split an observation line into its fields (values may contain blanks and '=': the keys come in a fixed order)"""
    pos, at = [], 0
    for k in OBS_KEYS:
        i = line.find(('' if k == 'ret' else ' ') + k + '=', at)
        if i < 0:
            return None
        pos.append((k, i + (0 if k == 'ret' else 1)))
        at = i + 1
    out = {}
    for j, (k, i) in enumerate(pos):
        end = pos[j + 1][1] - 1 if j + 1 < len(pos) else len(line)
        out[k] = line[i + len(k) + 1:end]
    return out


def diff_obs(case, impl, model):
    """first field in which the implementation's observation differs from the model's (None: they agree)"""
    a, b = parse_obs(impl), parse_obs(model)
    if a is None or b is None:
        return 'unparsable'
    f = case['fault']
    hookfault = f is not None and f[0] == 'hook' and f[1] in STATE_HOOKS + PAUSE_HOOKS
    for k in OBS_KEYS:
        if k in ('ctx', 'entered') or a[k] == '?' or (k == 'fired' and not hookfault):
            continue
        if a[k] != b[k]:
            return k
    return None


def model_lines(case, res):
    """the whole run as lines for `pmodel faultrun`: program, plan, fault, then the ops the harness performed"""
    head = list(PROGRAM)
    if case.get('plan'):
        head.append('plan ' + ' '.join(f'{NOTIF[k[0]]}:{k[1]}:{op}' for k, op in case['plan']))
    head.append(fault_line(case['fault']))
    return head, list(res['ops'])


def small_queries(case, res):
    """(line for `pmodel fault`, the implementation's answer) for the faults in user code that is not a lifecycle hook of a transition:
    output hooks (what the faulty out() call had done when it raised), listeners and cleanups (the loop that calls them)"""
    f = case['fault']
    out = []
    if f[0] == 'hook' and f[1] in OUTPUT_HOOKS and res.get('fired'):
        port = {1: 'o1', 2: 'o2'}[f[2]]
        n_emitted = sum(1 for n in res['notifications'] if n == 'on_output_emitted')
        out.append((f"outcall {'emitting' if f[1] == 'on_output_emitting' else 'emitted'} {f[3]}",
                    f"stored={int(port in res['outputs'])} notified={int(n_emitted >= f[2])} raised=fault"))
    if f[0] == 'listener' and res.get('fired'):
        # the faulty listener and the other one: both were called for the notification in which the fault fired
        n_other = sum(1 for n in res['notifications_other'] if n == f[1])
        out.append(('callall 1 0', f"ran={1 + int(n_other >= f[2])} logged=1"))
    if f[0] == 'cleanup' and res.get('fired'):
        out.append(('callall 1 0', f"ran={res['cleanups'] + res['cleanups_other']} logged=1"))
    return out


def run(ctx):
    cases = gen_cases(ctx)
    with mp.Pool(ctx.workers) as pool:
        results = pool.map(_work, cases, chunksize=50)
    failures, divergences = [], []
    queries, qidx = [], []
    small, sidx = [], []
    fired = 0
    hist = {}
    distinct = set()
    for i, (case, (res, base)) in enumerate(zip(cases, results)):
        f = case['fault']
        if f[0] == 'construct':
            if res.get('constructed'):
                failures.append(dict(signature='c03-construction-fault-swallowed', clause='an exception raised during construction propagates to the caller', case=case, detail=None))
            elif res.get('construct_error') != 'FaultExc':
                failures.append(dict(signature='c03-construction-wrong-exception', clause='an exception raised during construction propagates to the caller', case=case, detail=res.get('construct_error')))
            fired += 1
            small.append((f'construct {f[3]}', f"constructed={int(bool(res.get('constructed')))} raised={'fault' if res.get('construct_error') == 'FaultExc' else 'none'}"))
            sidx.append(i)
            continue
        if res.get('fired'):
            fired += 1
            key = f'{f[0]}:{f[1]}:{f[3]}'
            hist[key] = hist.get(key, 0) + 1
            distinct.add((f, res['state'], res['future'], tuple(res['entered'])))
        failures.extend(monitors(case, res, base))
        q = model_query(case, res)
        if q is not None:
            queries.append(q)
            qidx.append(i)
        for q in small_queries(case, res):
            small.append(q)
            sidx.append(i)
    # (1) the transition in which a lifecycle-hook fault fired, against the transition model (`pmodel fault`, Fault/Model.lean)
    model = ctx.model.run('fault', queries)
    if model is not None:
        for q, i, m in zip(queries, qidx, model):
            il = impl_line(results[i][0])
            if il != m:
                divergences.append(dict(case=cases[i], stream='transition', query=q, impl=il, model=m))
    # (2) construction, out() calls, listener and cleanup loops against their small models (same driver)
    model = ctx.model.run('fault', [q for q, _ in small])
    if model is not None:
        for (q, il), i, m in zip(small, sidx, model):
            if il != m:
                divergences.append(dict(case=cases[i], stream='small', query=q, impl=il, model=m))
    # (3) EVERY case as a whole run against the process-control model with the injected fault (`pmodel faultrun`,
    #     Fault/Process.lean): program, plan, fault and the ops performed; the observation after every op is compared
    runs = [(i, c, r[0]) for i, (c, r) in enumerate(zip(cases, results)) if c['fault'][0] != 'construct' and r[0].get('constructed')]
    chunks, spans = [], []
    for k in range(0, len(runs), 200):
        cur, span = [], []
        for i, c, r in runs[k:k + 200]:
            head, ops = model_lines(c, r)
            span.append((i, len(cur) + len(head), len(ops)))
            cur.extend(head + ops)
        chunks.append(cur)
        spans.append(span)
    outs = ctx.model.run_parallel('faultrun', chunks)
    n_ops = 0
    if outs is not None:
        for out, span in zip(outs, spans):
            for i, at, n in span:
                obs = results[i][0]['obs']
                for j in range(n):
                    n_ops += 1
                    d = diff_obs(cases[i], obs[j], out[at + j]) if at + j < len(out) else 'missing'
                    if d is not None:
                        divergences.append(dict(case=cases[i], stream='run', op_index=j, op=results[i][0]['ops'][j], field=d,
                                                impl=obs[j], model=out[at + j] if at + j < len(out) else None))
                        break
    return dict(
        evaluations=len(cases), distinct_nontrivial=len(distinct),
        rule='every lifecycle / output / pause hook x occurrence <= 3 x raise before/after super(), every step function, a call_soon '
             'callback, every listener method, a cleanup and construction, each x scenarios (plain run, pause/play at all positions, '
             'kill at all positions, requests issued by listeners during the transition); non-trivial = the fault fired; distinct = '
             'distinct (fault, final state, future, entered log); every case is compared op by op with the model run '
             '(pmodel faultrun), the faulty transition with the transition model (pmodel fault)',
        samples=[dict(case=cases[i], result={k: v for k, v in results[i][0].items() if k in ('state', 'future', 'closed', 'task', 'entered', 'handed')})
                 for i in (0, len(cases) // 2, len(cases) - 3)],
        traces_validated=(len(runs) + len(queries) + len(small)) if outs is not None else 0, divergences=divergences, failures=failures,
        histograms=dict(fired=fired, fault_kinds=hist, model_runs=len(runs), model_ops_compared=n_ops,
                        transition_queries=len(queries), small_model_queries=len(small)), exhaustive=True)


def replay(ctx, failure):
    case = failure['case']
    case = dict(fault=tuple(case['fault']) if case['fault'] else None, schedule=case['schedule'], plan=case.get('plan'))
    res, base = _work(case)
    fails = [] if case['fault'][0] == 'construct' else monitors(case, res, base)
    return dict(result={k: v for k, v in res.items() if k != 'calls'}, failures=[dict(signature=f['signature'], clause=f['clause'], detail=f['detail']) for f in fails])
