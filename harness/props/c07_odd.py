"""C07, impl-only stream: process classes with unusual but legal definitions, decided by the property's own round-trip clauses on
the real objects (no model): the bundle saved at every state entry travels through each medium, is loaded in a fresh loop and saved
again - the second bundle must be identical and the loaded process must report the same state, context, outputs and outcome.

  * CtxLast   - `class P(Process, ContextMixin)`: the Savable mixin comes AFTER Process in the bases (WorkChain lists it first);
  * LateFault - a terminal hook raising after super(): the process excepts AFTER its future was resolved, so the future it holds
                when saved is the one `on_except` put in its place;
  * LateOut   - an output emitted from `on_finished` before super() (after the future was given the outputs).
"""
from harness import common


def _classes():
    import plumpy

    class CtxLast(plumpy.Process, plumpy.ContextMixin):
        def run(self):
            self.ctx.seen = ['run']
            self.ctx.n = 41
            return plumpy.Continue(self.second)

        def second(self):
            self.ctx.seen.append('second')
            self.ctx.n += 1
            return plumpy.Wait(self.third, msg='waiting', data={'k': 1})

        def third(self, value=None):
            self.ctx.seen.append('third')
            self.out('n', self.ctx.n)
            return self.ctx.n

        @classmethod
        def define(cls, spec):
            super().define(spec)
            spec.outputs.dynamic = True

    class LateFault(plumpy.Process):
        def run(self):
            self.out('v', 1)
            return 5

        def on_finished(self):
            super().on_finished()
            raise ValueError('late fault')

        @classmethod
        def define(cls, spec):
            super().define(spec)
            spec.outputs.dynamic = True

    class LateOut(plumpy.Process):
        def run(self):
            self.out('first', 1)
            return 5

        def on_finished(self):
            self.out('closing', 2)
            super().on_finished()

        @classmethod
        def define(cls, spec):
            super().define(spec)
            spec.outputs.dynamic = True

    return dict(CtxLast=CtxLast, LateFault=LateFault, LateOut=LateOut)


CLASSES = None


def get_class(name):
    """module-level access (the loader resolves `harness.props.c07_odd:<name>`)"""
    global CLASSES
    if CLASSES is None:
        common.ensure_repo_on_path()
        CLASSES = _classes()
        for k, c in CLASSES.items():
            c.__module__ = __name__
            c.__qualname__ = k
            globals()[k] = c
    return CLASSES[name]


def _canon(x):
    if isinstance(x, dict) or hasattr(x, 'items'):
        return '{' + ','.join(f'{k!r}:{_canon(v)}' for k, v in sorted(x.items(), key=lambda kv: repr(kv[0]))) + '}'
    if isinstance(x, (list, tuple)):
        return '[' + ','.join(_canon(v) for v in x) + ']'
    return repr(x)


def _obs(p):
    import plumpy
    out = dict(state=p.state.value, paused=bool(p.paused), pid=str(p.pid), status=p.status, outputs=_canon(p.outputs),
               ctime=p.creation_time)
    if isinstance(p, plumpy.ContextMixin):
        out['ctx'] = _canon(p.ctx.__dict__) if p.ctx is not None else None
    if p.has_terminated():
        try:
            out['outcome'] = ('exc', type(p.exception()).__name__, str(p.exception())) if p.exception() is not None else \
                ('killed', p.killed_msg()) if p.killed() else ('result', _canon(p.result()), p.is_successful())
        except Exception as e:  # noqa
            out['outcome'] = ('raised', type(e).__name__)
        f = p.future()
        out['future'] = ('cancelled' if f.cancelled() else ('exc', type(f.exception()).__name__) if f.exception() is not None
                         else ('result', _canon(f.result()))) if f.done() else 'pending'
    return out


def run_stream(_=None):
    common.ensure_repo_on_path()
    import asyncio
    import logging
    import plumpy
    from plumpy.base.state_machine import StateEventHook
    from harness import persist_gen as pg, detloop
    logging.disable(logging.CRITICAL)
    fails, n = [], 0

    def fail(sig, clause, cls, where, detail):
        fails.append(dict(signature=sig, clause=clause, detail=detail, case=dict(odd_class=cls, where=where)))

    for name in ('CtxLast', 'LateFault', 'LateOut'):
        cls = get_class(name)
        loop = detloop.DetLoop()
        asyncio.set_event_loop(loop)
        loop.set_exception_handler(lambda l, c: None)
        snaps = []

        def snap(p, where):
            try:
                b = plumpy.Bundle(p)
            except Exception as e:  # noqa
                fail('save-raised', 'a process without live awaitables can be saved', name, where, f'{type(e).__name__}: {e}')
                return
            try:
                snaps.append((where, {m: pg.through(m, b) for m in pg.MEDIA}, pg.flat_bundle(b), _obs(p)))
            except Exception as e:  # noqa
                fail('medium-raised', 'the bundle travels through the medium', name, where, f'{type(e).__name__}: {e}')

        p = cls(loop=loop)
        p.add_state_event_callback(StateEventHook.ENTERED_STATE, lambda sm, _h, _f: snap(sm, f'entered:{sm.state.value}'))
        snap(p, 'created')
        loop.create_task(p.step_until_terminated())
        for _ in range(60):
            if not loop.step_one():
                if p.state == plumpy.ProcessState.WAITING and not p.has_terminated():
                    p.resume(7)
                    continue
                break
        if p.has_terminated():
            snap(p, 'terminated')
        for where, copies, flat, obs in snaps:
            for mi, m in enumerate(pg.MEDIA):
                n += 1
                l2 = asyncio.new_event_loop()
                detloop.use_loop(l2, foreign=(False, True, 'none')[(mi + len(where)) % 3])
                try:
                    q = copies[m].unbundle(plumpy.LoadSaveContext(loop=l2))
                except Exception as e:  # noqa
                    fail('load-raised', 'a saved process can be loaded', name, where, f'{m}: {type(e).__name__}: {e}')
                    continue
                try:
                    again = pg.flat_bundle(plumpy.Bundle(q))
                except Exception as e:  # noqa
                    fail('resave-raised', 'the loaded process can be saved again', name, where, f'{m}: {type(e).__name__}: {e}')
                    continue
                if again != flat:
                    fail('resave-differs', 'save, load, save yields an identical bundle', name, where,
                         dict(medium=m, first_difference=pg.first_diff(flat, again)))
                try:
                    o2 = _obs(q)
                except Exception as e:  # noqa
                    o2 = dict(raised=type(e).__name__)
                if o2 != obs:
                    fail('loaded-observation-differs', 'the loaded process reports the same pid, state, outputs, context, status, '
                         'paused flag, creation time and outcome', name, where,
                         dict(medium=m, differs={k: (obs.get(k), o2.get(k)) for k in set(obs) | set(o2) if obs.get(k) != o2.get(k)}))
                try:
                    l2.close()
                except Exception:  # noqa
                    pass
    asyncio.set_event_loop(None)
    return dict(failures=fails, round_trips=n)
