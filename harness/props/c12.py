"""C12 — outputs are stored only if valid; success requires spec-conforming outputs."""
import copy
import itertools
import logging
import multiprocessing as mp

from harness import common, ports_gen as pg

PROPERTY = 'C12'
LEAN_PROPS = 'PlumpyModel.Props.C12'
ASSUMPTIONS = [
    'validators are pure oracles (the harness uses "reject every value mentioning atom n")',
    'value domain: int (including the falsy 0) and float atoms, plain nested dicts and immutable mappings (AttributesFrozendict: a Mapping '
    'that is not a dict), nested in each other in every way; emitted values are not mutated by user code afterwards',
    'an emitted immutable mapping is a VALUE: a leaf for the recursion of validate_dynamic_ports, no instance of dict, and nothing can be '
    'stored below it (TypeError directly below, AttributeError deeper - like below an int); its keys do not name dict methods '
    '(AttributesFrozendict answers attribute reads from its keys: with a callable under the key "setdefault" the storage loop of out() '
    'would call it - not generated)',
    'out() is called from the step function of a process run with execute() on a stock asyncio loop, exceptions of out() are caught by '
    'the step; no control requests (those are C01-C06)',
    'one process per class: the output spec is class-level state that out() extends by dynamic creation; the harness builds a fresh '
    'class per case and reads the spec back through the public mapping API before every emission',
]
TRUSTED = ['output-side model lean/PlumpyModel/Ports/Out.lean (hand-written, compared with real runs per emission: outcome / exception '
           'class, dynamic flag, listener notification, outputs tree with plain dicts {..} and immutable mappings <..> told apart by trying an '
           'item assignment, port-name tree of the spec; then state, successful, result, future)',
           'reference rule of the monitors (harness/ports_gen.py: ref_accepts_out, ref_dyn_ok, ref_insert, ref_conforms_ns), a transcription of '
           'the property text, not a call into plumpy',
           'implementation-only stream (a test, no model behind it): a spec whose PORT_NAMESPACE_TYPE is a stricter PortNamespace subclass '
           '(port names and dynamic keys must be identifiers, dynamic int leaves non-negative), emissions through namespaces created on the '
           'fly at depth 1..3; oracle strict_expect / strict_conforms written from that rule, evaluated on the port names of the spec as '
           'read back through the mapping API before every emission']

_LOOP = None


def _loop():
    global _LOOP
    if _LOOP is None:
        import asyncio
        _LOOP = asyncio.new_event_loop()
    return _LOOP


def run_impl(case):
    top, sub, ops, fin_ok, result = case
    common.ensure_repo_on_path()
    logging.disable(logging.CRITICAL)
    import plumpy
    from plumpy import processes
    rec = []          # per emission: dict(outcome, cls, before (spec snapshot, outputs), after outputs, events)

    class Listener(plumpy.ProcessListener):
        def __init__(self):
            super().__init__()
            self.emitted, self.finished = [], []

        def on_output_emitted(self, process, output_port, value, dynamic):
            self.emitted.append((output_port, pg.from_py(value), bool(dynamic)))

        def on_process_finished(self, process, outputs):
            self.finished.append(pg.from_py(outputs))

        def __hash__(self):           # (pins the place in the listener set: after the failing ones below)
            return 7

    class Broken(plumpy.ProcessListener):
        """other listeners of the same process that fail in every callback: what one listener does is nothing to the others"""

        def __init__(self, h):
            super().__init__()
            self.h = h

        def __hash__(self):
            return self.h

        def on_output_emitted(self, process, output_port, value, dynamic):
            raise RuntimeError('broken listener')

        def on_process_finished(self, process, outputs):
            raise RuntimeError('broken listener')

    class P(processes.Process):
        @classmethod
        def define(cls, spec):
            super().define(spec)
            pg.set_ns_attrs(spec.outputs, top[0], top[2], top[1], top[3])
            pg.build_ports(spec.outputs, sub, output=True)

        def run(self):
            for path, v in ops:
                before_spec = pg.snapshot_spec(self.spec().outputs)
                before_out = pg.from_py(self.outputs)
                n_ev = len(lis.emitted)
                try:
                    self.out(path, pg.to_py(v))
                    outcome = 'ok'
                except Exception as e:  # noqa: the step catches whatever out() raises
                    outcome = 'err ' + type(e).__name__
                rec.append(dict(outcome=outcome, before_spec=before_spec, before_out=before_out, after_out=pg.from_py(self.outputs),
                                events=list(lis.emitted[n_ev:]), O=pg.show(self.outputs),
                                S=pg.spec_names(pg.snapshot_spec(self.spec().outputs)[1])))
            return result if fin_ok else plumpy.UnsuccessfulResult(result)

    lis = Listener()
    try:
        p = P(loop=_loop())
        for h in (1, 2, 3):
            p.add_process_listener(Broken(h))
        p.add_process_listener(lis)
        p.execute()
    except BaseException as e:  # noqa
        return common.plain(dict(error=type(e).__name__, rec=rec))
    fin = dict(state=p.state.value, final_spec=pg.snapshot_spec(P.spec().outputs), outputs=pg.from_py(p.outputs), emitted=list(lis.emitted),
               finished=list(lis.finished))
    try:
        fin['successful'] = bool(p.successful())
    except Exception as e:  # noqa
        fin['successful'] = 'raises ' + type(e).__name__
    try:
        r = p.result()
        fin['result'] = r if isinstance(r, (int, float, str, bool, type(None))) else 'object ' + type(r).__name__    # plain data only
    except Exception as e:  # noqa
        fin['result'] = 'raises ' + type(e).__name__
    try:
        fin['future'] = pg.from_py(p.future().result())
    except Exception as e:  # noqa
        fin['future'] = 'raises ' + type(e).__name__
    return common.plain(dict(error=None, rec=rec, fin=fin))


def show_t(v):
    return pg.show_ref(v) if isinstance(v, tuple) else '-'


def impl_line(r):
    if r['error']:
        return 'crash ' + r['error']
    parts = []
    for x in r['rec']:
        tail = f"O={x['O']} S={x['S']}"
        if x['outcome'] == 'ok':
            if len(x['events']) == 1:
                e = x['events'][0]
                parts.append(f"ok d={int(e[2])} ev={e[0]};{pg.show_ref(e[1])};{int(e[2])} {tail}")
            else:
                parts.append(f"ok d=? ev=x{len(x['events'])} {tail}")
        else:
            parts.append(f"{x['outcome']}{'' if not x['events'] else ' ev=x%d' % len(x['events'])} {tail}")
    f = r['fin']
    lis = show_t(f['finished'][0]) if len(f['finished']) == 1 else f"x{len(f['finished'])}"
    succ = int(f['successful']) if isinstance(f['successful'], bool) else f['successful']
    parts.append(f"fin {f['state']} succ={succ} res={f['result']} fut={show_t(f['future'])} lis={lis}")
    return ' | '.join(parts)


def case_line(case):
    top, sub, ops, fin_ok, result = case
    return (pg.enc_top(top, sub) + f' OPS {len(ops)} ' + ' '.join(f'p:{path} {pg.enc_v(v)}' for path, v in ops)).strip() + f' FIN {int(fin_ok)} {result}'


def monitors(case, r):
    """the property on the implementation's observations; the reference acceptance rule is evaluated on the real spec as it is
    before each emission (read back through the mapping API), so dynamic creation by earlier calls is taken into account"""
    top, sub, ops, fin_ok, result = case
    fails = []

    def fail(sig, clause, detail):
        fails.append(dict(signature=sig, clause=clause, case=dict(top=top, ports=sub, ops=ops, fin_ok=fin_ok, result=result), detail=detail))
    if r['error']:
        fail('run-raised', 'the process runs to FINISHED', r['error'])
        return fails
    accepted = []
    for i, ((path, v), x) in enumerate(zip(ops, r['rec'])):
        attrs, ssub = x['before_spec']
        where = dict(op=i, path=path, value=pg.show_ref(v), outcome=x['outcome'])
        try:
            ok, dyn = pg.ref_accepts_out(attrs, ssub, path, v)
            resolves = True
        except pg.PathError:
            ok, dyn, resolves = False, None, False
        want_out = None
        if ok:
            try:
                want_out = pg.ref_insert(x['before_out'][1], path.split('.'), v)
            except pg.PathError:
                ok, resolves = False, False                      # spec accepts, but the place is taken by a non-mapping value
        stored = x['outcome'] == 'ok'
        if stored and not ok:
            fail('out-stored-rejected-value', 'out() stores a value exactly when the output spec accepts it', where)
        elif not stored and ok:
            fail('out-raised-on-accepted-value', 'out() stores a value exactly when the output spec accepts it', where)
        elif not stored:
            if resolves and x['outcome'] != 'err ValueError':
                fail('out-wrong-error-class', 'ValueError for a rejected value', where)
            if pg.canon(x['after_out']) != pg.canon(x['before_out']):
                fail('outputs-changed-by-failed-out', 'a failed out() leaves the outputs unchanged',
                     dict(where, before=pg.show_ref(x['before_out']), after=pg.show_ref(x['after_out'])))
            if x['events']:
                fail('listener-notified-of-failed-out', 'listeners report stored values', where)
        else:
            if pg.canon(x['after_out']) != pg.canon(('D', want_out)):
                fail('outputs-not-inserted', 'the value is stored at its (nested) port',
                     dict(where, want=pg.show_ref(('D', want_out)), after=pg.show_ref(x['after_out'])))
            if x['events'] != [(path, v, dyn)] and [(e[0], pg.canon(e[1]), e[2]) for e in x['events']] != [(path, pg.canon(v), dyn)]:
                fail('listener-mismatch', 'listeners are told (port, value, dynamic) of every stored value', dict(where, events=str(x['events'])))
            accepted.append((path, v))
    f = r['fin']
    if f['state'] != 'finished':
        fail('not-finished', 'a normal return ends FINISHED', f['state'])
        return fails
    if f['result'] != result:
        fail('result-not-preserved', 'the result is preserved', dict(want=result, got=str(f['result'])))
    # what the future and listeners later report is what was stored
    want = []
    try:
        for path, v in accepted:
            want = pg.ref_insert(want, path.split('.'), v)
    except pg.PathError:
        want = None
    if want is not None:
        for name, got in (('outputs', f['outputs']), ('future', f['future']), ('listener', f['finished'][0] if len(f['finished']) == 1 else None)):
            if not isinstance(got, tuple) or pg.canon(got) != pg.canon(('D', want)):
                fail(f'{name}-mismatch', 'stored values are what the process future and listeners later report',
                     dict(want=pg.show_ref(('D', want)), got=show_t(got) if isinstance(got, tuple) else str(got)))
    attrs, ssub = f['final_spec']
    conform = pg.ref_conforms_ns(attrs, ssub, f['outputs'])
    if f['successful'] != (fin_ok and conform):
        fail('successful-mismatch', 'successful only if the collected outputs satisfy the output spec (and exactly then for a successful return)',
             dict(successful=f['successful'], step_ok=fin_ok, outputs_conform=conform, outputs=show_t(f['outputs']),
                  spec=pg.spec_names(ssub)))
    return fails


# ---------------------------------------------------------------- generation
def out_leaf_variants():
    return [('L', req, ty, None, False, vd) for req in (True, False) for ty in (None, 0) for vd in (None, 1)]


def out_ns_variants(sub):
    return [('N', req, ty, None, dyn, True, vd, sub) for req in (True, False) for ty, dyn in ((None, False), (None, True), (0, True))
            for vd in (None, 1)]


def out_forests(n):
    if n == 0:
        yield []
        return
    for first in range(1, n + 1):
        for t in out_trees(first):
            for rest in out_forests(n - first):
                yield [t] + rest


def out_trees(n):
    if n == 1:
        yield from out_leaf_variants()
    for subf in out_forests(n - 1):
        yield from out_ns_variants(pg.name_forest(subf))


SMALL_PATHS = ['a', 'b', 'a.a', 'a.b', 'z', 'z.y', 'a.z.y']
SMALL_VALUES = [('A', 0, 1), ('A', 1, 2), ('A', 0, 0), ('D', []), ('D', [('a', ('A', 0, 2))]), ('F', [('a', ('A', 0, 2))]), ('F', [])]
SMALL_OPS = [(p, v) for p in SMALL_PATHS for v in SMALL_VALUES]
SMALL_TOPS = [(True, False, None, None), (True, True, None, None), (True, True, 0, None), (True, False, None, 1)]


def flatten(rng, attrs, sub, items, prefix=''):
    """emissions that build the items tree: declared namespaces are entered, dynamic mappings either emitted whole or entered"""
    ops = []
    declared = dict(sub)
    for k, v in items:
        p = declared.get(k)
        if v[0] == 'D' and p is not None and p[0] == 'N':
            if rng.random() < 0.15:
                ops.append((prefix + k, v))
            else:
                ops.extend(flatten(rng, (p[1], p[4], p[2], p[6]), p[7], v[1], prefix + k + '.'))
        elif v[0] == 'D' and p is None and v[1] and rng.random() < 0.6:
            ops.extend(flatten(rng, attrs, [], v[1], prefix + k + '.'))
        else:
            ops.append((prefix + k, v))
    return ops


def all_paths(sub, prefix=''):
    out = []
    for k, p in sub:
        out.append((prefix + k, p))
        if p[0] == 'N':
            out.extend(all_paths(p[7], prefix + k + '.'))
    return out


def bad_op(rng, top, sub, ops):
    paths = all_paths(sub)
    kind = rng.choice(['wrongtype', 'unknown', 'through-leaf', 'deep-dynamic', 'atom-at-ns', 'falsy-at-ns', 'dict-at-ns', 'below-value',
                       'empty-seg', 'dict-at-leaf', 'repeat'])
    leaves = [q for q, p in paths if p[0] == 'L']
    nss = [q for q, p in paths if p[0] == 'N']
    if kind == 'wrongtype' and leaves:
        return (rng.choice(leaves), ('A', rng.randint(0, 1), rng.randint(0, 3)))
    if kind == 'through-leaf' and leaves:
        return (rng.choice(leaves) + rng.choice(['.x', '.x.y']), ('A', 0, 1))
    if kind == 'deep-dynamic':
        base = rng.choice(nss + ['']) if nss else ''
        segs = rng.sample(['x', 'y', 'z', 'w'], rng.randint(1, 3))
        return ((base + '.' if base else '') + '.'.join(segs), pg.gen_value(rng, 2))
    if kind == 'atom-at-ns' and nss:
        return (rng.choice(nss), ('A', rng.randint(0, 1), rng.randint(1, 3)))
    if kind == 'falsy-at-ns' and nss:
        return (rng.choice(nss), rng.choice([('A', 0, 0), ('D', [])]))
    if kind == 'dict-at-ns' and nss:
        q = rng.choice(nss)
        p = dict(paths)[q]
        return (q, ('D', pg.gen_good_items(rng, (p[1], p[4], p[2], p[6]), p[7], set())))
    if kind == 'below-value' and ops:
        q, v = rng.choice(ops)
        # below an emitted value, one to three segments deep, along its own keys where it has any (a mapping that was emitted
        # plain can be extended, an immutable one - see '+frozen' - cannot, at whatever depth it sits) or at a new key
        for _k in range(rng.randint(1, 3)):
            keys = [k for k, _ in v[1]] if v[0] != 'A' else []
            k = rng.choice(keys) if keys and rng.random() < 0.7 else 'x'
            q += '.' + k
            v = dict(v[1]).get(k, ('A', 0, 1)) if v[0] != 'A' else v
        return (q, ('A', 0, 1))
    if kind == 'empty-seg':
        return (rng.choice(['', '.x', 'x.', 'x..y', 'a.', '.']), ('A', 0, 1))
    if kind == 'dict-at-leaf' and leaves:
        return (rng.choice(leaves), ('D', [('w', ('A', 0, 1))]))
    if kind == 'repeat' and ops:
        q, v = rng.choice(ops)
        return (q, pg.gen_value(rng, 1))
    return (rng.choice(['q', 'q.r', 'x']), pg.gen_value(rng, 1))


def gen_cases(ctx):
    rng = ctx.rng
    cases, streams = [], []

    def add(stream, top, sub, ops, fin_ok=True, result=7):
        cases.append((top, sub, list(ops), fin_ok, result))
        streams.append(stream)

    # corpus: spec changed by a failed out(); value below an emitted atom; falsy value at a namespace; empty segments
    add('corpus', (True, True, 0, None), [('x', ('L', True, 0, None, False, None)), ('ns', ('N', False, None, None, False, True, None,
        [('a', ('L', True, 0, None, False, None))]))],
        [('a', ('A', 0, 5)), ('a.b', ('A', 0, 3)), ('c.d', ('A', 1, 0)), ('x.y', ('A', 0, 1)), ('ns', ('A', 0, 0)), ('ns', ('D', [('a', ('A', 0, 1))])),
         ('ns', ('A', 0, 5)), ('ns.a.b', ('A', 0, 1)), ('.q', ('A', 0, 1)), ('q.', ('A', 0, 1)), ('q..r', ('A', 0, 1)), ('x', ('A', 0, 1))])
    add('corpus', (True, False, None, None), [('x', ('L', True, 0, None, False, None))], [('x', ('A', 1, 1)), ('y', ('A', 0, 1)), ('y.z', ('A', 0, 1))])
    add('corpus', (True, False, None, None), [('x', ('L', True, 0, None, False, None))], [('x', ('A', 0, 1))], fin_ok=False, result=9)
    add('corpus', (True, False, None, None), [('x', ('L', True, 0, None, False, None))], [('x', ('A', 0, 1))])
    # emitted immutable mappings (values, not places to store below): the false alarm of round 5 and its neighbours
    add('corpus', (True, True, None, None), [], [('q', ('F', [])), ('q.x', ('A', 0, 1)), ('q.x.y', ('A', 0, 1)), ('q', ('D', [])), ('q.x.y', ('A', 0, 1))])
    add('corpus', (True, True, None, None), [], [('q', ('D', [('a', ('F', [('b', ('D', []))]))])), ('q.a.z', ('A', 0, 1)), ('q.a.b.c', ('A', 0, 1)),
                                                  ('q.z', ('A', 0, 1)), ('q.a', ('D', [])), ('q.a.b.c', ('A', 0, 1))])
    add('corpus', (True, True, 0, None), [], [('q', ('F', [('a', ('A', 0, 1))])), ('q', ('D', [('a', ('F', []))])), ('q', ('D', [('a', ('A', 0, 1))]))])
    fz_subs = [[('a', ('N', False, None, None, True, True, None, [('a', ('L', False, 0, None, False, None))])), ('b', ('L', False, None, None, False, None))],
               [('a', ('N', True, 0, None, True, True, None, []))]]
    fz_first = [('F', []), ('F', [('a', ('A', 0, 1))]), ('F', [('a', ('F', []))]), ('F', [('a', ('D', []))]), ('D', [('a', ('F', []))]),
                ('D', [('a', ('F', [('b', ('D', []))]))]), ('D', [('a', ('D', [('b', ('F', []))]))])]
    for top in ((True, True, None, None), (True, True, 0, None), (True, False, None, None)):
        for sub in fz_subs:
            for base in ('q', 'a', 'a.q', 'b'):
                for v1 in fz_first:
                    for suffix in ('.a', '.x', '.a.b', '.a.x', '.a.b.c', '.a.b.c.d'):
                        for v2 in (('A', 0, 1), ('F', [])):
                            add('frozen-below', top, sub, [(base, v1), (base + suffix, v2)])
                    # overwritten by a plain dict, the place is free again
                    add('frozen-below', top, sub, [(base, v1), (base + '.a.b', ('A', 0, 1)), (base, ('D', [])), (base + '.a.b', ('A', 0, 1))],
                        fin_ok=top[2] is None)
    # bounded-exhaustive: every output spec with <= 2 ports x every single emission of the small alphabet + sampled pairs
    n_pairs = 60 if ctx.thorough else 14
    n_specs = 0
    for n in (1, 2):
        for f in out_forests(n):
            sub = pg.name_forest(f)
            n_specs += 1
            top = SMALL_TOPS[n_specs % len(SMALL_TOPS)]
            add('exhaustive', top, sub, [])
            for op in SMALL_OPS:
                add('exhaustive', top, sub, [op])
            for _ in range(n_pairs):
                add('exhaustive-pairs', top, sub, [rng.choice(SMALL_OPS), rng.choice(SMALL_OPS)] + ([rng.choice(SMALL_OPS)] if rng.random() < 0.3 else []))
    # random: output specs up to 6 ports; an emission plan that builds conforming outputs, perturbed
    n_rand = 80000 if ctx.thorough else 9000
    for _ in range(n_rand):
        top, sub = pg.gen_spec(rng, max_nodes=6, depth=2 if rng.random() < 0.8 else 3, output=True)
        items = pg.gen_good_items(rng, top, sub, set())
        ops = flatten(rng, top, sub, items)
        rng.shuffle(ops)
        r = rng.random()
        stream = 'random-good'
        if r > 0.45:
            stream = 'random-perturbed'
            for _k in range(rng.randint(1, 3)):
                ops.insert(rng.randint(0, len(ops)), bad_op(rng, top, sub, ops))
            if rng.random() < 0.2 and ops:
                del ops[rng.randrange(len(ops))]
        if rng.random() < 0.2:
            # some of the emitted mappings are immutable ones (a non-dict Mapping: a leaf value for the dynamic recursion)
            ops = [(q, pg.freeze_some(rng, v, 0.5)) for q, v in ops]
            stream += '+frozen'
        add(stream, top, sub, ops[:8], fin_ok=rng.random() < 0.85, result=rng.randint(0, 9))
    return cases, streams, n_specs


def run_main(ctx):
    cases, streams, n_specs = gen_cases(ctx)
    with mp.Pool(ctx.workers) as pool:
        impl = pool.map(run_impl, cases, chunksize=50)
    lines = [case_line(c) for c in cases]
    model = None
    if ctx.model.available:
        k = max(1, len(lines) // (ctx.workers * 2))
        chunks = [lines[i:i + k] for i in range(0, len(lines), k)]
        outs = ctx.model.run_parallel('portsout', chunks)
        model = [x for ch in outs for x in ch]
    divergences, failures = [], []
    distinct = set()
    h_out, h_fin, h_len, h_stream = {}, {}, {}, {}
    for idx, (case, r) in enumerate(zip(cases, impl)):
        failures.extend(monitors(case, r))
        il = impl_line(r)
        if model is not None and model[idx] != il:
            a, b = il.split(' | '), model[idx].split(' | ')
            first = next((i for i, (x, y) in enumerate(itertools.zip_longest(a, b)) if x != y), None)
            divergences.append(dict(case=dict(top=case[0], ports=case[1], ops=case[2], fin_ok=case[3], result=case[4]), line=lines[idx],
                                    first_differing_op=first, impl=a[first] if first is not None and first < len(a) else il,
                                    model=b[first] if first is not None and first < len(b) else model[idx]))
        if r['error']:
            continue
        for x in r['rec']:
            key = x['outcome'] if x['outcome'] != 'ok' else ('ok:dynamic' if x['events'] and x['events'][0][2] else 'ok:declared')
            h_out[key] = h_out.get(key, 0) + 1
        f = r['fin']
        fk = f"{f['state']}:{'successful' if f['successful'] is True else 'unsuccessful'}:{'step-ok' if case[3] else 'step-unsuccessful'}"
        h_fin[fk] = h_fin.get(fk, 0) + 1
        s = h_stream.setdefault(streams[idx], {})
        s[fk] = s.get(fk, 0) + 1
        h_len[len(case[2])] = h_len.get(len(case[2]), 0) + 1
        if len(case[2]) >= 2 and any(x['outcome'] == 'ok' for x in r['rec']):
            distinct.add(il)
    failures.sort(key=lambda f: len(str(f['case'])))          # report the smallest failing input first
    return dict(
        evaluations=len(cases), distinct_nontrivial=len(distinct),
        rule='every output spec with <= 2 ports over the attribute alphabet x (no emission, every single emission of a 49-element alphabet '
             '(7 paths x 7 values, two of them immutable mappings), sampled pairs/triples), an enumerated stream of emissions 1..4 segments '
             'below an emitted immutable mapping (at the top / inside a plain dict / at a declared namespace) incl. overwriting it, plus '
             'random output specs with <= 6 ports x emission plans that build conforming outputs, perturbed by '
             'wrong types, unknown / dynamic / through-a-leaf / empty-segment / below-an-emitted-value paths, values at namespace paths, '
             'a fifth of them with some emitted mappings immutable; non-trivial = >= 2 emissions '
             'with at least one stored; distinct = distinct observation streams',
        samples=[dict(line=lines[i], impl=impl_line(impl[i])) for i in (0, len(cases) // 2, len(cases) - 1)],
        traces_validated=len(cases) if model is not None else 0,
        divergences=divergences, failures=failures, exhaustive=False,
        histograms=dict(out_outcomes=h_out, final=h_fin, final_by_stream=h_stream, emissions_per_case=h_len, specs_enumerated=n_specs),
    )


def replay(ctx, failure):
    case = failure['case']
    if case.get('late_stream'):
        return dict(failures=[dict(signature=f['signature'], detail=f['detail']) for f in late_emission_stream()])
    if case.get('subclass_stream'):
        c = eval(case['raw'], {'int': int})                 # the case as generated (written by this harness into the replay file)
        return dict(failures=[dict(signature=f['signature'], detail=f['detail']) for f in strict_monitors(c, run_strict_case(c))])
    if 'program' in case:
        from harness import pm_prop
        return pm_prop.replay_pm(ctx, failure, ['c12pm'])

    def fix_v(v):
        return ('A', v[1], v[2]) if v[0] == 'A' else (v[0], [(k, fix_v(x)) for k, x in v[1]])

    def fix_p(p):
        if p[0] == 'L':
            return ('L', p[1], p[2], None, False, p[5])
        return ('N', p[1], p[2], None, p[4], p[5], p[6], [(k, fix_p(x)) for k, x in p[7]])
    c = (tuple(case['top']), [(k, fix_p(p)) for k, p in case['ports']], [(path, fix_v(v)) for path, v in case['ops']],
         bool(case['fin_ok']), int(case['result']))
    r = run_impl(c)
    m = ctx.model.run('portsout', [case_line(c)])
    fails = monitors(c, r)
    return dict(line=case_line(c), impl=impl_line(r), model=m[0] if m else None,
                failures=[dict(signature=f['signature'], detail=f['detail']) for f in fails])


def late_emission_stream():
    """impl-only: a value that out() stores from a finishing hook (an `on_finish` override emitting after super()) is part of the
    outputs, so it is in what the future and the listeners report"""
    common.ensure_repo_on_path()
    import plumpy
    fails = []
    for nested in (False, True):
        class Lis(plumpy.ProcessListener):
            def __init__(self):
                super().__init__()
                self.finished = None

            def on_process_finished(self, process, outputs):
                self.finished = pg.from_py(outputs)

        class Late(plumpy.Process):
            @classmethod
            def define(cls, spec):
                super().define(spec)
                spec.outputs.dynamic = True

            def run(self):
                self.out('a', 1)

            def on_finish(self, result, successful):
                super().on_finish(result, successful)
                self.out('ns.late' if nested else 'late', 2)
        lis = Lis()
        p = Late(loop=_loop())
        p.add_process_listener(lis)
        p.execute()
        stored, fut = pg.from_py(p.outputs), pg.from_py(p.future().result())
        if not (stored == fut == lis.finished):
            fails.append(dict(signature='late-output-not-reported', clause='stored values are exactly what the outputs, the process future '
                              'and listeners later report', detail=dict(stored=pg.show_ref(stored), future=pg.show_ref(fut),
                                                                        listener=pg.show_ref(lis.finished) if lis.finished else None),
                              case=dict(late_stream=True, nested=nested)))
    return fails


# ---------------------------------------------------------------- impl-only: a spec with its own port namespace class
# `ProcessSpec.PORT_NAMESPACE_TYPE` gives a process family its own kind of port namespace (aiida-core restricts port names to
# valid link labels this way).  The class below is stricter than the stock one in two ways; both are part of the output spec at
# EVERY depth of a dynamic namespace, also in the namespaces that `out()` creates on the fly:
#   names : a port (declared or created on the fly) must be named by a Python identifier (`__setitem__` raises ValueError),
#           and so must every key of a dynamic value, through nested plain dicts;
#   values: an int leaf of a dynamic value must not be negative.
STRICT_GOOD_NAMES = ['run_1', 'x', 'step2', 'e_tot']
STRICT_BAD_NAMES = ['run-1', '2x', 'a b', 'e-tot', '']
STRICT_VALUES = [3, 0, -1, 2.5, {'k': 1}, {'k': {'j': 2}}, {'bad-key': 1}, {'k': {'e-tot': 1}}, {'k': -1}, {'k': 2.5}, {},
                 ('F', {'k': 1}), ('F', {'bad-key': -1})]


def _strict_classes():
    common.ensure_repo_on_path()
    import plumpy
    from plumpy import ports

    def bad_in(value, breadcrumbs):
        """first offence of a dynamic value against the two rules, through plain dicts (an immutable mapping is a leaf)"""
        if isinstance(value, dict):
            for key, sub in value.items():
                if not (isinstance(key, str) and key.isidentifier()):
                    return f"'{key}' is not a valid label", (*breadcrumbs, key)
                r = bad_in(sub, (*breadcrumbs, key))
                if r:
                    return r
        elif isinstance(value, int) and value < 0:
            return 'negative', breadcrumbs
        return None

    class StrictNamespace(ports.PortNamespace):
        def __setitem__(self, name, port):
            if not name.isidentifier():
                raise ValueError(f"'{name}' is not a valid port name")
            super().__setitem__(name, port)

        def validate_dynamic_ports(self, port_values, breadcrumbs=()):
            r = bad_in(port_values, (*breadcrumbs, self.name))
            if r:
                return ports.PortValidationError(r[0], ports.breadcrumbs_to_port(r[1]))
            return super().validate_dynamic_ports(port_values, breadcrumbs)

    class StrictSpec(plumpy.ProcessSpec):
        PORT_NAMESPACE_TYPE = StrictNamespace

    return StrictNamespace, StrictSpec


def strict_py(v):
    if isinstance(v, tuple):
        from plumpy import utils
        return utils.AttributesFrozendict({k: strict_py(x) for k, x in v[1].items()})
    if isinstance(v, dict):
        return {k: strict_py(x) for k, x in v.items()}
    return v


def strict_rule_ok(v):
    """the subclass's rule on a dynamic value: identifier keys and no negative int, through nested plain dicts"""
    if isinstance(v, dict):
        return all(k.isidentifier() and strict_rule_ok(x) for k, x in v.items())
    return not (isinstance(v, int) and v < 0)


def strict_type_ok(v, ty):
    """the stock rule of a typed dynamic namespace: leaves of the type, plain dicts nest, anything else is a leaf"""
    if isinstance(v, dict):
        return all(strict_type_ok(x, ty) for x in v.values())
    return isinstance(v, ty)


def strict_tree(ns):
    """the port names of a real namespace, read through the public mapping API: {name: 'L' | subtree}"""
    from plumpy import ports
    return {k: strict_tree(p) if isinstance(p, ports.PortNamespace) else 'L' for k, p in ns.items()}


def strict_conforms(tree, dynamic, ty, v):
    """a value for the namespace with port names `tree` (all of whose leaf ports are optional ints): empty, or a mapping whose
    declared entries conform to their ports and whose other entries are dynamic values obeying the class's rules and the type.
    A namespace below `data` has the attributes of `data`, one created at the top those of `spec.outputs`."""
    if not isinstance(v, (dict, tuple)):
        return not v                                         # any falsy value counts as the empty mapping
    items = v if isinstance(v, dict) else v[1]
    for k, x in items.items():
        port = tree.get(k)
        if port == 'L':
            if not isinstance(x, int):
                return False
        elif port is not None:
            if not strict_conforms(port, dynamic, ty, x):
                return False
        elif not (dynamic and k.isidentifier() and strict_rule_ok(x) and (ty is None or strict_type_ok(x, ty))):
            return False
    return True


def strict_expect(spec, tree, before, path, v):
    """the oracle, from the rule only.  `spec` = (top_dynamic, data_type): `spec.outputs` (dynamic or not, untyped) holds one declared
    dynamic namespace `data` (of type `data_type` or untyped) with one declared optional int leaf `data.fixed`; `tree` are the port
    names of the output spec as it is before the call (earlier calls create namespaces).  Returns
    'store' | 'reject' (ValueError, outputs unchanged) | 'raise' (some exception: the path runs through a leaf port or below a value)"""
    top_dynamic, data_ty = spec
    segs = path.split('.')
    dynamic, ty, top = top_dynamic, None, True
    for seg in segs[:-1]:
        port = tree.get(seg)
        if port == 'L':
            return 'raise'                                   # through a leaf port: not a name of the spec (its own error classes)
        if port is not None:
            if top and seg == 'data':
                dynamic, ty = True, data_ty
            tree, top = port, False
            continue
        if not seg.isidentifier() or not dynamic:
            return 'reject'                                  # the name rule holds for namespaces created on the fly, at every level
        tree, top = {}, False                                # created: attributes and CLASS of the dynamic parent
    name = segs[-1]
    port = tree.get(name)
    if port == 'L':
        ok = isinstance(v, int)
    elif port is not None:
        a = (True, data_ty) if top and name == 'data' else (dynamic, ty)
        ok = strict_conforms(port, a[0], a[1], v)
    else:
        ok = dynamic and name.isidentifier() and strict_rule_ok(v) and (ty is None or strict_type_ok(v, ty))
    if not ok:
        return 'reject'
    cur = before
    for seg in segs[:-1]:
        if seg not in cur:
            break
        cur = cur[seg]
        if not isinstance(cur, dict):
            return 'raise'                                   # the place is below a stored value
    return 'store'


def strict_cases(rng, n):
    cases = []
    for i in range(n):
        spec = (rng.random() < 0.5, rng.choice([None, int]))
        ops = []
        for _ in range(rng.randint(1, 6)):
            depth = rng.randint(0, 3)                        # number of not (necessarily) yet existing namespaces below the base
            base = rng.choice(['data', 'data', 'data', None])
            names = [rng.choice(STRICT_GOOD_NAMES) if rng.random() < 0.8 else rng.choice(STRICT_BAD_NAMES) for _ in range(depth + 1)]
            if rng.random() < 0.1:
                names[-1] = 'fixed'
            segs = ([base] if base else []) + names
            if rng.random() < 0.05:
                segs = ['data']
            v = rng.choice(STRICT_VALUES) if rng.random() < 0.6 else rng.choice([3, 1, 7])
            ops.append(('.'.join(segs), v))
        cases.append((spec, ops, rng.random() < 0.9))
    # the demonstration of the seeded change, as a fixed case
    cases.append(((False, int), [('data.total', 3), ('data.not-a-label', 1), ('data.run_1.energy', 5), ('data.run_1.final-energy', 7),
                                 ('data.run_2.step_1.e-tot', 7), ('data.run_2.step_1.etot', 2.5), ('data.run_2.step_1.etot', 7)], True))
    return cases


def strict_plain(x):
    """a comparable copy of a real outputs tree: plain dicts as dicts, immutable mappings as ('F', dict)"""
    if pg.is_mapping(x):
        d = {k: strict_plain(v) for k, v in x.items()}
        return ('F', d) if pg.is_frozen(x) else d
    return x


def run_strict_case(case):
    spec, ops, fin_ok = case
    logging.disable(logging.CRITICAL)
    StrictNamespace, StrictSpec = _strict_classes()
    import plumpy
    rec = []

    class Lis(plumpy.ProcessListener):
        def __init__(self):
            super().__init__()
            self.emitted, self.finished = [], []

        def on_output_emitted(self, process, output_port, value, dynamic):
            self.emitted.append((output_port, strict_plain(value)))

        def on_process_finished(self, process, outputs):
            self.finished.append(strict_plain(outputs))

    class P(plumpy.Process):
        _spec_class = StrictSpec

        @classmethod
        def define(cls, spec_):
            super().define(spec_)
            spec_.outputs.dynamic = spec[0]
            spec_.output_namespace('data', dynamic=True, valid_type=spec[1], required=False)
            spec_.output('data.fixed', valid_type=int, required=False)

        def run(self):
            for path, v in ops:
                before = strict_plain(self.outputs)
                tree = strict_tree(self.spec().outputs)
                n_ev = len(lis.emitted)
                try:
                    self.out(path, strict_py(v))
                    outcome = 'ok'
                except Exception as e:  # noqa
                    outcome = 'err ' + type(e).__name__
                rec.append(dict(outcome=outcome, before=before, tree=tree, after=strict_plain(self.outputs), events=lis.emitted[n_ev:]))
            return 7 if fin_ok else plumpy.UnsuccessfulResult(7)

    lis = Lis()
    try:
        assert isinstance(P.spec().outputs, StrictNamespace) and isinstance(P.spec().outputs['data'], StrictNamespace)
        p = P(loop=_loop())
        p.add_process_listener(lis)
        p.execute()
        fin = dict(state=p.state.value, successful=bool(p.successful()), result=p.result(), outputs=strict_plain(p.outputs),
                   future=strict_plain(p.future().result()), finished=list(lis.finished), tree=strict_tree(P.spec().outputs))
    except BaseException as e:  # noqa
        return dict(error=type(e).__name__ + ': ' + str(e)[:200], rec=rec)
    return dict(error=None, rec=rec, fin=fin)


def strict_insert(tree, segs, v):
    out = dict(tree)
    if len(segs) == 1:
        out.pop(segs[0], None)
        out[segs[0]] = v
    else:
        out[segs[0]] = strict_insert(tree.get(segs[0], {}), segs[1:], v)
    return out


def strict_monitors(case, r):
    spec, ops, fin_ok = case
    fails = []
    shown = dict(subclass_stream=True, spec=[spec[0], None if spec[1] is None else 'int'], ops=[[q, repr(v)] for q, v in ops], fin_ok=fin_ok,
                 raw=repr(case).replace("<class 'int'>", 'int'))

    def fail(sig, clause, detail):
        fails.append(dict(signature=sig, clause=clause, case=shown, detail=detail))
    if r['error']:
        fail('strict-run-raised', 'the process runs to FINISHED', r['error'])
        return fails
    for i, ((path, v), x) in enumerate(zip(ops, r['rec'])):
        want = strict_expect(spec, x['tree'], x['before'], path, v)
        where = dict(op=i, path=path, value=repr(v), outcome=x['outcome'], expected=want)
        stored = x['outcome'] == 'ok'
        if stored and want != 'store':
            fail('strict-out-stored-rejected-value', 'out() stores a value exactly when the output spec (with the rules of its own namespace '
                 'class, at every level) accepts it', where)
        elif not stored and want == 'store':
            fail('strict-out-raised-on-accepted-value', 'out() stores a value exactly when the output spec accepts it', where)
        if not stored:
            if want == 'reject' and x['outcome'] != 'err ValueError':
                fail('strict-out-wrong-error-class', 'ValueError for a rejected value', where)
            if x['after'] != x['before']:
                fail('strict-outputs-changed-by-failed-out', 'a failed out() leaves the outputs unchanged', dict(where, after=repr(x['after'])))
            if x['events']:
                fail('strict-listener-notified-of-failed-out', 'listeners report stored values', where)
        elif want == 'store':
            if x['after'] != strict_insert(x['before'], path.split('.'), v):
                fail('strict-outputs-not-inserted', 'the value is stored at its (nested) port', dict(where, after=repr(x['after'])))
            if x['events'] != [(path, v)]:
                fail('strict-listener-mismatch', 'listeners are told of every stored value', dict(where, events=repr(x['events'])))
    f = r['fin']
    if f['state'] != 'finished' or f['result'] != 7:
        fail('strict-not-finished', 'a normal return ends FINISHED with the result preserved', dict(state=f['state'], result=repr(f['result'])))
        return fails
    if not (f['outputs'] == f['future'] and f['finished'] == [f['outputs']]):
        fail('strict-report-mismatch', 'stored values are what the process future and listeners later report', repr(f))
    conform = strict_conforms(dict(f['tree'], data={}), spec[0], None, {k: x for k, x in f['outputs'].items() if k != 'data'}) and \
        strict_conforms(f['tree']['data'], True, spec[1], f['outputs'].get('data', {}))
    if f['successful'] != (fin_ok and conform):
        fail('strict-successful-mismatch', 'successful only if the collected outputs satisfy the output spec - with the rules of its '
             'namespace class at every level - and exactly then for a successful return',
             dict(outputs=repr(f['outputs']), step_ok=fin_ok, successful=f['successful'], outputs_conform=conform))
    return fails


def strict_namespace_stream(ctx, cases=None):
    """impl-only (no model behind it; a test, not a proof): emissions through not-yet-existing intermediate namespaces at depth 1..3
    of a spec whose PORT_NAMESPACE_TYPE is a stricter PortNamespace subclass; oracle = that class's rule at every level"""
    if cases is None:
        cases = strict_cases(ctx.rng, 6000 if ctx.thorough else 1500)
    with mp.Pool(ctx.workers) as pool:
        res = pool.map(run_strict_case, cases, chunksize=50)
    fails, hist = [], {}
    for case, r in zip(cases, res):
        fails.extend(strict_monitors(case, r))
        for (path, v), x in zip(case[1], r.get('rec', [])):
            key = x['outcome'] + ':' + strict_expect(case[0], x['tree'], x['before'], path, v)
            hist[key] = hist.get(key, 0) + 1
    fails.sort(key=lambda f: len(f['case']['raw']))
    return fails, len(cases), hist


def run(ctx):
    """the emission / finish-time streams above, plus the missing-output program of the process-control harness under
    every placement of pause / play / future cancellation (the finish-time rule must not depend on the schedule)"""
    out = run_main(ctx)
    from harness import pm, pm_prop
    sub = pm_prop.run_pm(ctx, ['pause', 'play', 'cancelfut', 'kill'], ['c12pm'], k_quick=3, k_thorough=4, n_random_quick=0,
                         n_random_thorough=0, programs={'MissingOut': pm.CORPUS['MissingOut']})
    out['evaluations'] += sub['evaluations']
    out['failures'].extend(sub['failures'])
    out['divergences'].extend(sub['divergences'])
    out.setdefault('histograms', {})['missing_output_under_schedules'] = dict(cases=sub['evaluations'])
    out['failures'].extend(late_emission_stream())
    out['evaluations'] += 2
    fails, n, hist = strict_namespace_stream(ctx)
    out['failures'].extend(fails)
    out['evaluations'] += n
    out['histograms']['strict_namespace_class_stream'] = dict(cases=n, outcome_vs_oracle=hist, level='test (implementation only)')
    return out
