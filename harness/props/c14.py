"""C14 — persisters are a snapshot store keyed by (pid, tag), equivalent to each other.

A *case* is a history: `dict(label, pids=[id tokens], tags=[id tokens], ops=[[name, args...], ...])`.  Id tokens carry the
kind and the string form of the Python value (`i:12`, `u:<uuid>`, `s:abc`; the tag None is `-`), so a case is plain JSON,
is what the model driver reads (`pmodel persister`), and is rebuilt into real ints / UUIDs / strs for the real code.

The real `InMemoryPersister` and `PicklePersister` (real directory under the check's scratch dir) are driven side by side
on the same real live processes (`harness/persist_procs.py`), which are stepped by `progress` operations.  After every
operation both persisters are probed completely through their public API (`get_checkpoints()` + `load_checkpoint` of every
key of the case's universe), so that every frame condition of the property is observed at every step.
"""
import asyncio
import copy
import itertools
import logging
import multiprocessing as mp
import os
import shutil
import tempfile
import uuid

from harness import common

PROPERTY = 'C14'
LEAN_PROPS = 'PlumpyModel.Props.C14'
ASSUMPTIONS = [
    'side condition of the property: ids and tags of one kind per history (int, UUID or str) whose string forms contain '
    'neither "." nor "/"; histories outside it (generated separately) are only reported in the histogram',
    'a snapshot is the bundle `process.save()` produces at save time; loaded bundles are compared by == with a deep copy '
    'taken by the harness when save_checkpoint was called',
    'progress of a live process = one Process.step() of a real process (auto-persisted members and outputs, a member '
    'handed out by reference in save_instance_state, a WorkChain context), which changes its persisted state',
    'missing checkpoints: KeyError (in-memory), FileNotFoundError (pickle) and the documented PersistenceError are all '
    'observed as "missing"',
    'order of get_checkpoints()/get_process_checkpoints() is unspecified: listings are compared sorted, duplicates kept',
]
TRUSTED = ['persister models lean/PlumpyModel/Persister/Model.lean (hand-written; compared with both real persisters after '
           'every operation of every generated history); pickle file-name templates regenerated from the source '
           '(Gen/Pickle.lean)', 'the file system under PicklePersister, pickle, copy.deepcopy (exercised, not modelled)']

MUTATORS = ('save', 'del', 'delp', 'progress')
CLAUSES = {
    'save-raised': 'saving a checkpoint succeeds',
    'load-not-latest-snapshot': 'loading returns the most recently saved snapshot',
    'save-touches-other-key': 'a save changes only its own key',
    'load-not-pure': 'loading / listing does not change what is stored',
    'list-not-exact': 'listing returns exactly the keys currently stored',
    'delete-raised': 'deleting a checkpoint (present or absent) raises nothing',
    'delete-ineffective': 'a deleted checkpoint is gone',
    'delete-not-idempotent': 'deleting an absent checkpoint changes nothing',
    'delete-not-local': 'deleting a checkpoint touches only its key',
    'delete-process-not-exact': "deleting a process's checkpoints removes all and only that process's tags",
    'failed-save-not-atomic': 'a save that fails leaves the stored checkpoints (that key included) as they were',
    'snapshot-not-immutable': 'a stored snapshot is unaffected by anything the live process does afterwards',
    'persisters-differ': 'the in-memory and the pickle persister are observationally equivalent',
}


# ---------------------------------------------------------------------------------------------------------------------
# ids

def tok(v):
    if v is None:
        return '-'
    if isinstance(v, bool):
        return f'?:{v}'
    if isinstance(v, int):
        return f'i:{v}'
    if isinstance(v, uuid.UUID):
        return f'u:{v}'
    if isinstance(v, str):
        return f's:{v}'
    return f'?:{type(v).__name__}'


def val(t):
    if t == '-':
        return None
    k, body = t[:2], t[2:]
    if k == 'i:':
        return int(body)
    if k == 'u:':
        return uuid.UUID(body)
    if k == 's:':
        return body
    raise ValueError(t)


def key_str(p, t):
    return f'{p}/{t}'


STR_ALPHABET = 'abcdefghijklmnopqrstuvwxyz0123456789_-'
STR_SPECIAL = ['pickle', 'None', '0', '1', 'a', 'tag', '_', '-1', 'A', 'pickle_', '', '', '', 'tmp', 'tmp', 'bak', 'lock', 'new', 'part']      # the empty string is a separator-free string too


def make_ids(rng, kind, n):
    out = []
    while len(out) < n:
        if kind == 'int':
            v = rng.choice([rng.randint(-3, 12), rng.randint(-10 ** 6, 10 ** 12)])
        elif kind == 'uuid':
            v = uuid.UUID(int=rng.getrandbits(128))
        else:
            v = rng.choice(STR_SPECIAL) if rng.random() < 0.3 else \
                ''.join(rng.choice(STR_ALPHABET) for _ in range(rng.randint(1, 6)))
            if v == '-':
                continue
        if tok(v) not in out:
            out.append(tok(v))
    return out


def case_lines(case):
    head = f"case {case['label']} P {' '.join(case['pids'])} T {' '.join(case['tags'])}"
    # `recreate p t` (load, unbundle, run the recreated process) is a `load p t` as far as the store is concerned
    # ... and `failsave p t` (a save that raises while the bundle is being built) is a `list` (nothing changes, the keys are listed)
    return [head] + [' '.join(['load'] + list(op[1:]) if op[0] == 'recreate' else ['list'] if op[0] == 'failsave' else op)
                     for op in case['ops']]


def universe(case):
    keys = [(p, t) for p in case['pids'] for t in ['-'] + list(case['tags'])]
    return sorted(set(keys), key=lambda k: key_str(*k))


# ---------------------------------------------------------------------------------------------------------------------
# the real code

def shape(x):
    """types and sharing structure of a saved state (values left out): what `==` on bundles does not see"""
    seen = {}
    out = []

    def go(v):
        if isinstance(v, (dict, list, tuple, set, frozenset)):
            if isinstance(v, (dict, list, set)):           # (sharing matters for what can be changed in place)
                if id(v) in seen:
                    out.append(('ref', seen[id(v)]))
                    return
                seen[id(v)] = len(seen)
            out.append(('dict' if type(v).__name__ == 'Bundle' else type(v).__name__, len(v)))     # (a Bundle is the saved-state dict)
            items = sorted(v.items(), key=lambda kv: repr(kv[0])) if isinstance(v, dict) else \
                sorted(v, key=repr) if isinstance(v, (set, frozenset)) else v
            for it in items:
                go(it[1] if isinstance(v, dict) else it)
        else:
            out.append(type(v).__name__)
    go(x)
    return out


class Runner:
    """both real persisters, the live processes, the harness's own snapshots and the reference dictionary"""

    def __init__(self, case, root):
        common.ensure_repo_on_path()
        import plumpy
        from harness import persist_procs as pp
        logging.disable(logging.CRITICAL)
        self.case = case
        self.missing_exc = (LookupError, OSError, getattr(plumpy, 'PersistenceError', LookupError))
        self.loop = asyncio.new_event_loop()
        self.dir = tempfile.mkdtemp(prefix='case-', dir=root)
        self.pers = [('mem', plumpy.InMemoryPersister()), ('pkl', plumpy.PicklePersister(os.path.join(self.dir, 'pickles')))]
        rot = len(case['ops'])           # which classes the pids get rotates with the case, so that small cases see all of them
        self.procs = {p: pp.CLASSES[(i + rot) % len(pp.CLASSES)](pid=val(p), loop=self.loop) for i, p in enumerate(case['pids'])}
        self.n = {p: 0 for p in case['pids']}            # number of progress steps of each process
        self.refs = {}                                   # (pid token, n) -> deep copy of process.save() taken at a save
        self.universe = universe(case)
        self.store = {}                                  # reference dictionary of the monitors: (pid, tag) -> n
        self.notes = []

    def close(self):
        try:
            self.loop.close()
        finally:
            shutil.rmtree(self.dir, ignore_errors=True)

    # -- canonical observations ---------------------------------------------------------------------------------------
    def match(self, bundle, p):
        """the progress count n of the harness snapshot this bundle is equal to"""
        hits = [n for (q, n), ref in self.refs.items() if q == p and ref == bundle]
        if not hits:
            hits = [n for (q, n), ref in self.refs.items() if q != p and ref == bundle]
        return str(hits[0]) if len(set(hits)) == 1 else ('?' if not hits else 'ambiguous')

    def call(self, fn):
        # a missing checkpoint: KeyError (in-memory), FileNotFoundError (pickle), or the documented PersistenceError
        try:
            return 'ok', fn()
        except self.missing_exc:
            return 'missing', None
        except Exception as e:  # noqa
            return f'err:{type(e).__name__}', None

    def load(self, P, p, t):
        st, b = self.call(lambda: P.load_checkpoint(val(p), val(t)))
        if st != 'ok':
            return st
        exp = self.store.get((p, t))
        if exp is not None and self.refs.get((p, exp)) == b:
            # equal - and of the same SHAPE: the same container types (a defaultdict stays one) and the same sharing (one list
            # stored under two names is still one list)
            if shape(self.refs[(p, exp)]) != shape(b):
                return f'ok:{exp}:reshaped'
            return f'ok:{exp}'
        return f'ok:{self.match(b, p)}'

    @staticmethod
    def listing(st, cps):
        if st != 'ok':
            return st
        try:
            return '[' + ','.join(sorted(key_str(tok(c.pid), tok(c.tag)) for c in cps)) + ']'
        except Exception as e:  # noqa
            return f'err:{type(e).__name__}'

    def dump(self, P):
        lst = self.listing(*self.call(P.get_checkpoints))
        loads = []
        for p, t in self.universe:
            r = self.load(P, p, t)
            if r != 'missing':
                loads.append(f'{key_str(p, t)}={r[3:] if r.startswith("ok:") else r}')
        return f"L{lst}S[{','.join(loads)}]"

    def apply(self, P, op):
        name = op[0]
        if name == 'save':
            st, _ = self.call(lambda: P.save_checkpoint(self.procs[op[1]], val(op[2])))
            return st
        if name == 'load':
            return self.load(P, op[1], op[2])
        if name == 'failsave':
            self.procs[op[1]].__dict__['_fail_save'] = True
            st, _ = self.call(lambda: P.save_checkpoint(self.procs[op[1]], val(op[2])))
            self.procs[op[1]].__dict__.pop('_fail_save', None)
            if st == 'ok':
                return 'failsave-did-not-raise'
            return self.listing(*self.call(P.get_checkpoints))      # a failed save leaves everything as it was
        if name == 'recreate':
            res = self.load(P, op[1], op[2])
            if res.startswith('ok'):
                # a second live process, recreated from the checkpoint, moves on: the stored snapshot must not follow it
                import plumpy
                try:
                    q = P.load_checkpoint(val(op[1]), val(op[2])).unbundle(plumpy.LoadSaveContext(loop=self.loop))
                    for _ in range(2):
                        self.loop.run_until_complete(q.step())
                except Exception as e:  # noqa
                    self.notes.append(f'recreated process of {op[1]} failed: {type(e).__name__}')
            return res
        if name == 'list':
            return self.listing(*self.call(P.get_checkpoints))
        if name == 'listp':
            return self.listing(*self.call(lambda: P.get_process_checkpoints(val(op[1]))))
        if name == 'del':
            st, _ = self.call(lambda: P.delete_checkpoint(val(op[1]), val(op[2])))
            return st
        if name == 'delp':
            st, _ = self.call(lambda: P.delete_process_checkpoints(val(op[1])))
            return st
        if name == 'progress':
            return 'ok'
        raise ValueError(op)

    # -- the reference (monitors) -------------------------------------------------------------------------------------
    def ref_dump(self):
        keys = sorted(self.store, key=lambda k: key_str(*k))
        lst = '[' + ','.join(key_str(*k) for k in keys) + ']'
        loads = [f'{key_str(*k)}={self.store[k]}' for k in self.universe if k in self.store]
        return f"L{lst}S[{','.join(loads)}]"

    def ref_step(self, op):
        """expected result of the operation and update of the reference dictionary"""
        name = op[0]
        if name == 'save':
            self.store[(op[1], op[2])] = self.n[op[1]]
            return 'ok'
        if name in ('load', 'recreate'):
            k = (op[1], op[2])
            return f'ok:{self.store[k]}' if k in self.store else 'missing'
        if name in ('list', 'listp', 'failsave'):
            keys = sorted((k for k in self.store if name in ('list', 'failsave') or k[0] == op[1]), key=lambda k: key_str(*k))
            return '[' + ','.join(key_str(*k) for k in keys) + ']'
        if name == 'del':
            self.store.pop((op[1], op[2]), None)
            return 'ok'
        if name == 'delp':
            for k in [k for k in self.store if k[0] == op[1]]:
                del self.store[k]
            return 'ok'
        return 'ok'

    @staticmethod
    def parse_dump(dump):
        """-> (listed keys, {key: value}) of a dump `L[..]S[..]`"""
        try:
            l, s = dump[1:].split('S[', 1)
            listed = [x for x in l.strip('[]').split(',') if x]
            loads = dict(x.split('=', 1) for x in s[:-1].split(',') if x)
            return listed, loads
        except ValueError:
            return [], {}

    def classify(self, op, res, exp_res, dump, exp_dump, was_present):
        name = op[0]
        listed, loads = self.parse_dump(dump)
        if name == 'save':
            if res != 'ok':
                return 'save-raised'
            k = key_str(op[1], op[2])
            return 'load-not-latest-snapshot' if loads.get(k) != str(self.n[op[1]]) else 'save-touches-other-key'
        if name == 'load':
            return 'load-not-latest-snapshot' if res != exp_res else 'load-not-pure'
        if name == 'recreate':
            return 'load-not-latest-snapshot' if res != exp_res else 'snapshot-not-immutable'
        if name in ('list', 'listp'):
            return 'list-not-exact' if res != exp_res else 'load-not-pure'
        if name == 'failsave':
            return 'failed-save-not-atomic'
        if name == 'del':
            if res != 'ok':
                return 'delete-raised'
            if not was_present:
                return 'delete-not-idempotent'
            k = key_str(op[1], op[2])
            return 'delete-ineffective' if (k in listed or k in loads) else 'delete-not-local'
        if name == 'delp':
            return 'delete-raised' if res != 'ok' else 'delete-process-not-exact'
        return 'snapshot-not-immutable'

    # -- one operation ------------------------------------------------------------------------------------------------
    def step(self, op):
        """returns (impl observation line, failure or None)"""
        name = op[0]
        if name == 'save':
            p = op[1]
            if (p, self.n[p]) not in self.refs:
                self.refs[(p, self.n[p])] = copy.deepcopy(dict(self.procs[p].save()))
        was_present = (op[1], op[2]) in self.store if name == 'del' else None
        if name == 'progress':
            p = op[1]
            before = copy.deepcopy(dict(self.procs[p].save()))
            self.loop.run_until_complete(self.procs[p].step())
            self.n[p] += 1
            if dict(self.procs[p].save()) == before:
                self.notes.append(f'progress of {p} did not change its persisted state')
        exp_res = self.ref_step(op)
        exp_dump = self.ref_dump()
        parts, failure = [], None
        for pname, P in self.pers:
            res = self.apply(P, op)
            dump = self.dump(P)
            parts.append(f'{pname}:{res};{dump}')
            if failure is None and (res != exp_res or dump != exp_dump):
                sig = self.classify(op, res, exp_res, dump, exp_dump, was_present)
                failure = dict(signature=f'{pname}:{sig}', clause=CLAUSES[sig],
                               detail=dict(op=' '.join(op), persister=pname, observed=f'{res};{dump}', expected=f'{exp_res};{exp_dump}'))
        if failure is None and parts[0][4:] != parts[1][4:]:
            failure = dict(signature='persisters-differ', clause=CLAUSES['persisters-differ'],
                           detail=dict(op=' '.join(op), mem=parts[0], pkl=parts[1]))
        return ' '.join(parts), failure, f'{exp_res};{exp_dump}'


def run_case(args):
    """-> dict(lines=[impl line per op], ref=[reference line per op], failure=first failure or None, stats, notes)"""
    case, root = args
    r = Runner(case, root)
    lines, refl, failure = [], [], None
    stats = dict(loads_ok=0, loads_after_progress=0, loads_missing=0, overwrites=0, deletes_absent=0, deletes_present=0)
    try:
        for i, op in enumerate(case['ops']):
            op = list(op)
            if op[0] == 'save' and (op[1], op[2]) in r.store:
                stats['overwrites'] += 1
            if op[0] == 'del':
                stats['deletes_present' if (op[1], op[2]) in r.store else 'deletes_absent'] += 1
            if op[0] == 'load':
                k = (op[1], op[2])
                if k in r.store:
                    stats['loads_ok'] += 1
                    stats['loads_after_progress'] += r.store[k] < r.n[op[1]]
                else:
                    stats['loads_missing'] += 1
            line, f, ref = r.step(op)
            lines.append(line)
            refl.append(ref)
            if f is not None and failure is None:
                f['detail']['index'] = i
                failure = f
        return dict(lines=lines, ref=refl, failure=failure, stats=stats, notes=r.notes[:3])
    finally:
        r.close()


# ---------------------------------------------------------------------------------------------------------------------
# generators

def alphabet(pids, tags, mutators_only=False):
    ts = ['-'] + list(tags)
    ops = [['save', p, t] for p in pids for t in ts] + [['del', p, t] for p in pids for t in ts]
    ops += [['delp', p] for p in pids] + [['progress', p] for p in pids]
    if not mutators_only:
        ops += [['load', p, t] for p in pids for t in ts] + [['listp', p] for p in pids] + [['list']]
        ops += [['recreate', p, '-'] for p in pids] + [['failsave', p, '-'] for p in pids]
    return ops


def exhaustive_cases(ctx):
    cases = []
    small = {'int': (['i:1', 'i:12'], ['i:1']), 'uuid': ([f'u:{uuid.UUID(int=1)}', f'u:{uuid.UUID(int=2 ** 100 + 7)}'], [f'u:{uuid.UUID(int=1)}']),
             'str': (['s:a', 's:ab'], ['s:pickle'])}
    full_len = 3 if ctx.thorough else 2
    mut_len = 4
    for kind, (pids, tags) in small.items():
        al = alphabet(pids, tags)
        for n in range(1, full_len + 1):
            for ops in itertools.product(al, repeat=n):
                cases.append(dict(label=kind, pids=pids, tags=tags, ops=[list(o) for o in ops]))
    pids, tags = small['str']
    al = alphabet(pids, tags, mutators_only=True)
    for n in range(full_len + 1, mut_len + 1):
        for ops in itertools.product(al, repeat=n):
            if n == mut_len and not ctx.thorough and ops[0][0] != 'save':
                continue        # quick tier: the longest ones only when they start by storing something
            cases.append(dict(label='str', pids=pids, tags=tags, ops=[list(o) for o in ops]))
    return cases, dict(full_alphabet_len=full_len, mutators_len=mut_len, longest_start_with_save=not ctx.thorough)


WEIGHTS = [('save', 30), ('load', 14), ('list', 4), ('listp', 5), ('del', 16), ('delp', 7), ('progress', 24), ('recreate', 10), ('failsave', 8)]


def random_ops(rng, pids, tags, n):
    ts = ['-'] + list(tags)
    names = [w[0] for w in WEIGHTS]
    weights = [w[1] for w in WEIGHTS]
    ops = []
    for _ in range(n):
        name = rng.choices(names, weights)[0]
        p = rng.choice(pids)
        if name in ('save', 'load', 'del', 'recreate', 'failsave'):
            ops.append([name, p, rng.choice(ts)])
        elif name == 'list':
            ops.append([name])
        else:
            ops.append([name, p])
    return ops


def random_cases(ctx, count, max_len):
    rng = ctx.rng
    cases = []
    for i in range(count):
        kind = ('int', 'uuid', 'str')[i % 3]
        ids = make_ids(rng, kind, 5)
        if rng.random() < 0.3:      # a tag equal to a pid is legal and makes file names look alike
            ids[3] = ids[0]
        n = rng.randint(1, max_len) if rng.random() < 0.5 else max_len
        cases.append(dict(label=kind, pids=ids[:3], tags=ids[3:], ops=random_ops(rng, ids[:3], ids[3:], n)))
    return cases


def malformed_cases(ctx, count):
    """outside the side condition: string ids containing the separator, or ids of two kinds with the same string form"""
    rng = ctx.rng
    cases = []
    for i in range(count):
        if i % 2 == 0:
            a = ''.join(rng.choice('abc') for _ in range(rng.randint(1, 2)))
            b = rng.choice([x for x in ('a', 'b', 'c', 'ab', 'ca') if x != a])
            pids = [f's:{a}', f's:{a}.{b}', f's:{b}']
            tags = [f's:{b}', f's:{b}.pickle' if rng.random() < 0.5 else 's:pickle']
            label = 'malformed-separator'
        else:
            n = rng.randint(0, 9)
            pids = [f'i:{n}', f's:{n}', f'i:{n + 1}']
            tags = [f'i:{n}', f's:{n}']
            label = 'malformed-kinds'
        cases.append(dict(label=label, pids=pids, tags=tags, ops=random_ops(rng, pids, tags, rng.randint(2, 30))))
    return cases


def neighbourhood(case):
    """all single-operation deletions, substitutions and insertions"""
    al = alphabet(case['pids'], case['tags'])
    ops = case['ops']
    out = []
    for i in range(len(ops)):
        out.append(dict(case, ops=ops[:i] + ops[i + 1:]))
        for o in al:
            out.append(dict(case, ops=ops[:i] + [o] + ops[i + 1:]))
    for i in range(len(ops) + 1):
        for o in al:
            out.append(dict(case, ops=ops[:i] + [o] + ops[i:]))
    return out


# ---------------------------------------------------------------------------------------------------------------------

def shrink(case, signature, root):
    """greedy removal of operations while the first failure keeps its signature"""
    def fails(c):
        f = run_case((c, root))['failure']
        return f if f is not None and f['signature'] == signature else None
    cur = case
    best = fails(cur)
    if best is None:
        return case, None
    changed = True
    while changed:
        changed = False
        i = len(cur['ops']) - 1
        while i >= 0:
            cand = dict(cur, ops=cur['ops'][:i] + cur['ops'][i + 1:])
            f = fails(cand)
            if f is not None:
                cur, best, changed = cand, f, True
            i -= 1
    return cur, best


def model_streams(ctx, cases):
    """model output per case (list of op lines), or None"""
    if not cases:
        return []
    nchunks = max(1, min(len(cases), ctx.workers * 4))
    chunks = [cases[i::nchunks] for i in range(nchunks)]
    outs = ctx.model.run_parallel('persister', [[l for c in ch for l in case_lines(c)] for ch in chunks])
    if outs is None:
        return None
    res = [None] * len(cases)
    for ci, (ch, out) in enumerate(zip(chunks, outs)):
        pos = 0
        for j, c in enumerate(ch):
            n = len(c['ops']) + 1
            res[ci + j * nchunks] = out[pos + 1:pos + n]
            pos += n
    return res


def run(ctx):
    root = common.scratch_dir(PROPERTY)
    try:
        return _run(ctx, root)
    finally:
        common.rm_scratch(root)


def _run(ctx, root):
    ex_cases, ex_info = exhaustive_cases(ctx)
    n_random = 2500 if not ctx.thorough else 4000
    max_len = 40 if not ctx.thorough else 400
    rnd = random_cases(ctx, n_random, max_len)
    if ctx.thorough:
        rnd += random_cases(ctx, 6000, 40)
    cases = ex_cases + rnd
    hints = getattr(ctx, 'hints', None) or []
    for h in hints[:5]:
        if isinstance(h.get('case'), dict) and 'ops' in h['case']:
            cases += neighbourhood(h['case'])
    bad = malformed_cases(ctx, 300 if not ctx.thorough else 1500)

    with mp.Pool(ctx.workers) as pool:
        impl = pool.map(run_case, [(c, root) for c in cases + bad], chunksize=32)
    impl_bad = impl[len(cases):]
    impl = impl[:len(cases)]
    model = model_streams(ctx, cases)
    model_bad = model_streams(ctx, bad)

    divergences, failures = [], []
    distinct = set()
    hist_ops, hist_kind, hist_len, hist_sig = {}, {}, {}, {}
    totals = {}
    notes = set()
    raw_failures = []
    for idx, (case, r) in enumerate(zip(cases, impl)):
        for op in case['ops']:
            hist_ops[op[0]] = hist_ops.get(op[0], 0) + 1
        hist_kind[case['label']] = hist_kind.get(case['label'], 0) + 1
        n = len(case['ops'])
        b = '1-4' if n <= 4 else '5-20' if n <= 20 else '21-40' if n <= 40 else '41-150' if n <= 150 else '151-400'
        hist_len[b] = hist_len.get(b, 0) + 1
        for k, v in r['stats'].items():
            totals[k] = totals.get(k, 0) + v
        notes.update(r['notes'])
        if r['failure'] is not None:
            raw_failures.append((case, r['failure']))
            hist_sig[r['failure']['signature']] = hist_sig.get(r['failure']['signature'], 0) + 1
        if r['stats']['loads_ok'] and (r['stats']['overwrites'] or r['stats']['loads_after_progress']):
            distinct.add(common.digest(r['lines']))
        if model is not None:
            ml = model[idx]
            for i, il in enumerate(r['lines']):
                m = ml[i] if i < len(ml) else '<no output>'
                mt = m.split(' ')
                if ' '.join(mt[:2]) != il:
                    divergences.append(dict(case=case, index=i, op=' '.join(case['ops'][i]), impl=il, model=' '.join(mt[:2]),
                                            kind='model-vs-implementation'))
                    break
                if len(mt) != 4 or mt[2] != 'spec:' + r['ref'][i] or mt[3] != 'wf=1':
                    divergences.append(dict(case=case, index=i, op=' '.join(case['ops'][i]), impl='spec:' + r['ref'][i] + ' wf=1',
                                            model=' '.join(mt[2:]), kind='lean-spec-vs-python-reference'))
                    break
    # one failure per signature, shrunk (the first three signatures), the rest as they are
    seen = {}
    for case, f in raw_failures:
        sig = f['signature']
        if sig in seen:
            continue
        if len(seen) < 3:
            small, f2 = shrink(case, sig, root)
            if f2 is not None:
                case, f = small, f2
        seen[sig] = True
        failures.append(dict(signature=sig, clause=f['clause'], case=case, detail=f['detail'], lines=case_lines(case)))
    # histories outside the side condition: histogram only
    mal = dict(histories=len(bad), implementations_differ=0, model_agrees_with_implementation=0, model_flags_side_condition=0)
    for j, (case, r) in enumerate(zip(bad, impl_bad)):
        if r['failure'] is not None:
            mal['implementations_differ'] += 1
        if model_bad is not None:
            ml = model_bad[j]
            if all(i < len(ml) and ' '.join(ml[i].split(' ')[:2]) == il for i, il in enumerate(r['lines'])):
                mal['model_agrees_with_implementation'] += 1
            if ml and ml[-1].endswith('wf=0'):
                mal['model_flags_side_condition'] += 1
    for nt in sorted(notes)[:5]:
        ctx.note(nt)
    mid = len(ex_cases) + len(rnd) // 2
    samples = [dict(lines=case_lines(cases[i])[:6], impl=impl[i]['lines'][:5]) for i in (len(ex_cases) // 2, mid, len(cases) - 1)]
    return dict(
        evaluations=len(cases), distinct_nontrivial=len(distinct),
        rule=f"all histories of length <= {ex_info['full_alphabet_len']} over the full operation alphabet (2 pids x (None + 1 tag)) for "
             f"each id kind, all histories of length <= {ex_info['mutators_len']} over the state-changing operations"
             + (' (those of the maximal length only if they start with a save)' if ex_info['longest_start_with_save'] else '')
             + ' (every operation line carries the full observable state), then random histories of length <= '
             f'{max_len} over 3 pids x (None + 2 tags) x 3 id kinds; non-trivial = at least one successful load after an '
             'overwrite or after progress of the saved process; distinct = distinct observation streams',
        samples=samples, traces_validated=len(cases) if model is not None else 0,
        divergences=divergences[:50], failures=failures, exhaustive=False,
        histograms=dict(operations=hist_ops, id_kind=hist_kind, history_length=hist_len, exhaustive_histories=len(ex_cases),
                        random_histories=len(rnd), neighbourhood_histories=len(cases) - len(ex_cases) - len(rnd),
                        events=totals, failure_signatures=hist_sig, outside_side_condition=mal,
                        divergences_total=len(divergences)),
    )


def replay(ctx, failure):
    case = failure['case']
    root = common.scratch_dir(PROPERTY)
    try:
        r = run_case((case, root))
    finally:
        common.rm_scratch(root)
    m = ctx.model.run('persister', case_lines(case))
    return dict(lines=case_lines(case), impl=r['lines'], reference=r['ref'], model=m[1:] if m else None,
                failure=r['failure'], failures=[r['failure']['signature']] if r['failure'] else [])
