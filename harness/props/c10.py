"""C10 — ToContext is a barrier: the next step sees every awaited result."""
from harness import pm_prop

PROPERTY = 'C10'
LEAN_PROPS = 'PlumpyModel.Props.C10'
ASSUMPTIONS = pm_prop.ASSUMPTIONS
TRUSTED = pm_prop.TRUSTED
ALPHABET = ['completeV', 'completeexc', 'completekilled', 'completecancelled', 'pause', 'play']
MONITORS = ['c10', 'c06', 'looperr']      # c06: a work chain whose awaited items have all completed does not stay WAITING


def run(ctx):
    return pm_prop.run_pm(ctx, ALPHABET, MONITORS, k_quick=3, k_thorough=4)


def replay(ctx, failure):
    return pm_prop.replay_pm(ctx, failure, MONITORS)
