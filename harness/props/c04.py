"""C04 — a kill request is never lost and no live process is unkillable."""
from harness import pm_prop

PROPERTY = 'C04'
LEAN_PROPS = 'PlumpyModel.Props.C04'
ASSUMPTIONS = pm_prop.ASSUMPTIONS + [
    'restored configurations: a Bundle taken at every entered-state event of each corpus program is loaded in a fresh loop and '
    'killed (kill() or cancelling its future) after 0..2 callbacks; the model has no checkpoints, this stream is decided by the '
    'monitor on the real code alone']
TRUSTED = pm_prop.TRUSTED
ALPHABET = ['pause', 'play', 'kill', 'resume', 'complete', 'cancelfut', 'fail', 'callsoon ok']
MONITORS = ['c04', 'c01']


def _restored_kill_case(prog):
    """every reachable live configuration includes one loaded from a checkpoint: kill() / future().cancel() must end it KILLED"""
    import asyncio
    import harness.detloop as detloop
    import plumpy
    from plumpy.base.state_machine import StateEventHook
    from harness import pm
    fails = []
    r = pm.Run(prog)
    r.p.remove_process_listener(r.lis)
    snaps = []

    def cb(sm, hook, state):
        if r.p.has_terminated():
            return
        try:
            snaps.append((r.p.state.value, plumpy.Bundle(r.p)))
        except Exception:  # noqa  (whether every configuration can be checkpointed is C07's business)
            pass
    r.p.add_state_event_callback(StateEventHook.ENTERED_STATE, cb)
    for _ in range(200):
        if not r.tick():
            break
    r.finalize()
    r.close()
    n = 0
    for label, bundle in snaps:
        for how in ('kill', 'cancel'):
            for delay in (0, 1, 2):
                loop = detloop.DetLoop()
                asyncio.set_event_loop(loop)
                try:
                    p2 = bundle.unbundle(plumpy.LoadSaveContext(loop=loop))
                except Exception:  # noqa  (C08's business)
                    loop.close()
                    continue
                p2._trace, p2._raised, p2._futs = [], [], []
                loop.create_task(p2.step_until_terminated())
                for _ in range(delay):
                    loop.step_one()
                if p2.has_terminated():
                    loop.close()
                    continue
                raised, ret = None, None
                q = loop.n_ready()
                try:
                    ret = p2.kill('restored') if how == 'kill' else p2.future().cancel()
                except BaseException as e:  # noqa
                    raised = e
                if how == 'cancel':
                    # the cancellation acts as a kill() made when the future's done-callbacks run, i.e. after the q callbacks
                    # that were ready before it: a process that terminates by itself within those is under no obligation
                    for _ in range(q):
                        loop.step_one()
                    if p2.has_terminated() and p2.state.value != 'killed':
                        loop.close()
                        continue
                n += 1
                loop.drain(500)
                st = p2.state.value
                if asyncio.isfuture(ret):
                    ret = ('pending' if not ret.done() else 'cancelled' if ret.cancelled() else
                           'exc' if ret.exception() is not None else ret.result())
                ok = raised is None and (st == 'killed' or st == 'excepted') and (how != 'kill' or (ret is True) == (st == 'killed'))
                if not ok:
                    fails.append(dict(signature=f'c04-restored-{how}-lost', clause='from every reachable live configuration (here: loaded from a '
                                      'checkpoint) kill(), or cancelling the process\'s future, terminates the process',
                                      detail=dict(checkpoint_state=label, how=how, callbacks_before=delay, final=st, returned=str(ret),
                                                  raised=repr(raised) if raised else None)))
                loop.close()
    return n, fails


def _restored_work(item):
    name, prog = item
    n, fails = _restored_kill_case(prog)
    for f in fails:
        f['case'] = dict(program=name, prog=prog, schedule={}, restore_stream=True)
    return n, fails


def run(ctx):
    import multiprocessing as mp
    from harness import pm
    out = pm_prop.run_pm(ctx, ALPHABET, MONITORS, listeners=True)
    progs = [(n, p) for n, p in pm.CORPUS.items() if n != 'RetAwaitable']
    for i in range(60 if not ctx.thorough else 1000):
        progs.append((f'rand{i}', pm.random_prog(ctx.rng)))
    with mp.Pool(ctx.workers) as pool:
        res = pool.map(_restored_work, progs, chunksize=4)
    for _n, fails in res:
        out['failures'].extend(fails)
    n = sum(n for n, _ in res)
    out['evaluations'] += n
    out['histograms']['restored_kill_stream'] = dict(programs=len(progs), kills_of_restored_processes=n)
    return out


def replay(ctx, failure):
    if failure['case'].get('restore_stream'):
        from harness import pm
        prog, _ = pm.fix_case(failure['case'])
        n, fails = _restored_kill_case(prog)
        return dict(kills_of_restored_processes=n, failures=fails)
    return pm_prop.replay_pm(ctx, failure, MONITORS)
