"""C04 — a kill request is never lost and no live process is unkillable."""
from harness import pm_prop

PROPERTY = 'C04'
LEAN_PROPS = 'PlumpyModel.Props.C04'
ASSUMPTIONS = pm_prop.ASSUMPTIONS
TRUSTED = pm_prop.TRUSTED
ALPHABET = ['pause', 'play', 'kill', 'resume', 'complete', 'cancelfut', 'fail']
MONITORS = ['c04', 'c01']


def run(ctx):
    return pm_prop.run_pm(ctx, ALPHABET, MONITORS, listeners=True)


def replay(ctx, failure):
    return pm_prop.replay_pm(ctx, failure, MONITORS)
