"""C04 — a kill request is never lost and no live process is unkillable."""
from harness import pm_prop

PROPERTY = 'C04'
LEAN_PROPS = 'PlumpyModel.Props.C04'
ASSUMPTIONS = pm_prop.ASSUMPTIONS + [
    'restored configurations (stream restored_kill_stream): (a) a Bundle taken inside the ENTERED callback of every state entry of the '
    'uninterrupted run of each corpus / random program, (b) a Bundle taken between two callbacks, 0..2 callbacks after a pause() placed '
    'at any position (processes checkpointed while paused or with the pause still pending inside a step); each is deep-copied at once '
    '(the bundle as stored: held in memory it shares the mutable context with the instance that keeps running), loaded in a fresh '
    'DetLoop, optionally played, and killed (kill() or cancelling its future) after 0..2 callbacks, then run dry',
    'a restored work chain finds fresh pending external futures (the awaited futures are the environment\'s; a bundle cannot carry them, '
    'and a WAITING work chain cannot be checkpointed at all: C07)',
    'the model side of a bundle is saveCfg of the configuration at the end of the loop iteration in which the state was entered '
    '(checkpointAt): in a history without requests nothing a bundle keeps changes between the ENTERED callback and that point; for '
    'bundles taken between callbacks it is saveCfg of the current configuration',
]
TRUSTED = pm_prop.TRUSTED + [
    'saveCfg / restoreCfg (lean/PlumpyModel/Persist/Plain.lean), restoreCfgN / checkpointAt (Persist/Reload.lean): hand-written image of '
    'Bundle / load_instance_state / init() in the process-control model, compared with the real restored process after the restore, '
    'after every op and at quiescence through `pmodel pmr` (lean/Driver/PMRestore.lean)',
]
ALPHABET = ['pause', 'play', 'kill', 'resume', 'complete', 'cancelfut', 'fail', 'callsoon ok']
MONITORS = ['c04', 'c01']


def _after_restore(prog, bundle, how, delay, before=()):
    """load `bundle` in a fresh event loop, run `delay` callbacks, perform the ops `before`, then kill() / cancel the future, and
    run the loop dry.  -> None (the bundle cannot be loaded: C08's business) or dict(ops, obs, idle, tested, ok, detail)"""
    import asyncio
    import copy
    import harness.detloop as detloop
    import plumpy
    from harness import pm
    loop = detloop.DetLoop()
    asyncio.set_event_loop(loop)
    try:
        p2 = copy.deepcopy(bundle).unbundle(plumpy.LoadSaveContext(loop=loop))
    except Exception:  # noqa
        loop.close()
        return None
    # the restored instance under the same observer as any other process of the process-control streams; the external futures of
    # a work chain are the environment's (a bundle cannot carry them): the instance finds fresh pending ones
    r2 = pm.Run(prog, process=p2, loop=loop)
    r2.observe('none')
    for _ in range(delay):
        r2.tick()
    for op in before:
        if not p2.has_terminated():
            r2.do(op)
    tested, raised, ret = False, None, None
    if not p2.has_terminated():
        tested = True
        if how == 'kill':
            r2.do('kill')
        else:
            r2.do('cancelfut')
            # the cancellation acts as a kill() made when the future's done-callbacks run, i.e. after the callbacks that were
            # ready before it: a process that terminates by itself within those is under no obligation
            for _ in range(60):
                if not r2.tick() or r2.ops[-1] == 'tick trykill':
                    break
            if p2.has_terminated() and p2.state.value != 'killed':
                tested = False
        call = r2.calls[-1]
        raised, ret = call['raised'], call['obj']
    m = 0
    while m < 500 and r2.tick():
        m += 1
    st = p2.state.value
    if asyncio.isfuture(ret):
        ret = ('pending' if not ret.done() else 'cancelled' if ret.cancelled() else 'exc' if ret.exception() is not None else ret.result())
    ok = raised is None and (st == 'killed' or st == 'excepted') and (how != 'kill' or (ret is True) == (st == 'killed'))
    res = dict(ops=list(r2.ops), obs=list(r2.obs), idle=m < 500, tested=tested, ok=ok,
               detail=dict(how=how, callbacks_before=delay, ops_before=list(before), final=st, returned=str(ret), raised=raised, ops=list(r2.ops)))
    r2.abandon() if not p2.has_terminated() else r2.close()
    return res


CLAUSE_RESTORED = ('from every reachable live configuration (here: loaded from a checkpoint) kill(), or cancelling the process\'s '
                   'future, terminates the process')


def _record(head, pre_ops, checkpoint_line, res, meta):
    """the lines for `pmodel pmr` and what the real restored process showed: after the restore, after every op, and — once the real
    loop has nothing left to run — that nothing is left scheduled in the model either"""
    tail_ops, tail_obs = (['quiescent'], ['ready=']) if res['idle'] else ([], [])
    return dict(lines=head + pre_ops + [checkpoint_line] + res['ops'] + tail_ops, skip=len(head) + len(pre_ops),
                obs=res['obs'] + tail_obs, meta=meta)


def _restored_kill_case(prog):
    """every reachable live configuration includes one loaded from a checkpoint: kill() / future().cancel() must end it KILLED.
    Returns (number of kills of restored processes, monitor failures, records); a record carries the lines for `pmodel pmr`
    (program, history up to the checkpoint, the checkpoint, the ops performed on the restored process) and the observations of the
    real restored process.
    (a) a Bundle at every entered-state event of the uninterrupted run (inside the stepping task's callback), killed after 0..2
        callbacks;
    (b) a Bundle taken BETWEEN two callbacks after a pause() at any earlier position (so: processes checkpointed while paused, or
        with the pause still pending inside a step), loaded, optionally played, killed after 0..1 callbacks."""
    import copy
    import plumpy
    from plumpy.base.state_machine import StateEventHook
    from harness import pm
    fails, records = [], []
    head = pm.prog_lines(prog)
    nfut = prog.get('nfut', 0)
    n = 0

    def account(res, label):
        nonlocal n
        if res['tested']:
            n += 1
            if not res['ok']:
                fails.append(dict(signature=f"c04-restored-{res['detail']['how']}-lost", clause=CLAUSE_RESTORED,
                                  detail=dict(checkpoint_state=label, **res['detail'])))

    # (a)
    r = pm.Run(prog)
    r.p.remove_process_listener(r.lis)
    snaps = []

    def cb(sm, hook, state):
        if r.p.has_terminated():
            return
        try:
            # the bundle AS STORED at that moment (held in memory it shares its mutable members, e.g. a work chain's context, with
            # the instance, which keeps running here); ops completed before the callback that is running; length of the ENTERED log
            snaps.append((r.p.state.value, copy.deepcopy(plumpy.Bundle(r.p)), len(r.ops), len(r.entered), r.in_stepper))
        except Exception:  # noqa  (whether every configuration can be checkpointed is C07's business)
            pass
    r.p.add_state_event_callback(StateEventHook.ENTERED_STATE, cb)
    for _ in range(200):
        if not r.tick():
            break
    r.finalize()
    r.close()
    for label, bundle, nops, k, in_stepper in snaps:
        for how in ('kill', 'cancel'):
            for delay in (0, 1, 2):
                res = _after_restore(prog, bundle, how, delay)
                if res is None:
                    continue
                account(res, label)
                if in_stepper:
                    records.append(_record(head, r.ops[:nops], f'checkpoint {k} {nfut}', res,
                                           dict(checkpoint_state=label, checkpoint_entry=k, how=how, callbacks_before=delay)))
    # (b)
    npos = pm.n_positions(prog)
    for j in range(npos):
        for gap in (0, 1, 2):
            r = pm.Run(prog)
            r.p.remove_process_listener(r.lis)
            for _ in range(j):
                r.tick()
            if r.p.has_terminated():
                r.close()
                break
            r.do('pause')
            for _ in range(gap):
                r.tick()
            bundle = None
            if not r.p.has_terminated():
                try:
                    bundle = copy.deepcopy(plumpy.Bundle(r.p))
                except Exception:  # noqa
                    pass
            label, pre_ops = r.p.state.value + ('+paused' if r.p.paused else ''), list(r.ops)
            r.abandon()
            if bundle is None:
                continue
            for how in ('kill', 'cancel'):
                for delay in (0, 1):
                    for before in ((), ('play',)):
                        res = _after_restore(prog, bundle, how, delay, before)
                        if res is None:
                            continue
                        account(res, label)
                        records.append(_record(head, pre_ops, f'checkpointnow {nfut}', res,
                                               dict(checkpoint_state=label, paused_at=j, callbacks_after_pause=gap, how=how,
                                                    callbacks_before=delay, ops_before=list(before))))
    return n, fails, records


def _restored_work(item):
    import sys
    # (pool worker of this stream only) a Bundle that holds live futures — a work chain waiting for them — cannot be copied (C07);
    # the half-made copies of the attempt are finalised by the garbage collector, and what they print then says nothing about the run
    sys.unraisablehook = lambda *a, **k: None
    name, prog = item
    n, fails, records = _restored_kill_case(prog)
    for f in fails:
        f['case'] = dict(program=name, prog=prog, schedule={}, restore_stream=True)
    for rec in records:
        rec['meta'].update(program=name, prog=prog)
    return n, fails, records


def _compare_restored(ctx, records, chunk=300):
    """the restored-process cases through `pmodel pmr` (lean/Driver/PMRestore.lean): the observation of the restored instance
    and the one after every op on it must be the model's"""
    import re
    chunks, spans, cur, curspan = [], [], [], []
    for rec in records:
        curspan.append((len(cur), rec))
        cur.extend(rec['lines'])
        if len(curspan) >= chunk:
            chunks.append(cur); spans.append(curspan); cur, curspan = [], []
    if curspan:
        chunks.append(cur); spans.append(curspan)
    outs = ctx.model.run_parallel('pmr', chunks)
    divergences, validated, ops = [], 0, 0
    if outs is None:
        return divergences, validated, ops
    for out, spanlist in zip(outs, spans):
        for start, rec in spanlist:
            mobs = out[start + rec['skip']:start + len(rec['lines'])]
            validated += 1
            ops += len(rec['obs'])
            pairs = list(zip(rec['obs'], mobs))
            if len(mobs) != len(rec['obs']):
                pairs.append(('(%d observations)' % len(rec['obs']), '(%d observations)' % len(mobs)))
            for j, (a, b) in enumerate(pairs):
                if 'stepping=?' in a:
                    b = re.sub(r'stepping=[01]', 'stepping=?', b)
                if 'closed=?' in a:
                    b = re.sub(r'closed=[01]', 'closed=?', b)
                if a != b:
                    meta = rec['meta']
                    divergences.append(dict(case=dict(program=meta['program'], prog=meta['prog'], schedule={}, restore_stream=True,
                                                      **{k: v for k, v in meta.items() if k not in ('program', 'prog')}),
                                            op_index=j, ops=rec['lines'][len(rec['lines']) - len(rec['obs']):][:j + 1],
                                            lines=rec['lines'], impl=a, model=b, stream='restored'))
                    break
    return divergences, validated, ops


def run(ctx):
    import multiprocessing as mp
    from harness import pm
    out = pm_prop.run_pm(ctx, ALPHABET, MONITORS, listeners=True)
    progs = [(n, p) for n, p in pm.CORPUS.items() if n != 'RetAwaitable']
    for i in range(60 if not ctx.thorough else 1000):
        progs.append((f'rand{i}', pm.random_prog(ctx.rng)))
    with mp.Pool(ctx.workers) as pool:
        res = pool.map(_restored_work, progs, chunksize=4)
    records = []
    for _n, fails, recs in res:
        out['failures'].extend(fails)
        records.extend(recs)
    n = sum(x[0] for x in res)
    divs, validated, ops = _compare_restored(ctx, records)
    out['divergences'].extend(divs)
    out['evaluations'] += n
    out['traces_validated'] += validated
    states = {}
    for rec in records:
        key = rec['meta']['checkpoint_state'] + (' (between callbacks)' if 'paused_at' in rec['meta'] else ' (entered-state event)')
        states[key] = states.get(key, 0) + 1
    out['histograms']['restored_kill_stream'] = dict(
        programs=len(progs), kills_of_restored_processes=n, cases_compared_with_model=validated, checkpoints_by_state=states,
        observations_compared=ops, divergences=len(divs),
        note='decided by the monitor and compared, after the restore and after every op on the restored process, with the '
             'process-control model started from restoreCfgN (saveCfg c) (`pmodel pmr`, lean/Driver/PMRestore.lean)')
    return out


def replay(ctx, failure):
    if failure['case'].get('restore_stream'):
        from harness import pm
        prog, _ = pm.fix_case(failure['case'])
        n, fails, records = _restored_kill_case(prog)
        for rec in records:
            rec['meta'].update(program=failure['case'].get('program'), prog=prog)
        divs, validated, _ops = _compare_restored(ctx, records)
        return dict(kills_of_restored_processes=n, failures=fails, cases_compared_with_model=validated,
                    divergences=[dict(ops=d['lines'], op_index=d['op_index'], impl=d['impl'], model=d['model']) for d in divs[:5]])
    return pm_prop.replay_pm(ctx, failure, MONITORS)
