"""C19 — any Savable round-trips its declared members through the named loader.

A *case* is a class family (a chain K0 <- K1 <- … of generated Savable classes plus a sequence of `auto_persist`
declarations made with the decorator or the classmethod), a loader configuration (global loader while saving, loader in
the save context, global loader while loading, loader in the load context), a tampering of the saved state, and an
object tree.  The real plumpy code runs in-process on it; the original is mutated after `save`; the canonical
observation is compared with the Lean model (`pmodel savable`), and the clauses of the property are evaluated by the
monitors below, which do not use the model.
"""
import copy
import itertools
import json
import multiprocessing as mp

from harness import common

PROPERTY = 'C19'
LEAN_PROPS = 'PlumpyModel.Props.C19'
ASSUMPTIONS = [
    'class families are single-inheritance chains of generated classes deriving from Savable; Savable.persist() is the default no-op',
    'objects are trees (no aliasing between members); method names (m0..) and member names are disjoint; a bound method '
    'member is a method of a generated class',
    'plain member values are ints, strings, None/bools, lists, dicts, tuples and frozensets (of hashables, incl. hashable '
    'objects with mutable content), nested; tuples / frozensets / boxes are rendered with their own tag; copy.deepcopy is the real one',
    'custom loaders raise ValueError for identifiers they cannot resolve (the ObjectLoader contract) and can name every class involved',
    'at most one injected fault (missing member / foreign method) or one tampering per case, so the error raised does not '
    'depend on the iteration order of the _auto_persist set',
    'copy-at-save is value semantics in the model: it is decided by this correspondence check (the original is mutated '
    'after save() and the saved state and the reloaded object are compared with the model and with the pre-mutation values)',
]
TRUSTED = ['Savable model lean/PlumpyModel/Savable/Model.lean (hand-written, compared with plumpy.persistence per case on the '
           'class family, the saved state, the loader asked and the reloaded object)',
           'DefaultObjectLoader.load_object is wrapped (not replaced) by a logging shim to observe which loader resolved a class']

MOD = 'harness.props.c19_classes'
LOADERS = ('D', 'X', 'Y')
TAMPERS = ('none', 'cls', 'nocls', 'ldr', 'noldr', 'nested')
BOOKKEEPING = ('_persist_configured', '_called')
EXC = {'ValueError': ValueError, 'RuntimeError': RuntimeError, 'KeyError': KeyError}


# ---------------------------------------------------------------------------------------------------------------------
# reference semantics of the declarations (independent of plumpy and of the Lean model)

def ref_family(n, decls):
    """who owns which set object: returns (own, sets) after the declarations; own[c] is an index into sets or None"""
    own = [None] * n
    sets = []

    def ref(c):
        while c >= 0:
            if own[c] is not None:
                return own[c]
            c -= 1
        return None
    for kind, c, names in decls:
        if kind == 'd':
            r = ref(c)
            sets.append(list(sets[r]) if r is not None else [])
            own[c] = len(sets) - 1
        r = ref(c)
        if r is None:
            sets.append([])
            own[c] = r = len(sets) - 1
        for m in names:
            if m not in sets[r]:
                sets[r].append(m)
    eff = []
    for c in range(n):
        r = ref(c)
        eff.append(None if r is None else sorted(sets[r]))
    return own, eff


# ---------------------------------------------------------------------------------------------------------------------
# case <-> line

def _dumps(v):
    return json.dumps(v, separators=(',', ':'), sort_keys=True)


def canon(x):
    """JSON-able canonical description of a plain value: tuples, frozensets and boxes (hashable objects with mutable
    content) carry their own tag, so that a tuple is not a list and the content *inside* immutable containers shows"""
    if isinstance(x, tuple):
        return {'!t': [canon(y) for y in x]}
    if isinstance(x, frozenset):
        return {'!fs': sorted((canon(y) for y in x), key=_dumps)}
    if type(x).__name__ == 'Box' and hasattr(x, 'items') and hasattr(x, 'key'):
        return {'!box': [x.key, canon(x.items)]}
    if isinstance(x, list):
        return [canon(y) for y in x]
    if isinstance(x, dict):
        return {k: canon(y) for k, y in x.items()}
    return x


def decode(d):
    """the live plain value that a canonical description denotes"""
    if isinstance(d, list):
        return [decode(y) for y in d]
    if isinstance(d, dict):
        if set(d) == {'!t'}:
            return tuple(decode(y) for y in d['!t'])
        if set(d) == {'!fs'}:
            return frozenset(decode(y) for y in d['!fs'])
        if set(d) == {'!box'}:
            from harness.props import c19_classes as cc
            return cc.Box(d['!box'][0], decode(d['!box'][1]))
        return {k: decode(y) for k, y in d.items()}
    return d


def jtok(v):
    """canonical token of a plain value, live or described (a description is its own canonical form)"""
    return _dumps(canon(v))


def val_tokens(v):
    k = v[0]
    if k == 'p':
        return ['p', jtok(v[1])]
    if k == 'm':
        return ['m', '1' if v[1] else '0', v[2]]
    if k == 'o':
        out = ['o', str(v[1]), str(len(v[2]))]
        for name, sub in v[2]:
            out.append(name)
            out.extend(val_tokens(sub))
        return out
    if k in ('fp', 'fc'):
        return [k]
    if k == 'fe':
        return ['fe', f'{v[1]}:{v[2]}']
    if k == 'fr':
        return ['fr'] + val_tokens(v[1])
    raise ValueError(v)


def case_line(case):
    toks = ['M', MOD, 'F', str(case['n']), str(case['nmeth']), 'D', str(len(case['decls']))]
    for kind, c, names in case['decls']:
        toks += [kind, str(c), str(len(names))] + list(names)
    toks += ['G', case['g'], 'S', case['s'], 'H', case['h'], 'L', case['l'], 'T', case['t'], 'O'] + val_tokens(case['obj'])
    return ' '.join(toks)


def norm_val(v):
    """JSON round trip turns tuples into lists: restore the tuple form used here"""
    k = v[0]
    if k == 'o':
        return ('o', v[1], [(n, norm_val(s)) for n, s in v[2]])
    if k == 'fr':
        return ('fr', norm_val(v[1]))
    return tuple(v)


def norm_case(case):
    case = dict(case)
    case['decls'] = [(k, c, list(ns)) for k, c, ns in case['decls']]
    case['obj'] = norm_val(case['obj'])
    return case


# ---------------------------------------------------------------------------------------------------------------------
# running the real code

def is_state(x):
    return isinstance(x, dict) and '!!meta' in x


def exc_token(e):
    return f'{type(e).__name__}:{e.args[0] if e.args else ""}'


def render_sval(v):
    if is_state(v):
        return render_state(v)
    if isinstance(v, BaseException):
        return '!' + exc_token(v)
    return jtok(v)


def render_state(st):
    meta = st.get('!!meta', {})
    types = meta.get('types', {})
    ents = {k: v for k, v in st.items() if k != '!!meta'}
    return '{c=%s;l=%s;t=%s;e=%s}' % (
        meta.get('class_name', '-'), meta.get('user', {}).get('object_loader', '-'),
        ','.join(f'{k}:{types[k]}' for k in sorted(types)),
        ','.join(f'{k}={render_sval(ents[k])}' for k in sorted(ents)))


def public_attrs(obj):
    return {k: v for k, v in vars(obj).items() if k not in BOOKKEEPING}


def render_val(v, holder):
    import inspect
    import plumpy
    if isinstance(v, plumpy.SavableFuture):
        if v.cancelled():
            return 'F.cancelled'
        if not v.done():
            return 'F.pending'
        if v.exception() is not None:
            return 'F.exc:' + exc_token(v.exception())
        return 'F.result(' + render_val(v.result(), v) + ')'
    if isinstance(v, plumpy.Savable):
        at = public_attrs(v)
        return type(v).__name__ + '{' + ','.join(f'{k}={render_val(at[k], v)}' for k in sorted(at)) + '}'
    if inspect.ismethod(v):
        return f"meth:{'1' if v.__self__ is holder else '0'}:{v.__name__}"
    if is_state(v):
        return 'raw' + render_state(v)
    return jtok(v)


def build(v, holder, env):
    import plumpy
    k = v[0]
    if k == 'p':
        return decode(v[1])
    if k == 'm':
        return getattr(holder if v[1] else env['other'], v[2])
    if k == 'o':
        cls = env['classes'][v[1]]
        obj = cls.__new__(cls)
        for name, sub in v[2]:
            setattr(obj, name, build(sub, obj, env))
        return obj
    fut = plumpy.SavableFuture(loop=env['loop'])
    if k == 'fc':
        fut.cancel()
    elif k == 'fe':
        fut.set_exception(EXC[v[1]](v[2]))
    elif k == 'fr':
        fut.set_result(build(v[1], fut, env))
    return fut


def mutate(x, seen=None):
    """mutate, in place, everything mutable that is reachable from the original (after save)"""
    import plumpy
    if isinstance(x, list):
        for y in x:
            mutate(y)
        x.append('MUT')
    elif isinstance(x, dict):
        for y in x.values():
            mutate(y)
        x['MUT'] = 1
    elif isinstance(x, (tuple, frozenset)):
        for y in x:                       # immutable itself, but what it holds may change in place
            mutate(y)
    elif type(x).__name__ == 'Box':
        mutate(x.items)
    elif isinstance(x, plumpy.SavableFuture):
        if x.done() and not x.cancelled() and x.exception() is None:
            mutate(x.result())
    elif isinstance(x, plumpy.Savable):
        for y in list(public_attrs(x).values()):
            mutate(y)
        x.MUT_attr = 'MUT'


UNKNOWN_FORMS = (MOD + ':Nope',                              # the module is there, the class is not
                 'no.such.module.anywhere:Thing',            # no such module
                 'harness.props.c19_brokenmod:Thing',        # the module exists but raises ImportError when imported
                 MOD + ':Savable.Nope')                      # nested name that does not resolve


def tamper(st, kind):
    import zlib
    unknown = UNKNOWN_FORMS[zlib.crc32(repr(sorted(k for k in st if isinstance(k, str))).encode() + kind.encode()) % len(UNKNOWN_FORMS)]
    meta = st.setdefault('!!meta', {})
    if kind == 'cls':
        meta['class_name'] = unknown
    elif kind == 'nocls':
        meta.pop('class_name', None)
    elif kind == 'ldr':
        meta.setdefault('user', {})['object_loader'] = unknown
    elif kind == 'noldr':
        meta.pop('user', None)
    elif kind == 'nested':
        keys = sorted(k for k, v in st.items() if k != '!!meta' and is_state(v))
        if keys:
            st[keys[0]]['!!meta']['class_name'] = unknown


_worker = {}


def worker_env():
    if not _worker:
        import asyncio
        import logging
        import warnings
        common.ensure_repo_on_path()
        import plumpy  # noqa: F401
        from harness.props import c19_classes as cc
        logging.disable(logging.CRITICAL)
        warnings.simplefilter('ignore')
        cc.spy_default_loader()
        loop = asyncio.new_event_loop()
        asyncio.set_event_loop(loop)
        _worker.update(cc=cc, loop=loop)
    return _worker


def snapshot_sets(classes):
    return [None if c._auto_persist is None else sorted(c._auto_persist) for c in classes]


def run_impl(case):
    """returns a dict of observations (all plain data)"""
    env = worker_env()
    cc = env['cc']
    import plumpy
    from plumpy import loaders
    obs = dict(fam_events=[], save=None, via='-', load=None, checks=[])
    classes = cc.install_family(case['n'], case['nmeth'])
    try:
        # declarations, one at a time, with the sets of all classes observed before and after
        for kind, c, names in case['decls']:
            before = snapshot_sets(classes)
            has_own = '_auto_persist' in vars(classes[c])
            inherited_none = classes[c]._auto_persist is None
            if kind == 'd':
                plumpy.auto_persist(*names)(classes[c])
            else:
                classes[c].auto_persist(*names)
            obs['fam_events'].append(dict(kind=kind, cls=c, names=list(names), has_own=has_own,
                                          inherited_none=inherited_none, before=before, after=snapshot_sets(classes)))
        sets = snapshot_sets(classes)
        obs['sets'] = sets
        obs['fam'] = ''.join('1' if '_auto_persist' in vars(c) else '0' for c in classes) + '|' + ';'.join(
            f'K{i}:' + ('-' if s is None else ','.join(s)) for i, s in enumerate(sets))
        benv = dict(classes=classes, loop=env['loop'])
        benv['other'] = classes[0].__new__(classes[0])
        orig = build(case['obj'], None, benv)
        # save under the global loader `g` with the context loader `s`
        loaders.set_object_loader(None if case['g'] == 'D' else cc.make_loader(case['g']))
        try:
            try:
                sctx = None if case['s'] == '-' else plumpy.LoadSaveContext(loader=cc.make_loader(case['s']))
                state = orig.save(sctx)
            except BaseException as e:  # noqa
                obs['save'] = 'err:' + type(e).__name__
                return obs
            # later mutation of the original must not show
            mutate(orig)
            obs['save'] = render_state(state)
            tamper(state, case['t'])
            loaders.set_object_loader(None if case['h'] == 'D' else cc.make_loader(case['h']))
            del cc.LOG[:]
            lctx = None if case['l'] == '-' else plumpy.LoadSaveContext(loader=cc.make_loader(case['l']))
            # one load in three names the loop in the load context and is made from a thread WITHOUT a current event loop: what the
            # context says is what counts
            import asyncio as _aio
            import zlib as _zlib
            no_loop = _zlib.crc32(repr(obs['save']).encode()) % 3 == 0
            if no_loop:
                lctx = plumpy.LoadSaveContext(loop=env['loop']) if lctx is None else lctx.copyextend(loop=env['loop'])
                _aio.set_event_loop(None)
            try:
                loaded = plumpy.Savable.load(state, lctx)
                obs['load'] = render_val(loaded, None)
                obs['loaded_type'] = type(loaded).__name__
                obs['checks'] = check_restored(case['obj'], loaded, None, sets, 'obj')
            except BaseException as e:  # noqa
                obs['load'] = 'err:' + type(e).__name__
            finally:
                if no_loop:
                    _aio.set_event_loop(env['loop'])
            # ONE caller-supplied context (without loader) used for two loads in a row: the second state carries no recorded
            # loader and must be resolved through the global default, whatever the first load resolved
            if lctx is None and not obs['load'].startswith('err:'):
                try:
                    shared = plumpy.LoadSaveContext()
                    plumpy.Savable.load(copy.deepcopy(state), shared)
                    second = build(('o', 0, [(m, ('p', 0)) for m in (sets[0] or [])]), None, benv).save()
                    again = plumpy.Savable.load(second, shared)
                    obs['reuse'] = 'ok' if type(again).__name__ == 'K0' else 'wrong:' + type(again).__name__
                except BaseException as e:  # noqa
                    obs['reuse'] = 'err:' + type(e).__name__
            top = state.get('!!meta', {}).get('class_name')
            for kind, ident in cc.LOG:
                if top is not None and ident == top:
                    obs['via'] = kind
                    break
        finally:
            loaders.set_object_loader(None)
        return obs
    finally:
        cc.clear_family()


def impl_line(obs):
    if obs['save'].startswith('err:'):
        return f"fam={obs['fam']} save={obs['save']} via=- load=-"
    return f"fam={obs['fam']} save={obs['save']} via={obs['via']} load={obs['load']}"


# ---------------------------------------------------------------------------------------------------------------------
# monitors: the clauses of the property, evaluated on the implementation (no Lean model involved)

def check_restored(v, got, holder, sets, path):
    """clause by clause: is `got` (live reloaded value) a restoration of the described value `v` (pre-mutation)?
    returns a list of (signature, detail)"""
    import inspect
    import plumpy
    k = v[0]
    bad = []
    if k == 'p':
        if isinstance(got, plumpy.Savable) or inspect.ismethod(got) or jtok_safe(got) != jtok(v[1]):
            bad.append(('plain-not-equal', f'{path}: expected {jtok(v[1])} got {jtok_safe(got)}'))
    elif k == 'm':
        if not inspect.ismethod(got) or got.__self__ is not holder or got.__name__ != v[2]:
            bad.append(('method-not-rebound', f'{path}: expected method {v[2]} bound to the new object, got {got!r}'))
    elif k == 'o':
        if type(got).__name__ != f'K{v[1]}' or not isinstance(got, plumpy.Savable):
            bad.append(('nested-wrong-class', f'{path}: expected an instance of K{v[1]}, got {type(got).__name__}'))
        else:
            declared = sets[v[1]] or []
            at = dict(v[2])
            gat = vars(got)
            for m in declared:
                if m not in at:
                    continue  # not a well-formed input; nothing is demanded
                if m not in gat:
                    bad.append(('member-missing', f'{path}.{m} is not set on the reloaded object'))
                else:
                    bad.extend(check_restored(at[m], gat[m], got, sets, f'{path}.{m}'))
    else:
        if not isinstance(got, plumpy.SavableFuture):
            bad.append(('future-state', f'{path}: expected a SavableFuture, got {type(got).__name__}'))
        elif k == 'fp':
            if got.done():
                bad.append(('future-state', f'{path}: expected pending, got {got!r}'))
        elif k == 'fc':
            if not got.cancelled():
                bad.append(('future-state', f'{path}: expected cancelled, got {got!r}'))
        elif k == 'fe':
            if not got.done() or got.cancelled() or got.exception() is None or exc_token(got.exception()) != f'{v[1]}:{v[2]}':
                bad.append(('future-state', f'{path}: expected failed with {v[1]}:{v[2]}, got {got!r}'))
        elif k == 'fr':
            if not got.done() or got.cancelled() or got.exception() is not None:
                bad.append(('future-state', f'{path}: expected a result, got {got!r}'))
            else:
                bad.extend(check_restored(v[1], got.result(), got, sets, f'{path}.result()'))
    return bad


def jtok_safe(x):
    try:
        return jtok(x)
    except (TypeError, ValueError):
        return repr(type(x))


def well_formed(v, eff, nmeth, holder_is_class):
    k = v[0]
    if k == 'p':
        return True
    if k == 'm':
        return bool(v[1]) and holder_is_class and v[2] in [f'm{i}' for i in range(nmeth)]
    if k == 'o':
        at = dict(v[2])
        for m in (eff[v[1]] or []):
            if m not in at or not well_formed(at[m], eff, nmeth, True):
                return False
        return True
    if k == 'fr':
        return well_formed(v[1], eff, nmeth, False)
    return True


def state_view(v, eff):
    """the plain values the saved state must hold (pre-mutation), as the canonical rendering of the *entries* only"""
    k = v[0]
    if k == 'p':
        return jtok(v[1])
    if k == 'm':
        return jtok(v[2])
    if k == 'o':
        at = dict(v[2])
        return '{' + ','.join(f'{m}={state_view(at[m], eff)}' for m in sorted(eff[v[1]] or []) if m in at) + '}'
    if k == 'fp':
        return '{_result=null,_state="PENDING"}'
    if k == 'fc':
        return '{_result=null,_state="CANCELLED"}'
    if k == 'fe':
        return '{_result=null,_state="FINISHED",exception=!%s:%s}' % (v[1], v[2])
    return '{_result=%s,_state="FINISHED"}' % state_view(v[1], eff)


def entries_only(rendered):
    """strip the meta parts `c=…;l=…;t=…;e=` from a rendered state, keeping the nested entry structure"""
    import re
    return re.sub(r'\{c=[^;{}]*;l=[^;{}]*;t=[^;{}]*;e=', '{', rendered)


def expectation(case, eff):
    """what the property demands of this case, from the case alone:
    ('ok', via) | ('valueerror', why) | None (nothing demanded: ill-formed input)"""
    if not well_formed(case['obj'], eff, case['nmeth'], False):
        return None
    g, s, h, l, t = case['g'], case['s'], case['h'], case['l'], case['t']
    naming = s if s != '-' else g            # the loader that names every class in the saved state
    recorded = s != '-'
    if t == 'noldr':
        recorded = False
    if t == 'ldr':
        recorded = True
    if l != '-':
        eff_loader = l
    elif recorded:
        if t == 'ldr':
            return ('valueerror', 'unknown recorded loader', '-')
        if g != h:
            return ('valueerror', 'recorded loader named in the scheme of another global loader', '-')
        eff_loader = s
    else:
        eff_loader = h
    if t == 'nocls':
        return ('valueerror', 'no class name', '-')
    if t == 'cls':
        return ('valueerror', 'unknown class', eff_loader)
    if eff_loader != naming:
        return ('valueerror', 'class named in the scheme of another loader', eff_loader)
    if t == 'nested':
        savable = ('o', 'fp', 'fc', 'fe', 'fr')
        o = case['obj']
        if o[0] == 'o':
            at = dict(o[2])
            if any(m in at and at[m][0] in savable for m in (eff[o[1]] or [])):
                return ('valueerror', 'unknown nested class', eff_loader)
        elif o[0] == 'fr' and o[1][0] in savable:
            return ('valueerror', 'unknown nested class', eff_loader)
    return ('ok', eff_loader)


def monitors(case, obs):
    fails = []

    def fail(sig, clause, detail):
        fails.append(dict(signature=sig, clause=clause, case=case, detail=detail))

    # clause: declarations on a child never change the parent (under the condition the code guarantees)
    for ev in obs['fam_events']:
        guaranteed = ev['kind'] == 'd' or ev['has_own'] or ev['inherited_none']
        if guaranteed:
            for p in range(ev['cls']):
                if ev['before'][p] != ev['after'][p]:
                    fail('autopersist-parent-changed', 'a child\'s declarations do not change the parent\'s set',
                         dict(event=ev, parent=p))
                    break
    own, eff = ref_family(case['n'], case['decls'])
    if obs.get('sets') is not None and obs['sets'] != eff:
        fail('autopersist-set-mismatch', 'declared member sets (copy on inherit)', dict(impl=obs['sets'], reference=eff))
    exp = expectation(case, eff)
    if exp is None or obs['save'] is None:
        return fails
    if obs['save'].startswith('err:'):
        fail('save-raised', 'a well-formed Savable can be saved', obs['save'])
        return fails
    # clause: copied at save time — the saved state (rendered after the original was mutated) holds the old values
    want = state_view(case['obj'], eff)
    got = entries_only(obs['save'])
    if want != got:
        fail('saved-state-differs', 'the saved state holds the declared members, copied at save time',
             dict(expected=want, saved=got))
    if exp[0] == 'ok':
        if obs['load'].startswith('err:'):
            fail('load-raised', 'the saved state can be loaded through the named loader', obs['load'])
        else:
            for sig, detail in obs['checks']:
                fail(sig, 'every declared member is restored', detail)
                break
            if obs['via'] != exp[1]:
                fail('wrong-loader-used', 'class resolved through context loader > recorded loader > global default',
                     dict(expected=exp[1], asked=obs['via']))
            if obs.get('reuse') not in (None, 'ok'):
                fail('context-reuse-wrong-loader', 'each saved state is resolved through the loader recorded in IT (else the global '
                     'default), also when one load context is used for several loads', dict(second_load=obs['reuse']))
    else:
        if not obs['load'].startswith('err:'):
            fail('unknown-class-returned-object', 'an unknown class is a ValueError rather than a wrong object',
                 dict(why=exp[1], loaded=obs['load']))
        elif obs['load'] != 'err:ValueError':
            fail('unknown-class-not-valueerror', 'an unknown class is a ValueError', dict(why=exp[1], raised=obs['load']))
        elif obs['via'] != exp[2]:
            fail('wrong-loader-used', 'class resolved through context loader > recorded loader > global default',
                 dict(expected=exp[2], asked=obs['via']))
    return fails


# ---------------------------------------------------------------------------------------------------------------------
# generators

NAMES = ['a', 'b', 'c', 'd', 'e', 'f', 'g', 'h']


def rand_plain(rng, depth=2):
    r = rng.random()
    if r < 0.3:
        return rng.randint(-5, 50)
    if r < 0.5:
        return rng.choice(['s', 'txt', 'm0', 'PENDING', ''])
    if r < 0.6:
        return rng.choice([None, True, False])
    if r < 0.8 or depth == 0:
        return [rand_plain(rng, 0) for _ in range(rng.randint(0, 3))] if depth == 0 else \
            [rand_plain(rng, depth - 1) for _ in range(rng.randint(0, 3))]
    if r < 0.88:
        return {rng.choice(['k', 'x', 'y']): rand_plain(rng, depth - 1) for _ in range(rng.randint(0, 2))}
    if r < 0.96:
        # a tuple: immutable itself, usually holding something mutable
        return {'!t': [rand_plain(rng, depth - 1) for _ in range(rng.randint(0, 3))]}
    return rand_frozenset(rng)


def rand_hashable(rng, depth=1):
    r = rng.random()
    if r < 0.4:
        return rng.randint(0, 9)
    if r < 0.6:
        return rng.choice(['s', 'u', ''])
    if r < 0.8 or depth == 0:
        # tuples of scalars only: boxes are equal by key, two tuples holding boxes could collapse into one element
        return {'!t': [rng.randint(0, 9) for _ in range(rng.randint(0, 2))]}
    return {'!box': [rng.randint(0, 3), [rng.randint(0, 5) for _ in range(rng.randint(0, 2))]]}


def rand_frozenset(rng):
    """a frozenset of hashables, some of them boxes (hashable, with content that changes in place)"""
    elems = {}
    for _ in range(rng.randint(0, 3)):
        e = rand_hashable(rng)
        if isinstance(e, dict) and '!box' in e:
            elems[('box', e['!box'][0])] = e      # boxes are equal by key: at most one per key
        else:
            elems[_dumps(e)] = e
    return {'!fs': sorted(elems.values(), key=_dumps)}


def rand_future(rng, n, eff, nmeth, depth):
    r = rng.random()
    if r < 0.2:
        return ('fp',)
    if r < 0.4:
        return ('fc',)
    if r < 0.6:
        return ('fe', rng.choice(sorted(EXC)), rng.choice(['boom', 'e1', 'x']))
    r = rng.random()
    if r < 0.45 or depth <= 0:
        return ('fr', ('p', rand_plain(rng)))
    if r < 0.85:
        return ('fr', rand_obj(rng, rng.randrange(n), n, eff, nmeth, depth - 1))
    return ('fr', rand_future(rng, n, eff, nmeth, depth - 1))


def rand_member(rng, n, eff, nmeth, depth):
    r = rng.random()
    if r < 0.4:
        return ('p', rand_plain(rng))
    if r < 0.55 and nmeth:
        return ('m', True, f'm{rng.randrange(nmeth)}')
    if r < 0.8 and depth > 0:
        return rand_obj(rng, rng.randrange(n), n, eff, nmeth, depth - 1)
    if r < 0.97:
        return rand_future(rng, n, eff, nmeth, depth)
    return ('p', rand_plain(rng))


def rand_obj(rng, c, n, eff, nmeth, depth):
    attrs = [(m, rand_member(rng, n, eff, nmeth, depth)) for m in (eff[c] or [])]
    if rng.random() < 0.2:
        attrs.append(('zz', ('p', rand_plain(rng))))      # an undeclared attribute
    rng.shuffle(attrs)
    return ('o', c, attrs)


def rand_family(rng):
    n = rng.randint(1, 4)
    decls = []
    pool = NAMES[:rng.randint(2, 8)]
    for c in range(n):
        for _ in range(rng.choice([0, 1, 1, 1, 2])):
            k = rng.choice(['d', 'd', 'd', 'c'])
            decls.append((k, c, rng.sample(pool, rng.randint(0, min(3, len(pool))))))
    r = rng.random()
    if r < 0.15:
        rng.shuffle(decls)                                  # declarations in any order after class creation
    elif r < 0.3 and decls:
        decls.append(('c', rng.randrange(n), rng.sample(pool, rng.randint(1, 2))))   # a late classmethod declaration
    return n, decls


def inject_fault(rng, obj, eff, nmeth):
    """one fault somewhere in the declared part of the tree: a missing member or a method of another object"""
    paths = []

    def walk(v, path):
        if v[0] == 'o':
            declared = eff[v[1]] or []
            for i, (name, sub) in enumerate(v[2]):
                if name in declared:
                    paths.append(path + [i])
                    walk(sub, path + [i])
        elif v[0] == 'fr':
            walk(v[1], path + ['r'])
    walk(obj, [])
    if not paths:
        return obj
    target = rng.choice(paths)

    def rebuild(v, path):
        if not path:
            return None
        if v[0] == 'fr':
            return ('fr', rebuild(v[1], path[1:]) or v[1])
        i = path[0]
        attrs = list(v[2])
        if len(path) == 1:
            name, sub = attrs[i]
            if sub[0] == 'm' and rng.random() < 0.7:
                attrs[i] = (name, ('m', False, sub[2]))
            elif nmeth and rng.random() < 0.5:
                attrs[i] = (name, ('m', False, 'm0'))
            else:
                del attrs[i]
        else:
            name, sub = attrs[i]
            attrs[i] = (name, rebuild(sub, path[1:]) or sub)
        return ('o', v[1], attrs)
    return rebuild(obj, target) or obj


def loader_configs():
    return [dict(g=g, s=s, h=h, l=l) for g in 'DX' for s in '-DXY' for h in 'DX' for l in '-DXY']


def rand_config(rng):
    r = rng.random()
    if r < 0.35:
        return dict(g='D', s='-', h='D', l='-')
    if r < 0.5:
        return dict(g='X', s='-', h='X', l='-')
    if r < 0.75:
        s = rng.choice('XYD')
        g = rng.choice('DDX')
        return dict(g=g, s=s, h=g, l=rng.choice(['-', '-', s]))
    return dict(g=rng.choice('DX'), s=rng.choice('-DXY'), h=rng.choice('DX'), l=rng.choice('-DXY'))


CORPUS = [
    # F19a: a cancelled future (alone, and as a member) can be saved and comes back cancelled
    dict(n=1, nmeth=0, decls=[('d', 0, ['a'])], g='D', s='-', h='D', l='-', t='none', obj=('fc',)),
    dict(n=1, nmeth=0, decls=[('d', 0, ['a'])], g='D', s='-', h='D', l='-', t='none', obj=('o', 0, [('a', ('fc',))])),
    # F19b: a future resolved with a Savable comes back holding that object, not its saved-state dict
    dict(n=1, nmeth=0, decls=[('d', 0, ['a'])], g='D', s='-', h='D', l='-', t='none',
         obj=('fr', ('o', 0, [('a', ('p', 5))]))),
    # F19c: nested Savables are saved with the parent's save context (per-save custom loader, own identifier scheme)
    dict(n=2, nmeth=0, decls=[('d', 0, ['a']), ('d', 1, ['n'])], g='D', s='X', h='D', l='-', t='none',
         obj=('o', 1, [('a', ('p', 1)), ('n', ('o', 0, [('a', ('p', [1, 2]))]))])),
    dict(n=1, nmeth=0, decls=[('d', 0, ['a'])], g='D', s='X', h='D', l='-', t='none', obj=('o', 0, [('a', ('fp',))])),
    # F15: the loader recorded by a per-save custom loader is found and used by load()
    dict(n=1, nmeth=1, decls=[('d', 0, ['a', 'b'])], g='D', s='X', h='D', l='-', t='none',
         obj=('o', 0, [('a', ('p', {'k': [1]})), ('b', ('m', True, 'm0'))])),
    # copied at save time, also *inside* immutable containers: a tuple (frozenset) member holding mutable elements
    dict(n=1, nmeth=0, decls=[('d', 0, ['args', 'items'])], g='D', s='-', h='D', l='-', t='none',
         obj=('o', 0, [('args', ('p', {'!t': [['a', 'b'], {'n': 1}]})), ('items', ('p', ['x']))])),
    dict(n=2, nmeth=0, decls=[('d', 0, ['a']), ('d', 1, ['n'])], g='D', s='-', h='D', l='-', t='none',
         obj=('o', 1, [('a', ('p', {'!fs': [1, {'!box': [0, [1, 2]]}]})),
                       ('n', ('o', 0, [('a', ('p', {'!t': [{'!t': [[0]]}, 's']}))]))])),
    # copy on inherit / sharing
    dict(n=2, nmeth=0, decls=[('d', 0, ['a']), ('d', 1, ['b'])], g='D', s='-', h='D', l='-', t='none',
         obj=('o', 0, [('a', ('p', [0]))])),
    dict(n=2, nmeth=0, decls=[('d', 0, ['a']), ('c', 1, ['b'])], g='D', s='-', h='D', l='-', t='none',
         obj=('o', 0, [('a', ('p', [0])), ('b', ('p', 1))])),
]


def std_objects(eff, n, nmeth):
    """one object per member kind / future state for the systematic part (top class = the last one)"""
    c = n - 1
    kinds = [('p', [1, {'k': 's'}]), ('p', {'!t': [[1], {'k': [2]}, {'!fs': [{'!box': [0, [3]]}]}]}), ('fp',), ('fc',), ('fe', 'ValueError', 'boom'), ('fr', ('p', [3])),
             ('fr', ('o', 0, [(m, ('p', 7)) for m in (eff[0] or [])])),
             ('o', 0, [(m, ('p', [2])) for m in (eff[0] or [])])]
    if nmeth:
        kinds.append(('m', True, 'm0'))
    out = []
    for k in kinds:
        out.append(('o', c, [(m, k) for m in (eff[c] or [])]))
    out.append(('fr', ('o', c, [(m, ('p', 1)) for m in (eff[c] or [])])))
    return out


def gen_cases(ctx):
    rng = ctx.rng
    cases = [dict(c) for c in CORPUS]
    n_sys = 0
    # systematic 1: every loader configuration x every tampering x one object per member kind
    fam = dict(n=2, nmeth=1, decls=[('d', 0, ['a']), ('d', 1, ['b'])])
    _own, eff = ref_family(fam['n'], fam['decls'])
    objs = std_objects(eff, 2, 1)
    for cfg in loader_configs():
        for t in TAMPERS:
            for o in (objs if t in ('none', 'nested') else objs[:3]):
                cases.append(dict(fam, **cfg, t=t, obj=o))
                n_sys += 1
    # systematic 2: every sequence of <= 3 declarations over a chain of <= 3 classes (kind x class x member)
    choices = [(k, c, ms) for k in 'dc' for c in range(3) for ms in (['a'], ['b', 'c'])]
    for ln in range(0, 4 if ctx.thorough else 3):
        for seq in itertools.product(choices, repeat=ln):
            n = 3
            decls = [(k, c, list(ms)) for k, c, ms in seq]
            _own, eff = ref_family(n, decls)
            top = rng.randrange(n)
            cases.append(dict(n=n, nmeth=1, decls=decls, g='D', s='-', h='D', l='-', t='none',
                              obj=rand_obj(rng, top, n, eff, 1, 1)))
            n_sys += 1
    # random
    n_random = 80000 if not ctx.thorough else 400000
    depth = 3 if not ctx.thorough else 5
    for _ in range(n_random):
        n, decls = rand_family(rng)
        nmeth = rng.randint(0, 2)
        _own, eff = ref_family(n, decls)
        d = rng.randint(0, depth)
        if rng.random() < 0.1:
            obj = rand_future(rng, n, eff, nmeth, d)
        else:
            obj = rand_obj(rng, rng.randrange(n), n, eff, nmeth, d)
        t = 'none' if rng.random() < 0.8 else rng.choice(TAMPERS)
        if rng.random() < 0.08:
            obj = inject_fault(rng, obj, eff, nmeth)
        cases.append(dict(n=n, nmeth=nmeth, decls=decls, t=t, obj=obj, **rand_config(rng)))
    # search mode: the neighbourhood of the diverging cases
    for hint in getattr(ctx, 'hints', []) or []:
        base = hint.get('case')
        if not base:
            continue
        base = norm_case(base)
        cases.append(base)
        for cfg in loader_configs()[::3]:
            cases.append(dict(base, **cfg))
        for t in TAMPERS:
            cases.append(dict(base, t=t))
    return cases, n_sys


def depth_of(v):
    if v[0] == 'o':
        return 1 + max([depth_of(s) for _n, s in v[2]] or [0])
    if v[0] == 'fr':
        return 1 + depth_of(v[1])
    return 1 if v[0] in ('fp', 'fc', 'fe') else 0


def kinds_of(v, acc):
    acc[v[0]] = acc.get(v[0], 0) + 1
    if v[0] == 'o':
        for _n, s in v[2]:
            kinds_of(s, acc)
    elif v[0] == 'fr':
        kinds_of(v[1], acc)


def hook_stream(_=None):
    """impl-only: members a class declares in its persist() hook (instead of the decorator) are restored like any other,
    whichever instance of whichever class of the family was saved or loaded first in this interpreter.  Runs in a fresh worker
    process per order, because the declarations are class-level state."""
    common.ensure_repo_on_path()
    import plumpy
    from harness.props import c19_classes as cc
    order = _ or ('HookParent', 'HookChild', 'HookGrandChild')
    fails = []
    want = {'HookParent': dict(x=1), 'HookChild': dict(x=1, y=[2]), 'HookGrandChild': dict(x=1, y=[2], z=3)}
    for name in order:
        obj = getattr(cc, name)()
        try:
            state = obj.save()
            back = plumpy.Savable.load(state, None)
            got = {k: getattr(back, k, '<missing>') for k in want[name]}
        except BaseException as e:  # noqa
            got = 'raised ' + type(e).__name__
        if got != want[name] or type(back).__name__ != name:
            fails.append(dict(signature='hook-declared-member-not-restored', clause='saving and recreating restores every member declared '
                              'with auto_persist (here: declared in the persist() hook of a subclass)',
                              detail=dict(cls=name, order=list(order), restored=repr(got), expected=repr(want[name])),
                              case=dict(hook_stream=True, order=list(order))))
    return fails


def odd_members_stream(_=None):
    """impl-only: declared members that are not plain instance attributes - a property with a setter, a class with its own
    __setattr__ - are restored like any other (through the attribute protocol of the class)"""
    common.ensure_repo_on_path()
    import plumpy
    from harness.props import c19_classes as cc
    fails = []

    def bad(cls, what, detail):
        fails.append(dict(signature='odd-member-not-restored', clause='saving and recreating restores every member declared with auto_persist',
                          detail=dict(cls=cls, what=what, detail=detail), case=dict(odd_members=True)))
    try:
        g = cc.Gauge()
        g.level = 8
        back = plumpy.Savable.load(g.save(), None)
        if getattr(back, 'level', '<missing>') != 8 or getattr(back, 'n', '<missing>') != 1:
            bad('Gauge', 'property-backed member', repr((getattr(back, 'level', '<missing>'), getattr(back, 'n', '<missing>'))))
    except BaseException as e:  # noqa
        bad('Gauge', 'round trip raised', type(e).__name__ + ': ' + str(e)[:120])
    try:
        a = cc.Audited()
        a.inner.level = 4
        back = plumpy.Savable.load(a.save(), None)
        inner = getattr(back, 'inner', None)
        if getattr(back, 'x', None) != [5] or getattr(inner, 'level', '<missing>') != 4 or back.__dict__.get('assignments', 0) < 2:
            bad('Audited', 'members assigned through the class\'s __setattr__, nested Savable with a property',
                repr((getattr(back, 'x', None), getattr(inner, 'level', '<missing>'), back.__dict__.get('assignments'))))
    except BaseException as e:  # noqa
        bad('Audited', 'round trip raised', type(e).__name__ + ': ' + str(e)[:120])
    return fails


HOOK_WANT = {'HookParent': dict(x=1), 'HookChild': dict(x=1, y=[2]), 'HookGrandChild': dict(x=1, y=[2], z=3)}


def hook_save(name):
    """save one object of the hook family (in a worker process of its own) and hand the saved state back"""
    common.ensure_repo_on_path()
    from harness.props import c19_classes as cc
    try:
        return name, getattr(cc, name)().save()
    except BaseException as e:  # noqa
        return name, 'save raised ' + type(e).__name__


def hook_load(arg):
    """impl-only: recreate, in an interpreter in which NO object of the family was ever saved (what loading a checkpoint after a
    restart is), a state saved elsewhere: the members declared in the persist() hook are restored all the same"""
    common.ensure_repo_on_path()
    import plumpy
    name, state = arg
    try:
        if isinstance(state, str):
            raise RuntimeError(state)
        back = plumpy.Savable.load(state, None)
        got = {k: getattr(back, k, '<missing>') for k in HOOK_WANT[name]}
    except BaseException as e:  # noqa
        got = state if isinstance(state, str) else 'raised ' + type(e).__name__
    if got != HOOK_WANT[name]:
        return [dict(signature='hook-declared-member-not-restored', clause='saving and recreating restores every member declared with '
                     'auto_persist (here: declared in the persist() hook, state loaded in an interpreter that never saved the class)',
                     detail=dict(cls=name, restored=repr(got), expected=repr(HOOK_WANT[name])),
                     case=dict(hook_stream=True, fresh_interpreter=True, cls=name))]
    return []


def run(ctx):
    cases, n_sys = gen_cases(ctx)
    with mp.Pool(ctx.workers) as pool:
        impl = pool.map(run_impl, cases, chunksize=100)
    lines = [case_line(c) for c in cases]
    model = None
    if ctx.model.available:
        k = max(1, len(lines) // common.WORKERS + 1)
        chunks = [lines[i:i + k] for i in range(0, len(lines), k)]
        model = [x for ch in ctx.model.run_parallel('savable', chunks) for x in ch]
    divergences, failures = [], []
    orders = list(itertools.permutations(('HookParent', 'HookChild', 'HookGrandChild')))
    with mp.Pool(len(orders), maxtasksperchild=1) as pool:          # one fresh interpreter state per order
        for fs in pool.map(hook_stream, orders, chunksize=1):
            failures.extend(fs)
    with mp.Pool(1, maxtasksperchild=1) as pool:
        failures.extend(pool.apply(odd_members_stream))
    with mp.Pool(3, maxtasksperchild=1) as pool:                    # saved in one interpreter, loaded in another
        saved = pool.map(hook_save, ('HookParent', 'HookChild', 'HookGrandChild'), chunksize=1)
        for fs in pool.map(hook_load, saved, chunksize=1):
            failures.extend(fs)
    distinct = set()
    hist = dict(member_kinds={}, depth={}, loader_config={}, tamper={}, outcome={}, decl_kinds={'d': 0, 'c': 0}, classes={})
    for idx, (case, obs) in enumerate(zip(cases, impl)):
        il = impl_line(obs)
        failures.extend(monitors(case, obs))
        if model is not None and model[idx] != il:
            divergences.append(dict(case=case, line=lines[idx], impl=il, model=model[idx]))
        d = depth_of(case['obj'])
        cfg = f"{case['g']}{case['s']}{case['h']}{case['l']}"
        if d >= 2 or cfg != 'D-D-' or case['t'] != 'none':
            distinct.add(il)
        kinds_of(case['obj'], hist['member_kinds'])
        hist['depth'][d] = hist['depth'].get(d, 0) + 1
        hist['loader_config'][cfg] = hist['loader_config'].get(cfg, 0) + 1
        hist['tamper'][case['t']] = hist['tamper'].get(case['t'], 0) + 1
        hist['classes'][case['n']] = hist['classes'].get(case['n'], 0) + 1
        for k, _c, _n in case['decls']:
            hist['decl_kinds'][k] += 1
        oc = obs['save'] if obs['save'].startswith('err:') else ('load-' + obs['load'] if obs['load'].startswith('err:') else 'ok')
        hist['outcome'][oc] = hist['outcome'].get(oc, 0) + 1
    return dict(
        evaluations=len(cases), distinct_nontrivial=len(distinct),
        rule='corpus (the repaired defects) + every loader configuration (global x save context x global at load x load '
             'context) x every tampering x one object per member kind / future state + every sequence of <= 2 (thorough 3) '
             'declarations over a 3-class chain + random families (1-4 classes, 0-2 declarations each, decorator or '
             'classmethod, sometimes out of order) with random object trees (depth <= 3 quick / 5 thorough), faults and '
             'tamperings; original mutated after save; non-trivial = nesting depth >= 2 or a non-default loader configuration '
             'or a tampering; distinct = distinct observation lines among those',
        samples=[dict(line=lines[i], impl=impl_line(impl[i])) for i in (0, 3, len(cases) // 2, len(cases) - 1)],
        traces_validated=len(cases) if model is not None else 0,
        divergences=divergences, failures=failures, exhaustive=False,
        histograms=dict(hist, systematic_cases=n_sys),
    )


def replay(ctx, failure):
    if failure['case'].get('odd_members'):
        with mp.Pool(1, maxtasksperchild=1) as pool:
            fs = pool.apply(odd_members_stream)
        return dict(failures=[dict(signature=f['signature'], detail=f['detail']) for f in fs])
    if failure['case'].get('fresh_interpreter'):
        with mp.Pool(1, maxtasksperchild=1) as pool:
            saved = pool.apply(hook_save, (failure['case']['cls'],))
            fs = pool.apply(hook_load, (saved,))
        return dict(failures=[dict(signature=f['signature'], detail=f['detail']) for f in fs])
    if failure['case'].get('hook_stream'):
        with mp.Pool(1, maxtasksperchild=1) as pool:
            fs = pool.apply(hook_stream, (tuple(failure['case']['order']),))
        return dict(failures=[dict(signature=f['signature'], detail=f['detail']) for f in fs])
    case = norm_case(failure['case'])
    with mp.Pool(1) as pool:
        obs = pool.apply(run_impl, (case,))
    il = impl_line(obs)
    out = dict(line=case_line(case), impl=il)
    m = ctx.model.run('savable', [case_line(case)])
    out['model'] = m[0] if m else None
    fails = monitors(case, obs)
    out['failures'] = [dict(signature=f['signature'], clause=f['clause'], detail=f['detail']) for f in fails]
    return out
