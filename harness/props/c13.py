"""C13 — a step's return value alone decides what happens next, with exact arguments."""
from harness import pm_prop

PROPERTY = 'C13'
LEAN_PROPS = 'PlumpyModel.Props.C13'
ASSUMPTIONS = pm_prop.ASSUMPTIONS
TRUSTED = pm_prop.TRUSTED
ALPHABET = ['pause', 'play', 'resume', 'resume-']
MONITORS = ['c13']


def run(ctx):
    return pm_prop.run_pm(ctx, ALPHABET, MONITORS, k_quick=3, k_thorough=4, n_random_quick=400, n_random_thorough=4000)


def replay(ctx, failure):
    return pm_prop.replay_pm(ctx, failure, MONITORS)
