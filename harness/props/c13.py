"""C13 — a step's return value alone decides what happens next, with exact arguments."""
from harness import pm_prop

PROPERTY = 'C13'
LEAN_PROPS = 'PlumpyModel.Props.C13'
ASSUMPTIONS = pm_prop.ASSUMPTIONS
TRUSTED = pm_prop.TRUSTED
ALPHABET = ['pause', 'play', 'resume', 'resume-', 'resumeN']
MONITORS = ['c13']


def _restore_case(prog):
    """checkpoint-and-restore stream: take a Bundle at EVERY state event (exiting, entering, entered — i.e. also in the
    middle of the step's closing transition, between the return and the next step), restore each in a fresh loop, run it
    to completion with the same resume values and compare with the uninterrupted run."""
    import asyncio
    import harness.detloop as detloop
    import plumpy
    from plumpy.base.state_machine import StateEventHook
    from harness import pm
    fails = []
    ref = pm.reference_trace(prog)
    r = pm.Run(prog)
    r.p.remove_process_listener(r.lis)      # the harness listener references the run (and its loop): not part of a checkpoint
    snaps = []

    def snap(kind):
        def cb(sm, hook, state):
            if kind != 'entered' and state is not None and state.is_terminal():
                return          # in the middle of the transition into a terminal state there is no next step to restore to
            try:
                snaps.append((kind, r.p.state.value, len(r.p._trace), plumpy.Bundle(r.p)))
            except Exception as e:  # noqa
                snaps.append((kind, r.p.state.value, len(r.p._trace), e))
        return cb
    for hook, kind in ((StateEventHook.EXITING_STATE, 'exiting'), (StateEventHook.ENTERING_STATE, 'entering'),
                       (StateEventHook.ENTERED_STATE, 'entered')):
        r.p.add_state_event_callback(hook, snap(kind))
    for _ in range(200):
        if not r.tick():
            break
    r.finalize()
    r.close()
    n = 0
    for kind, label, ntrace, bundle in snaps:
        if isinstance(bundle, Exception):
            fails.append(dict(signature='c13-checkpoint-failed:' + type(bundle).__name__, clause='the process can be checkpointed between the return and the next step',
                              detail=dict(at=kind, state=label)))
            continue
        if label in ('finished', 'excepted', 'killed'):
            continue
        n += 1
        loop = detloop.DetLoop()
        asyncio.set_event_loop(loop)
        try:
            p2 = bundle.unbundle(plumpy.LoadSaveContext(loop=loop))
        except Exception as e:  # noqa
            fails.append(dict(signature='c13-restore-failed:' + type(e).__name__, clause='the same holds after a checkpoint restore',
                              detail=dict(at=kind, state=label, error=repr(e)[:200])))
            loop.close()
            continue
        p2._trace = []
        p2._raised = []
        p2._futs = []
        task = loop.create_task(p2.step_until_terminated())
        for _ in range(6):
            loop.drain(500)
            if p2.has_terminated():
                break
            if p2.paused:
                p2.play()
            if p2.state.value == 'waiting':
                p2.resume(5)
        got = [(x[0], x[1], x[2]) for x in p2._trace]
        want = ref['trace'][len(ref['trace']) - len(got):] if got else []
        st = p2.state.value
        if st == 'finished':
            res = p2.result()
            out = f"finished:{'-' if res is None else 99 if asyncio.isfuture(res) else res}:{1 if p2.successful() else 0}"
        elif st == 'excepted':
            out = 'excepted:' + pm.excname(p2.exception())
        else:
            out = st if st == 'killed' else 'live'
        if got != want or out != ref['outcome']:
            fails.append(dict(signature='c13-restore-differs', clause='the same holds when the process was checkpointed and restored between the return and the next step',
                              detail=dict(checkpoint_at=kind, state=label, restored_trace=got, reference_tail=want, restored_outcome=out,
                                          reference_outcome=ref['outcome'])))
        loop.close()
    return n, fails


def _restore_work(item):
    name, prog = item
    n, fails = _restore_case(prog)
    for f in fails:
        f['case'] = dict(program=name, prog=prog, schedule={}, restore_stream=True)
    return n, fails


def run(ctx):
    import multiprocessing as mp
    from harness import pm
    out = pm_prop.run_pm(ctx, ALPHABET, MONITORS, k_quick=3, k_thorough=4, n_random_quick=400, n_random_thorough=4000, listeners=True)
    progs = [(n, p) for n, p in pm.CORPUS.items() if p['kind'] == 'proc' and n != 'RetAwaitable']
    rng = ctx.rng
    for i in range(300 if not ctx.thorough else 3000):
        p = pm.random_prog(rng)
        if p['kind'] == 'proc':
            progs.append((f'rand{i}', p))
    with mp.Pool(ctx.workers) as pool:
        res = pool.map(_restore_work, progs, chunksize=8)
    restored = sum(n for n, _ in res)
    for _n, fails in res:
        out['failures'].extend(fails)
    out['evaluations'] += restored
    out['histograms']['restore_stream'] = dict(programs=len(progs), checkpoints_restored=restored,
                                                 note='Bundle taken at every exiting/entering/entered state event, restored in a fresh loop')
    return out


def replay(ctx, failure):
    if failure['case'].get('restore_stream'):
        from harness import pm
        prog, _ = pm.fix_case(failure['case'])
        n, fails = _restore_case(prog)
        return dict(checkpoints_restored=n, failures=fails)
    return pm_prop.replay_pm(ctx, failure, MONITORS)
