"""C13 — a step's return value alone decides what happens next, with exact arguments."""
from harness import pm_prop

PROPERTY = 'C13'
LEAN_PROPS = 'PlumpyModel.Props.C13'
ASSUMPTIONS = pm_prop.ASSUMPTIONS
TRUSTED = pm_prop.TRUSTED
ALPHABET = ['pause', 'play', 'resume', 'resume-', 'resumeN', 'resumeE']
MONITORS = ['c13', 'c06']      # c06: after resume(v), f(v) does run (the wait does not stay forever)


import plumpy as _plumpy  # noqa: E402  (after harness.pm_prop, which loads harness.detloop first)


class MutArgs(_plumpy.Process):
    """Continue / Wait with mutable arguments that the continuations consume in place"""

    def run(self):
        return _plumpy.Continue(self.consume, ['a', 'b', 'c'], 7, report={'done': []})

    def consume(self, items, n, report=None):
        while items:
            report['done'].append(items.pop(0))
        return _plumpy.Wait(self.after)

    def after(self, value):
        got = list(value)
        while value:
            value.pop()
        return {'got': got}


def _restore_case(prog):
    """checkpoint-and-restore stream: take a Bundle at EVERY state event (exiting, entering, entered — i.e. also in the
    middle of the step's closing transition, between the return and the next step), restore each in a fresh loop, run it
    to completion with the same resume values and compare with the uninterrupted run."""
    import asyncio
    import harness.detloop as detloop
    import plumpy
    from plumpy.base.state_machine import StateEventHook
    from harness import pm
    fails = []
    ref = pm.reference_trace(prog)
    r = pm.Run(prog)
    r.p.remove_process_listener(r.lis)      # the harness listener references the run (and its loop): not part of a checkpoint
    snaps = []

    def snap(kind):
        def cb(sm, hook, state):
            if kind != 'entered' and state is not None and state.is_terminal():
                return          # in the middle of the transition into a terminal state there is no next step to restore to
            try:
                snaps.append((kind, r.p.state.value, len(r.p._trace), plumpy.Bundle(r.p)))
            except Exception as e:  # noqa
                snaps.append((kind, r.p.state.value, len(r.p._trace), e))
        return cb
    for hook, kind in ((StateEventHook.EXITING_STATE, 'exiting'), (StateEventHook.ENTERING_STATE, 'entering'),
                       (StateEventHook.ENTERED_STATE, 'entered')):
        r.p.add_state_event_callback(hook, snap(kind))
    for _ in range(200):
        if not r.tick():
            break
    r.finalize()
    r.close()
    n = 0
    for kind, label, ntrace, bundle in snaps:
        if isinstance(bundle, Exception):
            fails.append(dict(signature='c13-checkpoint-failed:' + type(bundle).__name__, clause='the process can be checkpointed between the return and the next step',
                              detail=dict(at=kind, state=label)))
            continue
        if label in ('finished', 'excepted', 'killed'):
            continue
        n += 1
        loop = detloop.DetLoop()
        asyncio.set_event_loop(loop)
        try:
            p2 = bundle.unbundle(plumpy.LoadSaveContext(loop=loop))
        except Exception as e:  # noqa
            fails.append(dict(signature='c13-restore-failed:' + type(e).__name__, clause='the same holds after a checkpoint restore',
                              detail=dict(at=kind, state=label, error=repr(e)[:200])))
            loop.close()
            continue
        p2._trace = []
        p2._raised = []
        p2._futs = []
        task = loop.create_task(p2.step_until_terminated())
        for _ in range(6):
            loop.drain(500)
            if p2.has_terminated():
                break
            if p2.paused:
                p2.play()
            if p2.state.value == 'waiting':
                p2.resume(5)
        got = [(x[0], x[1], x[2]) for x in p2._trace]
        want = ref['trace'][len(ref['trace']) - len(got):] if got else []
        st = p2.state.value
        if st == 'finished':
            res = p2.result()
            out = f"finished:{'-' if res is None else 99 if asyncio.isfuture(res) else res}:{1 if p2.successful() else 0}"
        elif st == 'excepted':
            out = 'excepted:' + pm.excname(p2.exception())
        else:
            out = st if st == 'killed' else 'live'
        if got != want or out != ref['outcome']:
            fails.append(dict(signature='c13-restore-differs', clause='the same holds when the process was checkpointed and restored between the return and the next step',
                              detail=dict(checkpoint_at=kind, state=label, restored_trace=got, reference_tail=want, restored_outcome=out,
                                          reference_outcome=ref['outcome'])))
        loop.close()
    return n, fails


def _mutargs_case():
    """checkpoint between the return of `Continue(f, *a, **k)` / `Wait(f)` + resume(v) and the next step, with MUTABLE arguments
    that the continuation consumes in place: the process restored from the checkpoint must see the arguments as they were
    returned, whatever the original instance did to its own objects afterwards"""
    import asyncio
    import harness.detloop as detloop
    import plumpy
    from plumpy.base.state_machine import StateEventHook
    fails = []
    loop = detloop.DetLoop()
    asyncio.set_event_loop(loop)
    p = MutArgs(loop=loop)
    snaps = []

    def cb(sm, hook, state):
        if not p.has_terminated():
            snaps.append((p.state.value, plumpy.Bundle(p)))
    p.add_state_event_callback(StateEventHook.ENTERED_STATE, cb)
    loop.create_task(p.step_until_terminated())
    for _ in range(6):
        loop.drain(500)
        if p.has_terminated():
            break
        if p.state.value == 'waiting':
            p.resume(['x', 'y'])
    ref = (p.state.value, p.result() if p.state.value == 'finished' else None)
    loop.close()
    n = 0
    for label, bundle in snaps:
        loop = detloop.DetLoop()
        asyncio.set_event_loop(loop)
        q = bundle.unbundle(plumpy.LoadSaveContext(loop=loop))
        loop.create_task(q.step_until_terminated())
        for _ in range(6):
            loop.drain(500)
            if q.has_terminated():
                break
            if q.state.value == 'waiting':
                q.resume(['x', 'y'])
        got = (q.state.value, q.result() if q.state.value == 'finished' else None)
        n += 1
        if got != ref:
            fails.append(dict(signature='c13-restore-differs', clause='the same holds when the process was checkpointed and restored between '
                              'the return and the next step (arguments as returned, not as mutated later by the original instance)',
                              detail=dict(checkpoint_state=label, restored=repr(got)[:300], reference=repr(ref)[:300]),
                              case=dict(mutargs=True)))
        loop.close()
    return n, fails


def _restore_work(item):
    name, prog = item
    n, fails = _restore_case(prog)
    for f in fails:
        f['case'] = dict(program=name, prog=prog, schedule={}, restore_stream=True)
    return n, fails


def run(ctx):
    import multiprocessing as mp
    from harness import pm
    out = pm_prop.run_pm(ctx, ALPHABET, MONITORS, k_quick=3, k_thorough=4, n_random_quick=400, n_random_thorough=4000, listeners=True)
    progs = [(n, p) for n, p in pm.CORPUS.items() if p['kind'] == 'proc' and n != 'RetAwaitable']
    rng = ctx.rng
    for i in range(300 if not ctx.thorough else 3000):
        p = pm.random_prog(rng)
        if p['kind'] == 'proc':
            progs.append((f'rand{i}', p))
    with mp.Pool(ctx.workers) as pool:
        res = pool.map(_restore_work, progs, chunksize=8)
    restored = sum(n for n, _ in res)
    n_mut, f_mut = _mutargs_case()
    restored += n_mut
    out['failures'].extend(f_mut)
    for _n, fails in res:
        out['failures'].extend(fails)
    out['evaluations'] += restored
    out['histograms']['restore_stream'] = dict(programs=len(progs), checkpoints_restored=restored,
                                                 note='Bundle taken at every exiting/entering/entered state event, restored in a fresh loop')
    return out


def replay(ctx, failure):
    if failure['case'].get('mutargs'):
        n, fails = _mutargs_case()
        return dict(checkpoints_restored=n, failures=fails)
    if failure['case'].get('restore_stream'):
        from harness import pm
        prog, _ = pm.fix_case(failure['case'])
        n, fails = _restore_case(prog)
        return dict(checkpoints_restored=n, failures=fails)
    return pm_prop.replay_pm(ctx, failure, MONITORS)
