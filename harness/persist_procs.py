"""Live processes for C14: real plumpy processes whose persisted state changes every time they are stepped.

Module level (and importable as `harness.persist_procs`) because `Savable.save` records the class by an identifier that
the default object loader must be able to load back.  Import only after `common.ensure_repo_on_path()`.
"""
import plumpy
from plumpy import persistence, process_states


@persistence.auto_persist('_count')
class CounterProc(plumpy.Process):
    """auto-persisted member and outputs that grow with every step"""

    @classmethod
    def define(cls, spec):
        super().define(spec)
        spec.outputs.dynamic = True

    def __init__(self, *args, **kwargs):
        super().__init__(*args, **kwargs)
        self._count = 0

    def run(self):
        self._count += 1
        self.out(f'o{self._count}', [self._count])
        return process_states.Continue(self.run)


class RefProc(plumpy.Process):
    """hands a *reference* to live mutable state to the bundle in `save_instance_state` (what `Bundle(dereference=True)`
    and pickling exist to cut): a persister that keeps the bundle it was given would see it change afterwards"""

    def __init__(self, *args, **kwargs):
        super().__init__(*args, **kwargs)
        self._history = []

    def run(self):
        self._history.append(len(self._history))
        return process_states.Continue(self.run)

    def save_instance_state(self, out_state, save_context):
        super().save_instance_state(out_state, save_context)
        out_state['history'] = self._history

    def load_instance_state(self, saved_state, load_context):
        super().load_instance_state(saved_state, load_context)
        self._history = list(saved_state['history'])      # (a copy: the loaded bundle belongs to whoever loaded it)


class ChainProc(plumpy.WorkChain):
    """a work chain looping forever; its context and stepper state are persisted"""

    @classmethod
    def define(cls, spec):
        super().define(spec)
        spec.outline(plumpy.while_(cls.always)(cls.bump))

    def always(self):
        return True

    def bump(self):
        self.ctx.n = getattr(self.ctx, 'n', 0) + 1
        self.ctx.seen = getattr(self.ctx, 'seen', []) + [self.ctx.n]
        self.ctx.log = self.ctx.seen                    # ONE list under two names
        import collections
        tally = collections.defaultdict(int, getattr(self.ctx, 'tally', {}))     # a dict SUBCLASS as a context value; rebuilt,
        tally[self.ctx.n % 3] += 1                      # not changed in place (a loaded context shares its values with the bundle
        self.ctx.tally = tally                          # it was loaded from - documented by ContextMixin)


class TodoProc(plumpy.Process):
    """an input value (a list inside the frozen inputs mapping) consumed in place, one item per step"""

    @classmethod
    def define(cls, spec):
        super().define(spec)
        spec.inputs.dynamic = True

    def __init__(self, *args, **kwargs):
        kwargs.setdefault('inputs', {'todo': list('abcdefghijklmnopqrstuvwxyz')})
        super().__init__(*args, **kwargs)

    def run(self):
        if self.inputs.todo:
            self.inputs.todo.pop(0)
        return process_states.Continue(self.run)


CLASSES = (CounterProc, RefProc, ChainProc, TodoProc)


def _failing_save(cls):
    """every class can be told to fail its next save (a member that cannot be saved at that moment)"""
    orig = cls.save_instance_state

    def save_instance_state(self, out_state, save_context):
        if self.__dict__.pop('_fail_save', False):
            raise RuntimeError('this state cannot be saved')
        orig(self, out_state, save_context)
    cls.save_instance_state = save_instance_state
    return cls


for _c in CLASSES:
    _failing_save(_c)
