"""Port specs, values, emissions: generators, encoders for the `pmodel ports` / `pmodel portsout` line protocols, builders of
real plumpy specs, canonical rendering, and the independent reference (a transcription of the declarative acceptance /
defaults rule of C11, not a call into plumpy's validate).

value : ('A', ty, id) | ('D', [(key, value), ...]) | ('F', [...])   ty 0 -> int(id), ty 1 -> float(id) + 0.5; ('A', 0, 0) is the falsy 0;
        'D' is a plain dict, 'F' an AttributesFrozendict (e.g. a namespace of another process's inputs passed on)
port  : ('L', required, type, default, callable, validator)
      | ('N', required, type, default, dynamic, populate_defaults, validator, [(name, port), ...])
top   : (required, dynamic, type, validator)                  attributes of spec.inputs / spec.outputs
type  : None | 0 (int) | 1 (float) | 2 (dict);  validator : None | n  ("reject every value that mentions atom id n")
"""
import collections.abc
import itertools

TYPES = {0: int, 1: float, 2: dict}
NAMES = ['a', 'b', 'c', 'd', 'e', 'f']
PROBE = '__probe__'


# ---------------------------------------------------------------- values
import warnings as _warnings
_warnings.filterwarnings('ignore', message='the validator .* has a signature that only takes a single argument')

def to_py(v):
    if v[0] == 'A':
        if v[1] == 3:
            return None                 # atoms of type 3 are Python's None: supplied explicitly, an instance of no declared type
        return int(v[2]) if v[1] == 0 else float(v[2]) + 0.5
    d = {k: to_py(x) for k, x in v[1]}
    if v[0] == 'F':
        from plumpy import utils
        return utils.AttributesFrozendict(d)
    return d


def atom_ty(x):
    return 3 if x is None else 1 if isinstance(x, float) else 0


def atom_id(x):
    return 0 if x is None else int(x - 0.5) if isinstance(x, float) else int(x)


def is_mapping(x):
    return isinstance(x, collections.abc.Mapping)


def is_frozen(m):
    """observe immutability the way a user would: try to assign"""
    try:
        m[PROBE] = 0
    except TypeError:
        return True
    del m[PROBE]
    return False


def show(x):
    """canonical rendering of a real value tree: frozen mappings <..>, plain dicts {..}, keys sorted"""
    if is_mapping(x):
        fr = is_frozen(x)
        body = ','.join(f'{k}={show(x[k])}' for k in sorted(x))
        return ('<' + body + '>') if fr else ('{' + body + '}')
    if not isinstance(x, (int, float, type(None))):
        return f'O:{type(x).__name__}'          # an object that is no value of the domain (e.g. an unevaluated default factory)
    return f'A{atom_ty(x)}:{atom_id(x)}'


def show_ref(v):
    """same rendering for reference trees ('A',..) / ('D', items) / ('F', items)"""
    if v[0] == 'A':
        return f'A{v[1]}:{v[2]}'
    body = ','.join(f'{k}={show_ref(x)}' for k, x in sorted(v[1], key=lambda kv: kv[0]))
    return ('<' + body + '>') if v[0] == 'F' else ('{' + body + '}')


def enc_v(v):
    if v[0] == 'A':
        return f'A {v[1]} {v[2]}'
    return ('%s %d %s' % (v[0], len(v[1]), ' '.join(f'{k} {enc_v(x)}' for k, x in v[1]))).strip()


def mentions_py(value, n):
    if is_mapping(value):
        return any(mentions_py(x, n) for x in value.values())
    return atom_id(value) == n


def mk_validator(n, one_arg=False):
    """`validator(value, port)`; with `one_arg` the deprecated but supported signature `validator(value)`"""
    # a rejection is any message, the empty one included (`str(exc)` of a bare assert): "is not None" is what counts
    msg = '' if n % 2 == 0 else 'rejected'
    if one_arg and n % 3 == 1:
        def validator(value, *, strict=True, **options):      # ONE positional parameter, the rest keyword-only: still the 1-arg form
            return msg if mentions_py(value, n) else None
    elif one_arg:
        def validator(value):
            return msg if mentions_py(value, n) else None
    else:
        def validator(value, port):
            return msg if mentions_py(value, n) else None
    validator.n = n
    return validator


# ---------------------------------------------------------------- specs
def o(x):
    return '-' if x is None else str(x)


def enc_port(p):
    if p[0] == 'L':
        return f"L {int(p[1])} {o(p[2])} {'-' if p[3] is None else enc_v(p[3])} {int(p[4])} {o(p[5])}"
    return (f"N {int(p[1])} {o(p[2])} {'-' if p[3] is None else enc_v(p[3])} {int(p[4])} {int(p[5])} {o(p[6])} "
            f"{len(p[7])} " + ' '.join(f'{k} {enc_port(x)}' for k, x in p[7])).strip()


def enc_top(top, sub):
    return (f"{int(top[0])} {int(top[1])} {o(top[2])} {o(top[3])} {len(sub)} " + ' '.join(f'{k} {enc_port(x)}' for k, x in sub)).strip()


def n_nodes(sub):
    return sum(1 + (n_nodes(p[7]) if p[0] == 'N' else 0) for _, p in sub)


def set_ns_attrs(ns, required, ty, dynamic, validator):
    ns.required = required
    ns.valid_type = None if ty is None else TYPES[ty]      # the setter forces dynamic=True when a type is given
    ns.dynamic = dynamic
    ns.validator = None if validator is None else mk_validator(validator, one_arg=validator % 2 == 1)


class _Factory:
    """an object with __call__ (a configured factory): callable, not a function"""

    def __init__(self, value):
        self.value = value

    def __call__(self):
        return self.value


def callable_default(val, variant):
    """a callable default in one of the forms Python offers: lambda, functools.partial, an object defining __call__, a bound method"""
    import functools
    v = variant % 4
    if v == 0:
        return lambda v=val: v
    if v == 1:
        return functools.partial(lambda x: x, val)
    if v == 2:
        return _Factory(val)
    return _Factory(val).__call__


def build_ports(ns, sub, output=False):
    """populate a real PortNamespace from the tuple representation (may raise: invalid plain default)"""
    from plumpy import ports
    for k, p in sub:
        if p[0] == 'L':
            kw = dict(required=p[1], valid_type=None if p[2] is None else TYPES[p[2]],
                      validator=None if p[5] is None else mk_validator(p[5], one_arg=p[5] % 2 == 0))
            if output:
                ns[k] = ports.OutputPort(k, **kw)
                continue
            if p[3] is not None:
                val = to_py(p[3])
                kw['default'] = callable_default(val, len(k) + len(sub)) if p[4] else val
            ns[k] = ports.InputPort(k, **kw)
        else:
            kw = dict(required=p[1], populate_defaults=p[5])
            if p[3] is not None:
                kw['default'] = to_py(p[3])
            ns[k] = ports.PortNamespace(k, **kw)
            set_ns_attrs(ns[k], p[1], p[2], p[4], p[6])
            build_ports(ns[k], p[7], output)


# ---------------------------------------------------------------- independent reference (C11)
class Malformed(Exception):
    pass


def ref_complete(sub, supplied):
    """the inputs completed with the declared defaults, as a reference tree; `supplied` is a list of (key, value).
    Rule (property text): every supplied value is kept; a value supplied for a declared namespace must be a mapping and
    is completed recursively (and becomes read-only); a declared port that is not supplied appears with its default if it has
    one; an unsupplied namespace is skipped when populate_defaults is off, starts from its own default if it has one, and
    otherwise is completed from the empty mapping if it declares any port."""
    declared = dict(sub)
    out = []
    for k, v in supplied:
        p = declared.get(k)
        if p is not None and p[0] == 'N':
            if v[0] == 'A':
                raise Malformed(k)
            out.append((k, ('F', ref_complete(p[7], v[1]))))
        else:
            out.append((k, v))
    have = {k for k, _ in supplied}
    for k, p in sub:
        if k in have:
            continue
        if p[0] == 'L':
            if p[3] is not None:
                out.append((k, p[3]))
        elif p[5]:
            if p[3] is not None:
                if p[3][0] == 'A':
                    raise Malformed(k)
                out.append((k, ('F', ref_complete(p[7], p[3][1]))))
            elif p[7]:
                out.append((k, ('F', ref_complete(p[7], []))))
    return out


def falsy(v):
    return (v[0] == 'A' and ((v[1] == 0 and v[2] == 0) or v[1] == 3)) or (v[0] != 'A' and not v[1])


def ref_mentions(v, n):
    if v[0] == 'A':
        return v[2] == n
    return any(ref_mentions(x, n) for _, x in v[1])


def ref_isinstance(v, ty):
    if v[0] == 'A':
        return v[1] == ty
    return v[0] == 'D' and ty == 2


def ref_dyn_ok(v, ty):
    """a dynamic value is of the namespace's type: an atom of that type, or a plain dict whose values are, at any depth"""
    if v[0] == 'A':
        return v[1] == ty
    if v[0] == 'F':
        return False
    return all(ref_dyn_ok(x, ty) for _, x in v[1])


def ref_conforms_port(p, val):
    """`val` is None when nothing is there (after defaults)"""
    if p[0] == 'L':
        if val is None:
            return not (p[1] and p[3] is None)          # a port with a default is never required
        if p[2] is not None and not ref_isinstance(val, p[2]):
            return False
        return p[5] is None or not ref_mentions(val, p[5])
    return ref_conforms_ns((p[1], p[4], p[2], p[6]), p[7], val)


def ref_conforms_ns(attrs, sub, val):
    required, dynamic, ty, validator = attrs
    if val is None or falsy(val):
        items = []                                       # absent or empty (any falsy value counts as empty, as in the code)
    elif val[0] == 'A':
        return False                                     # not a mapping
    else:
        items = val[1]
    if not items and not required:
        return True                                      # optional and empty
    d = dict(items)
    declared = {k for k, _ in sub}
    for k, p in sub:
        if not ref_conforms_port(p, d.get(k)):
            return False
    for k, v in items:
        if k not in declared:
            if not dynamic:
                return False
            if ty is not None and not ref_dyn_ok(v, ty):
                return False
    return validator is None or not ref_mentions(('D', items), validator)


def ref_construct(top, sub, raw_items):
    """('ok', tree) | ('reject', reason)"""
    try:
        parsed = ref_complete(sub, raw_items)
    except Malformed:
        return ('reject', 'malformed')
    if not ref_conforms_ns(top, sub, ('F', parsed)):
        return ('reject', 'nonconforming')
    return ('ok', ('F', parsed))


def declared_ns_paths(sub, tree, prefix=()):
    """paths of the declared namespace levels present in a real parsed tree"""
    out = []
    for k, p in sub:
        if p[0] == 'N' and is_mapping(tree) and k in tree:
            out.append(prefix + (k,))
            out.extend(declared_ns_paths(p[7], tree[k], prefix + (k,)))
    return out


# ---------------------------------------------------------------- enumeration of small specs
LEAF_DEFAULTS = [(None, False), (('A', 0, 1), False), (('A', 0, 1), True), (('A', 1, 1), True), (('A', 3, 0), False)]   # last: default=None


def leaf_variants(full=True):
    out = []
    for req in (True, False):
        for ty in (None, 0):
            for d, c in LEAF_DEFAULTS:
                for vd in ((None, 1) if full else (None,)):
                    out.append(('L', req, ty, d, c, vd))
    return out


def ns_variants(sub, full=True):
    out = []
    for req in (True, False):
        for ty, dyn in ((None, False), (None, True), (0, True)):
            for d in ((None, ('D', [])) if full else (None,)):
                for pop in (True, False):
                    for vd in ((None, 1) if full else (None,)):
                        out.append(('N', req, ty, d, dyn, pop, vd, sub))
    return out


def forests(n, full=True):
    """all port lists with exactly n nodes (names by position), attribute alphabets as above"""
    if n == 0:
        yield []
        return
    for first in range(1, n + 1):            # size of the first tree
        for t in trees(first, full):
            for rest in forests(n - first, full):
                yield [t] + rest


def trees(n, full=True):
    if n == 1:
        yield from leaf_variants(full)
    for subf in forests(n - 1, full):
        named = name_forest(subf)
        yield from ns_variants(named, full)


def name_forest(f):
    return [(NAMES[i], t) for i, t in enumerate(f)]


LEAF_INPUTS = [None, ('A', 0, 1), ('A', 0, 2), ('A', 1, 1), ('A', 3, 0)]      # the last one: an explicit None
EXTRAS = [None, ('z', ('A', 0, 2)), ('z', ('A', 1, 2)), ('z', ('D', [('y', ('A', 0, 2))]))]


def inputs_for(sub, extras=EXTRAS):
    """all input item lists for a port list: every declared port absent or one of a few values; namespaces absent, a
    non-mapping, or a mapping over the same alphabet; plus an optional undeclared key"""
    per_port = []
    for k, p in sub:
        if p[0] == 'L':
            per_port.append([None if v is None else (k, v) for v in LEAF_INPUTS])
        else:
            opts = [None, (k, ('A', 0, 1))] + [(k, ('D', items)) for items in inputs_for(p[7], extras)]
            per_port.append(opts)
    per_port.append(list(extras))
    for combo in itertools.product(*per_port):
        yield [c for c in combo if c is not None]


# ---------------------------------------------------------------- random specs and inputs
def optn(rng, p, hi):
    return rng.randint(0, hi) if rng.random() < p else None


def gen_value(rng, depth, leaf_only=False, ty=None):
    if leaf_only or depth == 0 or rng.random() < 0.7:
        if rng.random() < 0.06:
            return ('A', 3, 0)          # an explicit None
        return ('A', rng.randint(0, 1) if ty is None else ty, rng.randint(0, 3))
    n = rng.randint(0, 2)
    return ('D', [(k, gen_value(rng, depth - 1, ty=ty)) for k in rng.sample(['x', 'y', 'z'], n)])


def gen_port(rng, depth, budget, output=False):
    """returns (port, nodes used)"""
    if depth == 0 or budget <= 1 or rng.random() < 0.55:
        ty = optn(rng, 0.5, 1) if rng.random() < 0.9 else 2
        d, c = None, False
        if not output and rng.random() < 0.4:
            c = rng.random() < 0.5
            good_ty = ty if ty in (0, 1) else rng.randint(0, 1)
            if ty == 2:
                d = ('D', [])
            else:
                d = ('A', good_ty, rng.randint(0, 3))
            if c and rng.random() < 0.25:                 # a callable default is not checked at declaration: may be invalid
                d = ('A', rng.randint(0, 1), rng.randint(0, 3))
            if rng.random() < 0.12:
                d = ('A', 3, 0)                           # a declared default of None (plain or callable) IS a default
        vd = optn(rng, 0.25, 3)
        if d is not None and not c and vd is not None and ref_mentions(d, vd) and rng.random() < 0.9:
            vd = None                                      # mostly avoid plain defaults that the port's own validator rejects
        return ('L', rng.random() < 0.6, ty, d, c, vd), 1
    n = rng.randint(0, min(3, budget - 1))
    sub, used = [], 1
    for k in rng.sample(NAMES[:4], n):
        if budget - used <= 0:
            break
        p, u = gen_port(rng, depth - 1, budget - used, output)
        sub.append((k, p))
        used += u
    d = None
    if not output and rng.random() < 0.2:
        d = ('D', [(k, gen_value(rng, 1)) for k in rng.sample(NAMES[:4], rng.randint(0, 2))]) if rng.random() < 0.9 else ('A', 0, 1)
    ty = optn(rng, 0.3, 1)
    dyn = (rng.random() < 0.93) if ty is not None else rng.random() < 0.3
    return ('N', rng.random() < 0.6, ty, d, dyn, rng.random() < 0.75, optn(rng, 0.2, 3), sub), used


def gen_spec(rng, max_nodes=6, depth=2, output=False):
    sub, used = [], 0
    for k in rng.sample(NAMES[:4], rng.randint(1, 4)):
        if used >= max_nodes:
            break
        p, u = gen_port(rng, depth, max_nodes - used, output)
        sub.append((k, p))
        used += u
    ty = rng.choice([None, None, None, 0])
    dyn = True if ty is not None else rng.random() < 0.25
    top = (rng.random() < 0.9, dyn, ty, optn(rng, 0.15, 3))
    return top, sub


def good_atom(rng, ty, avoid):
    ids = [i for i in range(4) if i not in avoid] or [0]
    return ('A', ty if ty in (0, 1) else rng.randint(0, 1), rng.choice(ids))


def gen_good_items(rng, attrs, sub, avoid):
    """items that are likely to conform: required ports supplied, declared types, validators avoided, extras only where dynamic"""
    required, dynamic, ty, validator = attrs
    avoid = avoid | ({validator} if validator is not None else set())
    items = []
    for k, p in sub:
        if p[0] == 'L':
            need = p[1] and p[3] is None
            if need or rng.random() < 0.45:
                av = avoid | ({p[5]} if p[5] is not None else set())
                items.append((k, ('D', []) if p[2] == 2 else good_atom(rng, p[2], av)))
        else:
            if p[1] or rng.random() < 0.55:
                items.append((k, ('D', gen_good_items(rng, (p[1], p[4], p[2], p[6]), p[7], avoid))))
    if dynamic and rng.random() < 0.5:
        for k in rng.sample(['x', 'y', 'z'], rng.randint(1, 2)):
            if ty is None:
                v = gen_value(rng, 1)
                if any(ref_mentions(v, n) for n in avoid):
                    v = good_atom(rng, None, avoid)
            elif ty == 2:
                v = ('D', [])
            else:
                v = good_atom(rng, ty, avoid) if rng.random() < 0.7 else ('D', [('w', good_atom(rng, ty, avoid))])
            items.append((k, v))
    rng.shuffle(items)
    return items


def freeze_some(rng, v, p=0.5):
    """turn some of the mappings of a value into frozen ones"""
    if v[0] == 'A':
        return v
    return ('F' if rng.random() < p else v[0], [(k, freeze_some(rng, x, p)) for k, x in v[1]])


def mutate_items(rng, sub, items, depth=0):
    """one malformation: a non-mapping for a namespace, an unknown key, a wrong type, a dropped port, a bad id"""
    items = list(items)
    kind = rng.choice(['atom-for-ns', 'unknown', 'wrongtype', 'drop', 'nested', 'badid', 'dict-for-leaf'])
    declared = dict(sub)
    ns_keys = [k for k, p in sub if p[0] == 'N']
    if kind == 'nested' and ns_keys:
        k = rng.choice(ns_keys)
        cur = dict(items).get(k)
        inner = cur[1] if cur is not None and cur[0] == 'D' else []
        new = ('D', mutate_items(rng, declared[k][7], inner, depth + 1))
        return [(kk, v) for kk, v in items if kk != k] + [(k, new)]
    if kind == 'atom-for-ns' and ns_keys:
        k = rng.choice(ns_keys)
        return [(kk, v) for kk, v in items if kk != k] + [(k, ('A', rng.randint(0, 1), rng.randint(0, 2)))]
    if kind == 'unknown':
        return items + [(rng.choice(['q', 'zz']), gen_value(rng, 1))]
    if kind == 'drop' and items:
        i = rng.randrange(len(items))
        return items[:i] + items[i + 1:]
    if kind in ('wrongtype', 'badid', 'dict-for-leaf') and items:
        i = rng.randrange(len(items))
        k, v = items[i]
        if kind == 'dict-for-leaf':
            nv = ('D', [('w', ('A', 0, 1))])
        elif v[0] == 'A':
            nv = ('A', (1 - v[1]) if v[1] in (0, 1) else 0, v[2]) if kind == 'wrongtype' else ('A', v[1], rng.randint(0, 3) if v[1] != 3 else 0)
        else:
            nv = ('A', 0, rng.randint(0, 3))
        return items[:i] + [(k, nv)] + items[i + 1:]
    return items + [('q', ('A', 0, 1))]


# ---------------------------------------------------------------- output side (C12)
def from_py(x):
    """value representation of a real value: a mapping that refuses item assignment (observed as a user would, `is_frozen`) is an
    immutable mapping 'F', any other mapping a plain dict 'D'.  The distinction matters on the output side: an emitted immutable
    mapping is a VALUE (no `dict` for `validate_dynamic_ports`, nothing can be stored below it), not a level of the outputs tree."""
    if is_mapping(x):
        return ('F' if is_frozen(x) else 'D', [(k, from_py(v)) for k, v in x.items()])
    return ('A', atom_ty(x), atom_id(x))


def snapshot_spec(ns):
    """the real output spec as (attrs, ports) in the tuple representation, read through the public mapping API"""
    from plumpy import ports
    rev = {v: k for k, v in TYPES.items()}
    attrs = (bool(ns.required), bool(ns.dynamic), None if ns.valid_type is None else rev[ns.valid_type],
             getattr(ns.validator, 'n', None))
    sub = []
    for name, port in ns.items():
        if isinstance(port, ports.PortNamespace):
            a, s2 = snapshot_spec(port)
            sub.append((name, ('N', a[0], a[2], None, a[1], True, a[3], s2)))
        else:
            sub.append((name, ('L', bool(port.required), None if port.valid_type is None else rev[port.valid_type], None, False,
                               getattr(port.validator, 'n', None))))
    return attrs, sub


def spec_names(sub):
    return '{' + ','.join(f"{k}:L" if p[0] == 'L' else f"{k}:N{spec_names(p[7])}" for k, p in sorted(sub, key=lambda kp: kp[0])) + '}'


class PathError(Exception):
    pass


def ref_resolve(attrs, sub, segs):
    """the namespace a dotted name denotes: declared namespaces are entered, a name that is not declared inside a dynamic
    namespace denotes a (new, empty) namespace with the attributes of that dynamic namespace; anything else does not
    resolve (through a leaf port, undeclared in a non-dynamic namespace, the empty name)"""
    for i, seg in enumerate(segs):
        if seg == '' and i == len(segs) - 1:
            raise PathError('empty name')
        p = dict(sub).get(seg)
        if p is None:
            if not attrs[1]:
                raise PathError('does not exist')
            sub = []                                         # attrs inherited
        elif p[0] == 'L':
            raise PathError('through a leaf port')
        else:
            attrs, sub = (p[1], p[4], p[2], p[6]), p[7]
    return attrs, sub


def ref_accepts_out(attrs, sub, path, v):
    """(accepted, dynamic) for the emission of `v` at the dotted `path`; raises PathError when the path does not resolve"""
    segs = path.split('.')
    a, s = ref_resolve(attrs, sub, segs[:-1])
    p = dict(s).get(segs[-1])
    if p is not None:
        return ref_conforms_port(p, v), False
    required, dynamic, ty, validator = a
    return (dynamic and (ty is None or ref_dyn_ok(v, ty))), True


def ref_insert(items, segs, v):
    """nested insertion into the plain-dict levels of the outputs; raises PathError when a value that is not a plain dict is in the
    way: an atom, or an immutable mapping that was emitted (at the top of the outputs or inside an emitted plain dict) - such a
    mapping is a value, not a place to store below.  `.direct` says whether the value in the way sits exactly where the new entry
    would have to be assigned (the code's item assignment fails) or higher up (its `setdefault` fails)."""
    if len(segs) == 1:
        return [(k, x) for k, x in items if k != segs[0]] + [(segs[0], v)]
    cur = dict(items).get(segs[0])
    if cur is None:
        inner = []
    elif cur[0] != 'D':
        e = PathError('a value that is not a plain dict is stored there')
        e.direct = len(segs) == 2
        raise e
    else:
        inner = cur[1]
    return [(k, x) for k, x in items if k != segs[0]] + [(segs[0], ('D', ref_insert(inner, segs[1:], v)))]


def canon(v):
    """keys sorted; the kind of a mapping (plain 'D' / immutable 'F') is part of the value"""
    if v[0] == 'A':
        return v
    return (v[0], sorted(((k, canon(x)) for k, x in v[1]), key=lambda kv: kv[0]))
