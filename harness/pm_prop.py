"""Common driver of the process-control properties: exhaustive placement of <= K requests over the program corpus,
random programs with random deeper schedules, per-op correspondence with the Lean model and the Python monitors."""
from harness import pm

ASSUMPTIONS = [
    'asyncio is driven one callback at a time by harness/detloop.py (pure-Python Future/Task so that callbacks can be labelled); '
    'requests are placed between any two callbacks; FIFO order of ready callbacks as in stock asyncio',
    'user step functions are generated from data: segments separated by `await asyncio.sleep(0)`, ending in a command, a value or an exception',
    'lifecycle hooks and listeners of the generated processes do not raise (fault injection is C03)',
    'every run is completed by play(), delivery of outstanding wake-ups and draining the loop',
]
TRUSTED = ['process-control model lean/PlumpyModel/PM/Model.lean (hand-written mirror of Process.step, pause/play/kill/resume/fail, '
           'transition_to, Waiting, workchain awaitables), compared with the real code after every op',
           'CPython asyncio semantics (done callbacks and task wake-ups are scheduled, never run inline)']


def build_cases(ctx, alphabet, k_quick, k_thorough, n_random_quick, n_random_thorough, programs=None, max_random_len=6):
    K = k_thorough if ctx.thorough else k_quick
    cases = []
    corpus = programs if programs is not None else pm.CORPUS
    for name, prog in corpus.items():
        npos = pm.n_positions(prog)
        ops = pm.ops_for(prog, alphabet)
        kk = K
        # keep the exhaustive part bounded: large alphabets on long programs get one request less
        while kk > 1 and (npos * max(len(ops), 1)) ** kk > (4_000_000 if ctx.thorough else 120_000):
            kk -= 1
        for s in pm.schedules(npos, ops, kk):
            cases.append((name, prog, s))
    n_exh = len(cases)
    rng = ctx.rng
    for i in range(n_random_thorough if ctx.thorough else n_random_quick):
        prog = pm.random_prog(rng)
        npos = pm.n_positions(prog)
        ops = pm.ops_for(prog, alphabet)
        if not ops:
            continue
        for _ in range(12):
            k = rng.randint(1, max_random_len)
            s = {}
            for _ in range(k):
                s.setdefault(rng.randrange(npos), []).append(rng.choice(ops))
            cases.append((f'rand{i}', prog, dict(sorted(s.items()))))
    return cases, n_exh, K


def listener_cases(ctx, alphabet, programs=None):
    """control requests issued from listener notifications (i.e. during the transition that sends them), combined with
    every placement of <= 1 ordinary request (2 in the thorough tier)"""
    corpus = programs if programs is not None else pm.CORPUS
    cases = []
    K = 2 if ctx.thorough else 1
    for name, prog in corpus.items():
        npos = pm.n_positions(prog)
        ops = pm.ops_for(prog, [a for a in alphabet if a in ('pause', 'play', 'kill', 'resume', 'complete')])
        scheds = list(pm.schedules(npos, ops, K))
        for notif in ('run', 'wai', 'pau', 'pla'):
            for occ in (1, 2):
                for op in ('kill', 'pause', 'play'):
                    if notif == 'pau' and op == 'pause':
                        continue
                    for s in scheds:
                        cases.append((name, prog, s, {(notif, occ): op}))
        # TWO requests from notifications (the second typically issued while the first is being enacted): every pair, with
        # no ordinary request (quick) or with every placement of one (thorough)
        # requests issued from the exiting / entering phase of the k-th transition (an overridden on_exit_* / on_entering hook)
        for notif in ('exi', 'ent'):
            for occ in (1, 2, 3, 4):
                for op in ('kill', 'pause', 'play'):
                    for s in scheds:
                        if len(s) <= (1 if ctx.thorough else 0) or occ <= 2:
                            cases.append((name, prog, s, {(notif, occ): op}))
        singles = [(notif, occ, op) for notif in ('run', 'wai', 'pau', 'pla') for occ in (1, 2) for op in ('kill', 'pause', 'play')
                   if not (notif == 'pau' and op == 'pause')]
        pair_scheds = (list(pm.schedules(npos, ops, 1)) if ctx.thorough
                       else [{}] + [{pos: ['pause']} for pos in range(npos) if 'pause' in alphabet])
        for i, a in enumerate(singles):
            for b in singles[i + 1:]:
                if (a[0], a[1]) == (b[0], b[1]):
                    continue
                for s in pair_scheds:
                    cases.append((name, prog, s, {(a[0], a[1]): a[2], (b[0], b[1]): b[2]}))
    # corpus of past failures (witnesses of F22-F26), first in line
    for name, sched, plan in REGRESSION_LISTENER:
        if programs is None or name in corpus:
            cases.insert(0, (name, corpus[name], dict(sched), dict(plan)))
    return cases


REGRESSION_LISTENER = [
    ('Sync2', {}, {('run', 1): 'pause', ('pau', 1): 'kill'}),                    # F25
    ('Waiter', {1: ['pause']}, {('pau', 1): 'play', ('pla', 1): 'pause'}),       # F26
    ('Waiter', {1: ['play']}, {('wai', 1): 'pause'}),                            # F24
    ('Waiter', {1: ['pause']}, {('wai', 1): 'kill'}),                            # F22
    ('Async2', {1: ['pause']}, {('run', 2): 'play'}),                            # F23
]


def run_pm(ctx, alphabet, monitors, k_quick=3, k_thorough=4, n_random_quick=150, n_random_thorough=2000, programs=None,
           clause_filter=None, listeners=False):
    cases, n_exh, K = build_cases(ctx, alphabet, k_quick, k_thorough, n_random_quick, n_random_thorough, programs)
    out = pm.explore(ctx, cases, monitors)
    if listeners:
        lc = listener_cases(ctx, alphabet, programs)
        lout = pm.explore_listeners(ctx, lc, monitors)
        out['failures'].extend(lout['failures'])
        out['evaluations'] += lout['evaluations']
        out['divergences'].extend(lout['divergences'])
        out['traces_validated'] += lout['traces_validated']
        out['distinct_nontrivial'] += lout['distinct_nontrivial']
        out['histograms']['listener_stream'] = dict(cases=lout['evaluations'], requests_issued_from_listeners=lout['listener_requests_issued'],
                                                    traces_validated_against_model=lout['traces_validated'],
                                                    distinct_with_a_request_issued=lout['distinct_nontrivial'],
                                                    divergences=len(lout['divergences']),
                                                    note='decided by the monitors and compared after every op with the model with '
                                                         'listeners (lean/PlumpyModel/PM/Listener.lean, `pmodel pml`)')
    if clause_filter is not None:
        out['failures'] = [f for f in out['failures'] if clause_filter(f)]
    out['rule'] = (f'every placement of <= {K} requests from {alphabet} between any two event-loop callbacks of each corpus program '
                   f'({n_exh} schedules, exhaustive) + random programs with random schedules of <= 6 requests; '
                   'non-trivial = the schedule contains at least one request and the run has > 3 ops; '
                   'distinct = distinct (program, full observation stream)')
    out['exhaustive'] = False
    out['histograms']['exhaustive_schedules'] = n_exh
    out['histograms']['K'] = K
    return out


def replay_pm(ctx, failure, monitors):
    import harness.pm_monitors  # noqa
    prog, sched = pm.fix_case(failure['case'])
    plan = {(a, b): c for a, b, c in failure['case'].get('listener_plan', [])} or None
    r = pm.run_schedule(prog, sched, status0=pm.status0_for(sched), plan=plan, loop_mode=pm.loop_mode_for(sched), driver=pm.driver_for(sched))
    fails = []
    for m in monitors:
        fails.extend(pm.MONITORS[m](r))
    head = pm.listener_head(prog, plan) if plan else pm.prog_lines(prog)
    model = ctx.model.run('pml' if plan else 'pm', head + r.ops)
    res = dict(ops=r.ops, impl=r.obs, model=model[len(head):] if model else None,
               failures=[dict(signature=f['signature'], clause=f['clause'], detail=str(f['detail'])[:500]) for f in fails])
    r.close()
    return res
