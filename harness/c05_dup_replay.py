"""Replay of the witness of `C05_transparent_full_false` (lean/PlumpyModel/PM/Proof15.lean) on the real library.

A work chain whose step 0 returns ToContext(k5=f0, k6=f0) — ONE future under TWO keys — and whose step 1 records the context.
The real `to_context` keeps one key per future (`_awaitables[future] = key`: the last one, k6), so with and without the pause
the result lands under k6; the run without pause needs `complete` before `resume` (the loop is FIFO) to let step 1 see it.
Run:  /venv/bin/python harness/c05_dup_replay.py
"""
import os
import sys

sys.path.insert(0, os.path.dirname(os.path.dirname(os.path.abspath(__file__))))
from harness import common  # noqa: E402

common.ensure_repo_on_path()
from harness import pm  # noqa: E402

PROG = {'kind': 'chain', 'nfut': 1, 'fns': {0: (0, ('waiton', 1, [(0, 5), (0, 6)])), 1: (0, ('stop', None, True))}}


def run(ops):
    r = pm.Run(PROG)
    for op in ops:
        if op == 'tick':
            r.tick()
        else:
            r.do(op)
    p = r.p
    ctx = sorted((k, v) for k, v in p.ctx.__dict__.items() if k.startswith('k'))
    out = dict(state=p.state.value, ctx_seen_by_step=[(x[0], x[5]) for x in p._trace], ctx=ctx, ops=list(r.ops))
    r.close()
    return out


if __name__ == '__main__':
    print('with pause           :', run(['tick', 'resume -', 'complete 0 ok 3', 'pause', 'tick', 'tick', 'play', 'tick', 'tick']))
    print('no pause, same order :', run(['tick', 'resume -', 'complete 0 ok 3', 'tick', 'tick', 'tick']))
    print('no pause, reordered  :', run(['tick', 'complete 0 ok 3', 'resume -', 'tick', 'tick', 'tick']))
