"""Regenerate /verif/MANIFEST.json from the table below (python3 harness/manifest.py) and validate it."""
import json
import os

ROOT = os.path.dirname(os.path.dirname(os.path.abspath(__file__)))

BASE_NOTE = ('Trusted: Lean 4.33 kernel (axioms propext, Classical.choice, Quot.sound only; no sorry/native_decide); the model is '
             'hand-written and tied to /repo by regenerated tables and a differential correspondence check (testing, bounded by '
             'its generators). ')

CLAIMED = {
    'C09': dict(
        text='Lean theorems C09_doStep_refines / C09_chain_refines: for every outline, every oracle of step results and predicate '
             'values and every number of _do_step calls, the stepper model performs exactly the steps of the reference semantics of '
             'structured programs and the result is the return_ code, the stopping value or the last step value. The stepper model '
             'is compared with real WorkChain runs on all outline shapes up to 5 instructions and thousands of random nested ones.',
        note='Modelled, not verified: WorkChain._do_step and the five steppers (hand-written Lean mirror, differential check per '
             'case on the full call trace and result). Process machinery around _do_step is C13/C05.',
        technique='Lean 4 refinement proof (stepper model refines small-step semantics) + differential correspondence on generated outlines',
        design='6/C09'),
    'C18': dict(
        text='Lean theorems over the process-stack model (tasks with context-local stacks, _process_scope, _run_task, call_soon, '
             'launch, re-entrant execute(), kill of a waiting process), for every scenario and every order of ticks of any number of '
             'tasks, children and nested executions: C18_current_in_scope (inside step functions, continuations, after every await, '
             'in scheduled callbacks and output hooks, current() is the owning process), C18_scope_restores_self / _others / '
             'C18_scope_restores (a scope exit restores the task\'s stack; code of one task never changes what another task '
             'observes), C18_scope_assertion_never_fails. The hook clause of the property is NOT proved: it is false of the code '
             '(lifecycle hooks fired by transition_to, the constructor and close() run outside _process_scope) and is a recorded '
             'finding F14 (C18_witness_hook_outside_scope, C18_full_false; the check prints KNOWN-FINDING); the proved statement is '
             'C18_current_in_scope_partial, whose only extra hypothesis is "not a lifecycle hook". The model is compared with real '
             'generated Process classes after every event-loop callback (outermost and nested loops), over all interleavings of small '
             'scenarios and random schedules of random ones.',
        note='Modelled, not verified: contextvars context copy at task creation, asyncio scheduling, nest_asyncio re-entrancy '
             '(assumed contracts stated in the model, exercised through the real libraries); Process.step/transition_to hook order '
             '(hand-written mirror, differential check on every sample of Process.current() and PROCESS_STACK). pause/play and '
             'faults inside callbacks are outside this model (C03-C05).',
        technique='Lean 4 invariant proof over an interleaving task/stack machine + differential correspondence on a deterministic '
                  're-entrant event loop',
        design='6/C18'),
}

PENDING_REASON = 'check not built yet in this revision (planned: Lean model + correspondence, see DESIGN.md section 6)'


def main():
    props = [json.loads(l) for l in open(os.path.join(ROOT, 'properties.jsonl'))]
    checks, na = [], []
    for p in props:
        pid = p['id']
        if pid in CLAIMED:
            c = CLAIMED[pid]
            checks.append(dict(
                property_id=pid,
                quick_cmd=f'./check {pid} quick',
                thorough_cmd=f'./check {pid} thorough',
                evidence_file=f'evidence/{pid}.json',
                replay_cmd_template='./check --replay {path}',
                engine='lean4-model+correspondence',
                level_claimed=dict(category='proof', text=c['text'], design_ref=c['design']),
                level_note=BASE_NOTE + c['note'],
                technique=c['technique'],
            ))
        else:
            na.append(dict(property_id=pid, reason=PENDING_REASON))
    manifest = dict(
        version=1,
        setup_cmd='./setup.sh',
        hooks=dict(guard='PLUMPY_VERIF', enable='no source hooks are needed: everything is observed through public API, subclass hooks, '
                   'listeners and a deterministic event loop supplied by the harness',
                   baseline_off_cmd='cd /repo && /venv/bin/python -m pytest -ra -q -p no:cacheprovider --timeout=900 '
                                    '--continue-on-collection-errors', source_commits=[], add_only=True),
        engines=[dict(name='lean4-model+correspondence', path='lean/ + harness/', serves_properties=sorted(CLAIMED),
                      kind_free_text='Lean 4 proofs over an executable model (lake project lean/, native driver pmodel) tied to the '
                                     'source by generated tables and a per-case differential check against the real code')],
        checks=checks,
        notes='Fix commits in /repo (message prefix "fix:") repair genuine defects found by this machinery; see known_findings.json '
              'and DESIGN.md section 9.',
        not_applicable=na,
    )
    with open(os.path.join(ROOT, 'MANIFEST.json'), 'w') as fh:
        json.dump(manifest, fh, indent=1)
    try:
        import jsonschema
        jsonschema.validate(manifest, json.load(open('/root/.vp/MANIFEST.schema.json')))
        print('MANIFEST.json valid;', len(checks), 'checks,', len(na), 'not claimed')
    except ImportError:
        print('MANIFEST.json written (jsonschema not available to validate)')


if __name__ == '__main__':
    main()
