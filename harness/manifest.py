"""Regenerate /verif/MANIFEST.json from the table below (python3 harness/manifest.py) and validate it."""
import json
import os

ROOT = os.path.dirname(os.path.dirname(os.path.abspath(__file__)))

BASE_NOTE = ('Trusted: Lean 4.33 kernel (axioms propext, Classical.choice, Quot.sound only; no sorry/native_decide); the model is '
             'hand-written and tied to /repo by regenerated tables and a differential correspondence check (testing, bounded by '
             'its generators). ')

CLAIMED = {
    'C09': dict(
        text='Lean theorems C09_doStep_refines / C09_chain_refines: for every outline, every oracle of step results and predicate '
             'values and every number of _do_step calls, the stepper model performs exactly the steps of the reference semantics of '
             'structured programs and the result is the return_ code, the stopping value or the last step value. The stepper model '
             'is compared with real WorkChain runs on all outline shapes up to 5 instructions and thousands of random nested ones.',
        note='Modelled, not verified: WorkChain._do_step and the five steppers (hand-written Lean mirror, differential check per '
             'case on the full call trace and result). Process machinery around _do_step is C13/C05.',
        technique='Lean 4 refinement proof (stepper model refines small-step semantics) + differential correspondence on generated outlines',
        design='6/C09'),
    'C19': dict(
        text='Lean theorems C19_members_roundtrip (+ _global, _persave), C19_autopersist_inherit_independent (+ _shared_leaks), '
             'C19_future_state_restored, C19_loader_precedence, C19_unknown_class_valueerror (+ C19_loaded_class_is_resolved): '
             'for every class family reachable by any sequence of decorator / classmethod declarations, every object tree of any '
             'nesting depth (structural induction), every member kind and future state and every loader configuration, '
             'load(save(o)) restores every declared member; a child\'s declarations reach the parent exactly when the '
             'classmethod is used on a class that only inherits its set; the class is resolved by context loader > recorded '
             'loader > global default; an unknown class or recorded loader is a ValueError and a returned object is always an '
             'instance of the class the loader resolved. The model is compared with the real Savable/SavableFuture/loaders code on '
             'all 64 loader configurations x 6 tamperings x member kinds, all declaration sequences up to length 2-3 and '
             'thousands of random families and object trees, with the original mutated after save.',
        note='Modelled, not verified: Savable.save/save_members/load/recreate_from/load_members/_get_value, '
             '_ensure_object_loader, the auto_persist decorator and classmethod, SavableFuture (hand-written Lean mirror, '
             'differential check per case); copy.deepcopy and asyncio.Future by contract. Copy-at-save is value semantics in the '
             'model and is decided by the differential check (mutation after save), not by a theorem.',
        technique='Lean 4 structural induction over nested object trees + ownership invariant of the set heap + differential '
                  'correspondence on generated class families with in-process custom loaders',
        design='6/C19'),
}

PENDING_REASON = 'check not built yet in this revision (planned: Lean model + correspondence, see DESIGN.md section 6)'


def main():
    props = [json.loads(l) for l in open(os.path.join(ROOT, 'properties.jsonl'))]
    checks, na = [], []
    for p in props:
        pid = p['id']
        if pid in CLAIMED:
            c = CLAIMED[pid]
            checks.append(dict(
                property_id=pid,
                quick_cmd=f'./check {pid} quick',
                thorough_cmd=f'./check {pid} thorough',
                evidence_file=f'evidence/{pid}.json',
                replay_cmd_template='./check --replay {path}',
                engine='lean4-model+correspondence',
                level_claimed=dict(category='proof', text=c['text'], design_ref=c['design']),
                level_note=BASE_NOTE + c['note'],
                technique=c['technique'],
            ))
        else:
            na.append(dict(property_id=pid, reason=PENDING_REASON))
    manifest = dict(
        version=1,
        setup_cmd='./setup.sh',
        hooks=dict(guard='PLUMPY_VERIF', enable='no source hooks are needed: everything is observed through public API, subclass hooks, '
                   'listeners and a deterministic event loop supplied by the harness',
                   baseline_off_cmd='cd /repo && /venv/bin/python -m pytest -ra -q -p no:cacheprovider --timeout=900 '
                                    '--continue-on-collection-errors', source_commits=[], add_only=True),
        engines=[dict(name='lean4-model+correspondence', path='lean/ + harness/', serves_properties=sorted(CLAIMED),
                      kind_free_text='Lean 4 proofs over an executable model (lake project lean/, native driver pmodel) tied to the '
                                     'source by generated tables and a per-case differential check against the real code')],
        checks=checks,
        notes='Fix commits in /repo (message prefix "fix:") repair genuine defects found by this machinery; see known_findings.json '
              'and DESIGN.md section 9.',
        not_applicable=na,
    )
    with open(os.path.join(ROOT, 'MANIFEST.json'), 'w') as fh:
        json.dump(manifest, fh, indent=1)
    try:
        import jsonschema
        jsonschema.validate(manifest, json.load(open('/root/.vp/MANIFEST.schema.json')))
        print('MANIFEST.json valid;', len(checks), 'checks,', len(na), 'not claimed')
    except ImportError:
        print('MANIFEST.json written (jsonschema not available to validate)')


if __name__ == '__main__':
    main()
