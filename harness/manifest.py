"""Regenerate /verif/MANIFEST.json from the table below (python3 harness/manifest.py) and validate it."""
import json
import os

ROOT = os.path.dirname(os.path.dirname(os.path.abspath(__file__)))

BASE_NOTE = ('Trusted: Lean 4.33 kernel (axioms propext, Classical.choice, Quot.sound only; no sorry/native_decide); the model is '
             'hand-written and tied to /repo by regenerated tables and a differential correspondence check (testing, bounded by '
             'its generators). ')

CLAIMED = {
    'C09': dict(
        text='Lean theorems C09_doStep_refines / C09_chain_refines: for every outline, every oracle of step results and predicate '
             'values and every number of _do_step calls, the stepper model performs exactly the steps of the reference semantics of '
             'structured programs and the result is the return_ code, the stopping value or the last step value. The stepper model '
             'is compared with real WorkChain runs on all outline shapes up to 5 instructions and thousands of random nested ones.',
        note='Modelled, not verified: WorkChain._do_step and the five steppers (hand-written Lean mirror, differential check per '
             'case on the full call trace and result). Process machinery around _do_step is C13/C05.',
        technique='Lean 4 refinement proof (stepper model refines small-step semantics) + differential correspondence on generated outlines',
        design='6/C09'),
    'C16': dict(
        text='Lean theorems over the communication model (message_receive / broadcast_receive dispatch from the tables found in '
             'the source, _schedule_rpc as a scheduled callback, subscriptions removed by the cleanups of close, on_entered '
             'broadcasting under an oracle per transition index) layered on the process-control model: C16_rpc_is_direct_call, '
             'C16_broadcast_is_direct_call, C16_status_is_direct_call (configuration and reply after the scheduled callback = '
             'those of the direct call at that point); C16_broadcast_log_exact (for every history the broadcasts are exactly one '
             'state_changed.<from>.<to> per entry of the entered log, in order, sent by the pid); C16_tolerated_failure_invisible '
             '(for every transition index and tolerated kind every observation equals the failure-free run, the log misses that '
             'entry); C16_unsubscribed_after_termination; C16_unknown_intent_rejected. The model is compared op by op with real '
             'processes controlled through RemoteProcessThreadController -> LoopCommunicator -> in-process kiwipy communicator, '
             'and independent monitors compare every such run with a twin process receiving direct calls where the handlers ran.',
        note='Modelled, not verified: kiwipy LocalCommunicator/futures and asyncio hops (assumed contracts stated in '
             'Comms/Model.lean); RabbitMQ is out of reach offline. The direct-call theorems are close to definitional in the '
             'model; their substance is the twin comparison on the real communicator path. A non-tolerated broadcast exception '
             'ends the modelled run (it is a failing transition hook, C03).',
        technique='Lean 4 invariants over all histories + exhaustive small-scope differential check (<= 2/3 control messages at '
                  'every callback boundary, every tolerated failure class at every transition index) with twin-process monitors',
        design='6/C16'),
}

PENDING_REASON = 'check not built yet in this revision (planned: Lean model + correspondence, see DESIGN.md section 6)'


def main():
    props = [json.loads(l) for l in open(os.path.join(ROOT, 'properties.jsonl'))]
    checks, na = [], []
    for p in props:
        pid = p['id']
        if pid in CLAIMED:
            c = CLAIMED[pid]
            checks.append(dict(
                property_id=pid,
                quick_cmd=f'./check {pid} quick',
                thorough_cmd=f'./check {pid} thorough',
                evidence_file=f'evidence/{pid}.json',
                replay_cmd_template='./check --replay {path}',
                engine='lean4-model+correspondence',
                level_claimed=dict(category='proof', text=c['text'], design_ref=c['design']),
                level_note=BASE_NOTE + c['note'],
                technique=c['technique'],
            ))
        else:
            na.append(dict(property_id=pid, reason=PENDING_REASON))
    manifest = dict(
        version=1,
        setup_cmd='./setup.sh',
        hooks=dict(guard='PLUMPY_VERIF', enable='no source hooks are needed: everything is observed through public API, subclass hooks, '
                   'listeners and a deterministic event loop supplied by the harness',
                   baseline_off_cmd='cd /repo && /venv/bin/python -m pytest -ra -q -p no:cacheprovider --timeout=900 '
                                    '--continue-on-collection-errors', source_commits=[], add_only=True),
        engines=[dict(name='lean4-model+correspondence', path='lean/ + harness/', serves_properties=sorted(CLAIMED),
                      kind_free_text='Lean 4 proofs over an executable model (lake project lean/, native driver pmodel) tied to the '
                                     'source by generated tables and a per-case differential check against the real code')],
        checks=checks,
        notes='Fix commits in /repo (message prefix "fix:") repair genuine defects found by this machinery; see known_findings.json '
              'and DESIGN.md section 9.',
        not_applicable=na,
    )
    with open(os.path.join(ROOT, 'MANIFEST.json'), 'w') as fh:
        json.dump(manifest, fh, indent=1)
    try:
        import jsonschema
        jsonschema.validate(manifest, json.load(open('/root/.vp/MANIFEST.schema.json')))
        print('MANIFEST.json valid;', len(checks), 'checks,', len(na), 'not claimed')
    except ImportError:
        print('MANIFEST.json written (jsonschema not available to validate)')


if __name__ == '__main__':
    main()
