"""Regenerate /verif/MANIFEST.json from the table below (python3 harness/manifest.py) and validate it."""
import json
import os

ROOT = os.path.dirname(os.path.dirname(os.path.abspath(__file__)))

BASE_NOTE = ('Trusted: Lean 4.33 kernel (axioms propext, Classical.choice, Quot.sound only; no sorry/native_decide); the model is '
             'hand-written and tied to /repo by regenerated tables and a differential correspondence check (testing, bounded by '
             'its generators). ')

CLAIMED = {
    'C09': dict(
        text='Lean theorems C09_doStep_refines / C09_chain_refines: for every outline, every oracle of step results and predicate '
             'values and every number of _do_step calls, the stepper model performs exactly the steps of the reference semantics of '
             'structured programs and the result is the return_ code, the stopping value or the last step value. The stepper model '
             'is compared with real WorkChain runs on all outline shapes up to 5 instructions and thousands of random nested ones.',
        note='Modelled, not verified: WorkChain._do_step and the five steppers (hand-written Lean mirror, differential check per '
             'case on the full call trace and result). Process machinery around _do_step is C13/C05.',
        technique='Lean 4 refinement proof (stepper model refines small-step semantics) + differential correspondence on generated outlines',
        design='6/C09'),
    'C11': dict(
        text='Lean theorems C11_accepts_iff / C11_validate_iff / C11_accepts_iff_decl (construction succeeds iff the inputs completed by the declared defaults '
             'conform to the spec, for every nested port tree, every nested input dictionary and every validator oracle), '
             'C11_defaults_exact (the parsed inputs are the raw inputs completed with exactly the declared defaults, per key at every '
             'declared level; C11_supplied_preserved is its path form), C11_frozen_levels (every declared namespace level is a frozen '
             'mapping), C11_reject_classes. The model is compared with real Process construction on every spec with <= 2 ports '
             '(<= 3 thorough) x small inputs and on thousands of random specs with <= 6 ports (accept/reject, exception class, failing '
             'port path, parsed tree with frozen tag per level); independent Python monitors check acceptance, the completed inputs, '
             'immutability by mutation attempts, raw_inputs and the caller\'s dictionary, and that a second construction agrees.',
        note='Modelled, not verified: PortNamespace.pre_process / validate / validate_ports / validate_dynamic_ports, Port.validate, '
             'InputPort.required_override, Process.on_create (hand-written Lean mirror, differential check per case). Non-mutation of '
             'raw_inputs and of the caller\'s dictionary is decided by the correspondence check only. C11_accepts_iff_decl (completion '
             'given by the per-key relation DefaultsExact instead of the model function) assumes validators that cannot tell two '
             'completions of the same inputs apart (key order).',
        technique='Lean 4 proof by mutual structural induction over port trees (model validate = declarative Conforms; pre_process = '
                  'declarative completion) + differential correspondence on generated specs and inputs',
        design='6/C11'),
    'C12': dict(
        text='Lean theorems C12_out_stores_iff (out() succeeds iff the output spec, as extended by earlier calls, accepts (path, value) '
             'and the place is free), C12_out_stored (value found at its path, unrelated paths unchanged, listener told (path, value, '
             'dynamic)), C12_out_failed (outputs and notifications unchanged, ValueError exactly for a rejected value), '
             'C12_successful_iff (FINISHED with the result preserved; successful iff the step result was successful and the outputs '
             'conform), C12_future_reports_outputs (notifications = the calls that returned, outputs = those re-inserted in order = '
             'future result = on_process_finished argument), for every output spec, oracle and emission sequence. Compared with real '
             'runs per emission (outcome class, dynamic flag, notification, outputs, port-name tree of the spec) and at the end.',
        note='Modelled, not verified: Process.out, PortNamespace.get_port(create_dynamically=True), Process.on_finish and the '
             'StateEntryFailed branch of StateMachine.transition_to (hand-written Lean mirror, differential check per emission). '
             'The rest of the state machine around FINISHED is C01/C02.',
        technique='Lean 4 proof (induction over dotted names and emission sequences, reusing the C11 validation theorem) + differential '
                  'correspondence on generated output specs and emission sequences',
        design='6/C12'),
}

PENDING_REASON = 'check not built yet in this revision (planned: Lean model + correspondence, see DESIGN.md section 6)'


def main():
    props = [json.loads(l) for l in open(os.path.join(ROOT, 'properties.jsonl'))]
    checks, na = [], []
    for p in props:
        pid = p['id']
        if pid in CLAIMED:
            c = CLAIMED[pid]
            checks.append(dict(
                property_id=pid,
                quick_cmd=f'./check {pid} quick',
                thorough_cmd=f'./check {pid} thorough',
                evidence_file=f'evidence/{pid}.json',
                replay_cmd_template='./check --replay {path}',
                engine='lean4-model+correspondence',
                level_claimed=dict(category='proof', text=c['text'], design_ref=c['design']),
                level_note=BASE_NOTE + c['note'],
                technique=c['technique'],
            ))
        else:
            na.append(dict(property_id=pid, reason=PENDING_REASON))
    manifest = dict(
        version=1,
        setup_cmd='./setup.sh',
        hooks=dict(guard='PLUMPY_VERIF', enable='no source hooks are needed: everything is observed through public API, subclass hooks, '
                   'listeners and a deterministic event loop supplied by the harness',
                   baseline_off_cmd='cd /repo && /venv/bin/python -m pytest -ra -q -p no:cacheprovider --timeout=900 '
                                    '--continue-on-collection-errors', source_commits=[], add_only=True),
        engines=[dict(name='lean4-model+correspondence', path='lean/ + harness/', serves_properties=sorted(CLAIMED),
                      kind_free_text='Lean 4 proofs over an executable model (lake project lean/, native driver pmodel) tied to the '
                                     'source by generated tables and a per-case differential check against the real code')],
        checks=checks,
        notes='Fix commits in /repo (message prefix "fix:") repair genuine defects found by this machinery; see known_findings.json '
              'and DESIGN.md section 9.',
        not_applicable=na,
    )
    with open(os.path.join(ROOT, 'MANIFEST.json'), 'w') as fh:
        json.dump(manifest, fh, indent=1)
    try:
        import jsonschema
        jsonschema.validate(manifest, json.load(open('/root/.vp/MANIFEST.schema.json')))
        print('MANIFEST.json valid;', len(checks), 'checks,', len(na), 'not claimed')
    except ImportError:
        print('MANIFEST.json written (jsonschema not available to validate)')


if __name__ == '__main__':
    main()
