"""Regenerate /verif/MANIFEST.json from the table below (python3 harness/manifest.py) and validate it."""
import json
import os

ROOT = os.path.dirname(os.path.dirname(os.path.abspath(__file__)))

BASE_NOTE = ('Trusted: Lean 4.33 kernel (axioms propext, Classical.choice, Quot.sound only; no sorry/native_decide); the model is '
             'hand-written and tied to /repo by regenerated tables and a differential correspondence check (testing, bounded by '
             'its generators). ')

CLAIMED = {
    'C09': dict(
        text='Lean theorems C09_doStep_refines / C09_chain_refines: for every outline, every oracle of step results and predicate '
             'values and every number of _do_step calls, the stepper model performs exactly the steps of the reference semantics of '
             'structured programs and the result is the return_ code, the stopping value or the last step value. The stepper model '
             'is compared with real WorkChain runs on all outline shapes up to 5 instructions and thousands of random nested ones.',
        note='Modelled, not verified: WorkChain._do_step and the five steppers (hand-written Lean mirror, differential check per '
             'case on the full call trace and result). Process machinery around _do_step is C13/C05.',
        technique='Lean 4 refinement proof (stepper model refines small-step semantics) + differential correspondence on generated outlines',
        design='6/C09'),
    'C14': dict(
        text='Lean theorems C14_inmem_refines / C14_pickle_refines: for every history of save/load/list/delete operations '
             'interleaved with progress of the live processes, the model of InMemoryPersister (nested dictionaries) and the model of '
             'PicklePersister (directory keyed by pickle_filename, listing by suffix filter, delete ignoring absence) return, operation '
             'by operation, what a map (pid, tag) -> snapshot returns, and stay related to it; corollaries C14_snapshot_immutable_*, '
             'C14_list_exact_*, C14_delete_idempotent_*, C14_delete_local_*, C14_delete_process_exact_* and '
             'C14_observational_equivalence (any history satisfying the side condition). C14_filename_injective is proved from '
             'the side condition (one id kind per history, separator-free string forms) over the file-name templates regenerated '
             'from the source; C14_separator_needed / C14_one_kind_needed show the side condition cannot be dropped. Both models '
             'are compared with the two real persisters (real directory, real stepping processes) after every operation of all '
             'short histories and thousands of random ones, with a full probe of the stored state after each operation.',
        note='Modelled, not verified: the two persister classes (hand-written Lean mirror, differential check per operation); '
             'copy.deepcopy / pickle / the file system are exercised through the real code, a snapshot is an abstract value in the '
             'model. Listings are compared up to order.',
        technique='Lean 4 refinement proof (two persister models refine a map specification, induction over histories) + '
                  'differential correspondence on generated histories against both real persisters',
        design='6/C14'),
}

PENDING_REASON = 'check not built yet in this revision (planned: Lean model + correspondence, see DESIGN.md section 6)'


def main():
    props = [json.loads(l) for l in open(os.path.join(ROOT, 'properties.jsonl'))]
    checks, na = [], []
    for p in props:
        pid = p['id']
        if pid in CLAIMED:
            c = CLAIMED[pid]
            checks.append(dict(
                property_id=pid,
                quick_cmd=f'./check {pid} quick',
                thorough_cmd=f'./check {pid} thorough',
                evidence_file=f'evidence/{pid}.json',
                replay_cmd_template='./check --replay {path}',
                engine='lean4-model+correspondence',
                level_claimed=dict(category='proof', text=c['text'], design_ref=c['design']),
                level_note=BASE_NOTE + c['note'],
                technique=c['technique'],
            ))
        else:
            na.append(dict(property_id=pid, reason=PENDING_REASON))
    manifest = dict(
        version=1,
        setup_cmd='./setup.sh',
        hooks=dict(guard='PLUMPY_VERIF', enable='no source hooks are needed: everything is observed through public API, subclass hooks, '
                   'listeners and a deterministic event loop supplied by the harness',
                   baseline_off_cmd='cd /repo && /venv/bin/python -m pytest -ra -q -p no:cacheprovider --timeout=900 '
                                    '--continue-on-collection-errors', source_commits=[], add_only=True),
        engines=[dict(name='lean4-model+correspondence', path='lean/ + harness/', serves_properties=sorted(CLAIMED),
                      kind_free_text='Lean 4 proofs over an executable model (lake project lean/, native driver pmodel) tied to the '
                                     'source by generated tables and a per-case differential check against the real code')],
        checks=checks,
        notes='Fix commits in /repo (message prefix "fix:") repair genuine defects found by this machinery; see known_findings.json '
              'and DESIGN.md section 9.',
        not_applicable=na,
    )
    with open(os.path.join(ROOT, 'MANIFEST.json'), 'w') as fh:
        json.dump(manifest, fh, indent=1)
    try:
        import jsonschema
        jsonschema.validate(manifest, json.load(open('/root/.vp/MANIFEST.schema.json')))
        print('MANIFEST.json valid;', len(checks), 'checks,', len(na), 'not claimed')
    except ImportError:
        print('MANIFEST.json written (jsonschema not available to validate)')


if __name__ == '__main__':
    main()
