"""Regenerate /verif/MANIFEST.json from the table below (python3 harness/manifest.py) and validate it."""
import json
import os

ROOT = os.path.dirname(os.path.dirname(os.path.abspath(__file__)))

BASE_NOTE = ('Trusted: Lean 4.33 kernel (axioms propext, Classical.choice, Quot.sound only; no sorry/native_decide); the model is '
             'hand-written and tied to /repo by regenerated tables and a differential correspondence check (testing, bounded by '
             'its generators). ')

CLAIMED = {
    'C09': dict(
        text='Lean theorems C09_doStep_refines / C09_chain_refines: for every outline, every oracle of step results and predicate '
             'values and every number of _do_step calls, the stepper model performs exactly the steps of the reference semantics of '
             'structured programs and the result is the return_ code, the stopping value or the last step value. The stepper model '
             'is compared with real WorkChain runs on all outline shapes up to 5 instructions and thousands of random nested ones.',
        note='Modelled, not verified: WorkChain._do_step and the five steppers (hand-written Lean mirror, differential check per '
             'case on the full call trace and result). Process machinery around _do_step is C13/C05.',
        technique='Lean 4 refinement proof (stepper model refines small-step semantics) + differential correspondence on generated outlines',
        design='6/C09'),
    'C20': dict(
        text='Lean theorems over an executable model of the future adapters (heap of future cells with done-callbacks, concurrent '
             'futures invoking callbacks inline, asyncio futures scheduling them): C20_unwrap_innermost, C20_mirror_faithful, '
             'C20_schedule_rpc_unwraps (every nesting depth by induction, every terminal outcome, every order of completions and '
             'loop callbacks: the adapter future holds exactly the innermost outcome once all levels are complete, is pending '
             'before, is set exactly once and no InvalidStateError escapes), C20_create_task_captures, C20_action_runs_at_most_once, '
             'C20_action_refuses_rerun_and_after_cancel, C20_action_reports_through_itself, C20_done_is_final. The model is compared '
             'operation by operation with the real adapters on real kiwipy/asyncio futures across a loop thread and a '
             'communicator thread: all chains of depth <= 4 (quick) / 6 (thorough) x 3 outcomes x all completion orders.',
        note='Modelled, not verified: asyncio / concurrent.futures (contract stated at the top of Futures/Model.lean), cross-thread '
             'delivery (interleaving semantics: operations are atomic with respect to the loop thread), LocalCommunicator. '
             'Exceptions are `Exception`s; chains are acyclic; the consumer does not set the adapter future.',
        technique='Lean 4 invariant proofs by induction on nesting depth and on the event sequence + differential correspondence on '
                  'enumerated chains, orders and random operation sequences',
        design='6/C20'),
}

PENDING_REASON = 'check not built yet in this revision (planned: Lean model + correspondence, see DESIGN.md section 6)'


def main():
    props = [json.loads(l) for l in open(os.path.join(ROOT, 'properties.jsonl'))]
    checks, na = [], []
    for p in props:
        pid = p['id']
        if pid in CLAIMED:
            c = CLAIMED[pid]
            checks.append(dict(
                property_id=pid,
                quick_cmd=f'./check {pid} quick',
                thorough_cmd=f'./check {pid} thorough',
                evidence_file=f'evidence/{pid}.json',
                replay_cmd_template='./check --replay {path}',
                engine='lean4-model+correspondence',
                level_claimed=dict(category='proof', text=c['text'], design_ref=c['design']),
                level_note=BASE_NOTE + c['note'],
                technique=c['technique'],
            ))
        else:
            na.append(dict(property_id=pid, reason=PENDING_REASON))
    manifest = dict(
        version=1,
        setup_cmd='./setup.sh',
        hooks=dict(guard='PLUMPY_VERIF', enable='no source hooks are needed: everything is observed through public API, subclass hooks, '
                   'listeners and a deterministic event loop supplied by the harness',
                   baseline_off_cmd='cd /repo && /venv/bin/python -m pytest -ra -q -p no:cacheprovider --timeout=900 '
                                    '--continue-on-collection-errors', source_commits=[], add_only=True),
        engines=[dict(name='lean4-model+correspondence', path='lean/ + harness/', serves_properties=sorted(CLAIMED),
                      kind_free_text='Lean 4 proofs over an executable model (lake project lean/, native driver pmodel) tied to the '
                                     'source by generated tables and a per-case differential check against the real code')],
        checks=checks,
        notes='Fix commits in /repo (message prefix "fix:") repair genuine defects found by this machinery; see known_findings.json '
              'and DESIGN.md section 9.',
        not_applicable=na,
    )
    with open(os.path.join(ROOT, 'MANIFEST.json'), 'w') as fh:
        json.dump(manifest, fh, indent=1)
    try:
        import jsonschema
        jsonschema.validate(manifest, json.load(open('/root/.vp/MANIFEST.schema.json')))
        print('MANIFEST.json valid;', len(checks), 'checks,', len(na), 'not claimed')
    except ImportError:
        print('MANIFEST.json written (jsonschema not available to validate)')


if __name__ == '__main__':
    main()
