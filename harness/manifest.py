"""Regenerate /verif/MANIFEST.json from the table below (python3 harness/manifest.py) and validate it."""
import json
import os

ROOT = os.path.dirname(os.path.dirname(os.path.abspath(__file__)))

BASE_NOTE = ('Trusted: Lean 4.33 kernel (axioms propext, Classical.choice, Quot.sound only; no sorry/native_decide); the model is '
             'hand-written and tied to /repo by regenerated tables and a differential correspondence check (testing, bounded by '
             'its generators). ')

CLAIMED = {
    'C09': dict(
        text='Lean theorems C09_doStep_refines / C09_chain_refines: for every outline, every oracle of step results and predicate '
             'values and every number of _do_step calls, the stepper model performs exactly the steps of the reference semantics of '
             'structured programs and the result is the return_ code, the stopping value or the last step value. The stepper model '
             'is compared with real WorkChain runs on all outline shapes up to 5 instructions and thousands of random nested ones.',
        note='Modelled, not verified: WorkChain._do_step and the five steppers (hand-written Lean mirror, differential check per '
             'case on the full call trace and result). Process machinery around _do_step is C13/C05.',
        technique='Lean 4 refinement proof (stepper model refines small-step semantics) + differential correspondence on generated outlines',
        design='6/C09'),
    'C16': dict(
        text='Lean theorems over the communication model (message_receive / broadcast_receive dispatch from the tables found in '
             'the source, _schedule_rpc as a scheduled callback, subscriptions removed by the cleanups of close, on_entered '
             'broadcasting under an oracle per transition index) layered on the process-control model: C16_rpc_is_direct_call, '
             'C16_broadcast_is_direct_call, C16_status_is_direct_call (configuration and reply after the scheduled callback = '
             'those of the direct call at that point); C16_broadcast_log_exact (for every history the broadcasts are exactly one '
             'state_changed.<from>.<to> per entry of the entered log, in order, sent by the pid); C16_tolerated_failure_invisible '
             '(for every transition index and tolerated kind every observation equals the failure-free run, the log misses that '
             'entry); C16_unsubscribed_after_termination; C16_unknown_intent_rejected. The model is compared op by op with real '
             'processes controlled through RemoteProcessThreadController -> LoopCommunicator -> in-process kiwipy communicator, '
             'and independent monitors compare every such run with a twin process receiving direct calls where the handlers ran.',
        note='Modelled, not verified: kiwipy LocalCommunicator/futures and asyncio hops (assumed contracts stated in '
             'Comms/Model.lean); RabbitMQ is out of reach offline. The direct-call theorems are close to definitional in the '
             'model; their substance is the twin comparison on the real communicator path. A non-tolerated broadcast exception '
             'ends the modelled run (it is a failing transition hook, C03).',
        technique='Lean 4 invariants over all histories + exhaustive small-scope differential check (<= 2/3 control messages at '
                  'every callback boundary, every tolerated failure class at every transition index) with twin-process monitors',
        design='6/C16'),
    'C19': dict(
        text='Lean theorems C19_members_roundtrip (+ _global, _persave), C19_autopersist_inherit_independent (+ _shared_leaks), '
             'C19_future_state_restored, C19_loader_precedence, C19_unknown_class_valueerror (+ C19_loaded_class_is_resolved): '
             'for every class family reachable by any sequence of decorator / classmethod declarations, every object tree of any '
             'nesting depth (structural induction), every member kind and future state and every loader configuration, '
             'load(save(o)) restores every declared member; a child\'s declarations reach the parent exactly when the '
             'classmethod is used on a class that only inherits its set; the class is resolved by context loader > recorded '
             'loader > global default; an unknown class or recorded loader is a ValueError and a returned object is always an '
             'instance of the class the loader resolved. The model is compared with the real Savable/SavableFuture/loaders code on '
             'all 64 loader configurations x 6 tamperings x member kinds, all declaration sequences up to length 2-3 and '
             'thousands of random families and object trees, with the original mutated after save.',
        note='Modelled, not verified: Savable.save/save_members/load/recreate_from/load_members/_get_value, '
             '_ensure_object_loader, the auto_persist decorator and classmethod, SavableFuture (hand-written Lean mirror, '
             'differential check per case); copy.deepcopy and asyncio.Future by contract. Copy-at-save is value semantics in the '
             'model and is decided by the differential check (mutation after save), not by a theorem.',
        technique='Lean 4 structural induction over nested object trees + ownership invariant of the set heap + differential '
                  'correspondence on generated class families with in-process custom loaders',
        design='6/C19'),
    'C20': dict(
        text='Lean theorems over an executable model of the future adapters (heap of future cells with done-callbacks, concurrent '
             'futures invoking callbacks inline, asyncio futures scheduling them): C20_unwrap_innermost, C20_mirror_faithful, '
             'C20_schedule_rpc_unwraps (every nesting depth by induction, every terminal outcome, every order of completions and '
             'loop callbacks: the adapter future holds exactly the innermost outcome once all levels are complete, is pending '
             'before, is set exactly once and no InvalidStateError escapes), C20_create_task_captures, C20_action_runs_at_most_once, '
             'C20_action_refuses_rerun_and_after_cancel, C20_action_reports_through_itself, C20_done_is_final. The model is compared '
             'operation by operation with the real adapters on real kiwipy/asyncio futures across a loop thread and a '
             'communicator thread: all chains of depth <= 4 (quick) / 6 (thorough) x 3 outcomes x all completion orders.',
        note='Modelled, not verified: asyncio / concurrent.futures (contract stated at the top of Futures/Model.lean), cross-thread '
             'delivery (interleaving semantics: operations are atomic with respect to the loop thread), LocalCommunicator. '
             'Exceptions are `Exception`s; chains are acyclic; the consumer does not set the adapter future.',
        technique='Lean 4 invariant proofs by induction on nesting depth and on the event sequence + differential correspondence on '
                  'enumerated chains, orders and random operation sequences',
        design='6/C20'),
    'C17': dict(
        text='Lean theorems over the launcher model (Launcher.call = ProcessLauncher.__call__, launch/continue_/create), for every '
             'configuration, loader tables, process runtime, persister content and task body, hence at every point of every history '
             '(C17_history_step): C17_unknown_task_rejected, C17_persist_without_persister_rejected, '
             'C17_continue_without_persister_rejected, C17_refused_task_is_inert (a rejected or failed task changes nothing and runs '
             'nothing), C17_create_does_not_run, C17_launch_persists_first (the initial checkpoint is saved before the run), '
             'C17_continue_uses_requested_tag (+ depends only on that entry), C17_nowait_returns_pid, C17_reply_is_outputs_or_error, '
             'C17_configured_loader_used, C17_history_without_persister, C17_create_then_continue (execute_process). The dispatch chain, '
             'keyword signatures and body keys are generated from the source (C17_tables, C17_bodies_bind). The model is compared with '
             'the real ProcessLauncher on tens of thousands of task histories (direct call and controller->LocalCommunicator path).',
        note='Modelled, not verified: ProcessLauncher.__call__/_launch/_continue/_create (hand-written Lean mirror, differential check '
             'per task on reply, persister keys and per-process step trace before/after the reply); persisters (C14), Process '
             'stepping and save/load (C01-C08) are oracles of the model, exercised through the real code.',
        technique='Lean 4 proofs of the decision logic over an executable launcher model + differential correspondence on generated '
                  'task histories with independent Python monitors',
        design='6/C17'),
    'C11': dict(
        text='Lean theorems C11_accepts_iff / C11_validate_iff / C11_accepts_iff_decl (construction succeeds iff the inputs completed by the declared defaults '
             'conform to the spec, for every nested port tree, every nested input dictionary and every validator oracle), '
             'C11_defaults_exact (the parsed inputs are the raw inputs completed with exactly the declared defaults, per key at every '
             'declared level; C11_supplied_preserved is its path form), C11_frozen_levels (every declared namespace level is a frozen '
             'mapping), C11_reject_classes. The model is compared with real Process construction on every spec with <= 2 ports '
             '(<= 3 thorough) x small inputs and on thousands of random specs with <= 6 ports (accept/reject, exception class, failing '
             'port path, parsed tree with frozen tag per level); independent Python monitors check acceptance, the completed inputs, '
             'immutability by mutation attempts, raw_inputs and the caller\'s dictionary, and that a second construction agrees.',
        note='Modelled, not verified: PortNamespace.pre_process / validate / validate_ports / validate_dynamic_ports, Port.validate, '
             'InputPort.required_override, Process.on_create (hand-written Lean mirror, differential check per case). Non-mutation of '
             'raw_inputs and of the caller\'s dictionary is decided by the correspondence check only. C11_accepts_iff_decl (completion '
             'given by the per-key relation DefaultsExact instead of the model function) assumes validators that cannot tell two '
             'completions of the same inputs apart (key order).',
        technique='Lean 4 proof by mutual structural induction over port trees (model validate = declarative Conforms; pre_process = '
                  'declarative completion) + differential correspondence on generated specs and inputs',
        design='6/C11'),
    'C12': dict(
        text='Lean theorems C12_out_stores_iff (out() succeeds iff the output spec, as extended by earlier calls, accepts (path, value) '
             'and the place is free), C12_out_stored (value found at its path, unrelated paths unchanged, listener told (path, value, '
             'dynamic)), C12_out_failed (outputs and notifications unchanged, ValueError exactly for a rejected value), '
             'C12_out_place_taken (spec accepts and out() raises: a value that is not a plain dict - an atom or an emitted immutable mapping - '
             'sits on the way, TypeError exactly at the namespace, AttributeError above it), C12_immutable_is_value (nothing is ever stored '
             'below an emitted immutable mapping, and it stays as emitted until overwritten), '
             'C12_successful_iff (FINISHED with the result preserved; successful iff the step result was successful and the outputs '
             'conform), C12_future_reports_outputs (notifications = the calls that returned, outputs = those re-inserted in order = '
             'future result = on_process_finished argument), for every output spec, oracle and emission sequence. Compared with real '
             'runs per emission (outcome class, dynamic flag, notification, outputs, port-name tree of the spec) and at the end.',
        note='Modelled, not verified: Process.out, PortNamespace.get_port(create_dynamically=True), Process.on_finish and the '
             'StateEntryFailed branch of StateMachine.transition_to (hand-written Lean mirror, differential check per emission). '
             'The rest of the state machine around FINISHED is C01/C02. Implementation-only (tests): emission from an on_finish override; '
             'a spec whose PORT_NAMESPACE_TYPE is a stricter PortNamespace subclass (the model has one namespace class).',
        technique='Lean 4 proof (induction over dotted names and emission sequences, reusing the C11 validation theorem) + differential '
                  'correspondence on generated output specs and emission sequences',
        design='6/C12'),
    'C14': dict(
        text='Lean theorems C14_inmem_refines / C14_pickle_refines: for every history of save/load/list/delete operations '
             'interleaved with progress of the live processes, the model of InMemoryPersister (nested dictionaries) and the model of '
             'PicklePersister (directory keyed by pickle_filename, listing by suffix filter, delete ignoring absence) return, operation '
             'by operation, what a map (pid, tag) -> snapshot returns, and stay related to it; corollaries C14_snapshot_immutable_*, '
             'C14_list_exact_*, C14_delete_idempotent_*, C14_delete_local_*, C14_delete_process_exact_* and '
             'C14_observational_equivalence (any history satisfying the side condition). C14_filename_injective is proved from '
             'the side condition (one id kind per history, separator-free string forms) over the file-name templates regenerated '
             'from the source; C14_separator_needed / C14_one_kind_needed show the side condition cannot be dropped. Both models '
             'are compared with the two real persisters (real directory, real stepping processes) after every operation of all '
             'short histories and thousands of random ones, with a full probe of the stored state after each operation.',
        note='Modelled, not verified: the two persister classes (hand-written Lean mirror, differential check per operation); '
             'copy.deepcopy / pickle / the file system are exercised through the real code, a snapshot is an abstract value in the '
             'model. Listings are compared up to order.',
        technique='Lean 4 refinement proof (two persister models refine a map specification, induction over histories) + '
                  'differential correspondence on generated histories against both real persisters',
        design='6/C14'),
    'C18': dict(
        text='Lean theorems over the process-stack model (tasks with context-local stacks, _process_scope, _run_task, call_soon, '
             'launch, re-entrant execute(), kill of a waiting process, children awaited inline in the awaiting task, steps left through '
             'a BaseException, cancellation of a task at its await point, callbacks scheduled on another process (the creator of the '
             'running one), callbacks that raise and the callback_excepted hook that then runs after their scope), for every scenario and every order of ticks of any number of '
             'tasks, children and nested executions: C18_current_in_scope (inside step functions, continuations, after every await, '
             'in scheduled callbacks and output hooks, current() is the owning process), C18_scope_restores_self / _others / '
             'C18_scope_restores (a scope exit restores the task\'s stack; code of one task never changes what another task '
             'observes), C18_scope_restores_however_left / C18_inline_await_restores / C18_unwind_well_scoped / '
             'C18_finished_task_left_every_scope (the same when the scope is left by an Interruption, a BaseException or a cancellation, '
             'at any depth of inline awaits; the awaiting code carries on on the stack it had), C18_callback_on_creator_in_scope / '
             'C18_callback_task_inherits_scheduling_context / C18_callback_excepted_sees_previous (a callback runs with the process it was '
             'scheduled on current, on top of the stack of the code that scheduled it, whoever that was; what runs in its task after its '
             'scope observes exactly what the scheduling code observed), C18_scope_assertion_never_fails. The hook clause of the property is NOT proved: it is false of the code '
             '(lifecycle hooks fired by transition_to, the constructor and close(), and callback_excepted, run outside _process_scope) and is a recorded '
             'finding F14 (C18_witness_hook_outside_scope, C18_full_false; the check prints KNOWN-FINDING); the proved statement is '
             'C18_current_in_scope_partial, whose only extra hypothesis is "not a lifecycle hook". The model is compared with real '
             'generated Process classes after every event-loop callback (outermost and nested loops), over all interleavings of small '
             'scenarios and random schedules of random ones.',
        note='Modelled, not verified: contextvars context copy at task creation, asyncio scheduling, nest_asyncio re-entrancy '
             '(assumed contracts stated in the model, exercised through the real libraries); Process.step/transition_to hook order '
             '(hand-written mirror, differential check on every sample of Process.current() and PROCESS_STACK). pause/play and '
             'the fail() that the default callback_excepted performs are outside this model (C03-C05: the generated classes override that hook to '
             'sample only); cancelling a task that is itself inside a nested execute() is not '
             'modelled (it is running, not suspended).',
        technique='Lean 4 invariant proof over an interleaving task/stack machine + differential correspondence on a deterministic '
                  're-entrant event loop',
        design='6/C18'),
}

PM_NOTE = ('Modelled, not verified: Process.step / step_until_terminated / pause / play / kill / resume / fail / call_soon / '
           'transition_to / Waiting / the workchain awaitables as the hand-written Lean model PMF, compared with real plumpy '
           'after EVERY op on a deterministic one-callback-at-a-time asyncio loop (all placements of <= K requests over a program '
           'corpus + random programs); asyncio itself, kiwipy and contextvars are trusted. User step functions are oracles. '
           'Control requests issued from INSIDE listener notifications and state-event callbacks (during transitions, during the '
           'enactment of a pending request) are modelled by PMF.L (lean/PlumpyModel/PM/Listener.lean: the same functions with an '
           'oracle plan consulted at every notification point) and compared after every op through `pmodel pml` on every case of '
           'the listener stream. With the empty plan PMF.L is PMF: theorem C01_listener_conservative_proved (every field of the '
           'configuration, every return value, every history); the model-vs-model twin stream checks the same on the compiled drivers.')


def pm(text, technique='Lean 4 invariant proofs over the process-control model (induction over arbitrary event histories) + '
                       'per-op differential correspondence on exhaustively enumerated small schedules', design='5, 6'):
    return dict(text=text, note=PM_NOTE, technique=technique, design=design)


CLAIMED.update({
    'C01': pm('Theorems C01_graph_is_documented (the ALLOWED sets generated from the source equal the documented graph), '
              'C01_edges_documented (for every program and every history of ticks and requests the entered-state log is a path of '
              'that graph) and C01_terminal_states_final (from any terminal configuration no history changes state or log). '
              'With requests issued by listeners / state-event callbacks during transitions (model PMF.L): '
              'C01_listener_edges_documented, C01_listener_terminal_states_final, C01_listener_terminal_transition_completes. '
              'The two models are tied by a theorem: C01_listener_conservative_proved / C01_listener_conservative_returns (with the '
              'empty plan the run of PMF.L carries, after every history, exactly the configuration of PMF and every event returns '
              'the same value), resting on C01_pending_pause_is_recorded (invariant of the ORIGINAL model: a pending pause action '
              'in the interrupt slot is the one recorded in _pausing, so the "retracted while transitioning" test and the '
              'conditional set_result of the real CancellableAction.run, absent from the original runAction, are unobservable '
              'without listeners) and C01_listener_stepping_is_executing. '
              'The Python monitor checks the same two clauses on every explored real run.'),
    'C02': pm('Theorems C02_outcome_agrees / C02_nothing_reported_while_live / C02_future_resolved_iff_terminated (and, with requests '
              'issued by listeners during transitions, C02_listener_outcome_agrees / C02_listener_nothing_reported_while_live): for every history, '
              'terminal <=> future resolved, with exactly the outcome of the state object, closed, cleanups run once, one terminal '
              'notification; while live nothing is reported. "step_until_terminated() returns": C02_stepper_returns (for every program '
              'and every history, in a terminated configuration finitely many wake-ups of the stepping task end it normally), from '
              'the linking invariant Inv10 over all reachable configurations (PM/Proof10.lean): C02_stepper_never_crashes, '
              'C02_waiting_stepper_is_released, C02_paused_stepper_is_released; plus the configuration-level '
              'C02_stepper_returns_partial and the release lemmas C02_termination_releases_pause / '
              'C02_leaving_waiting_completes_wait. The same with requests issued by listeners / state-event callbacks during '
              'transitions (model PMF.L, every program, plan and history; the linking invariant lifted as Inv10L, PM/LProof16-18): '
              'C02_listener_stepper_returns, C02_listener_stepper_never_crashes, C02_listener_waiting_stepper_is_released, '
              'C02_listener_paused_stepper_is_released, and C02_listener_closing_loop_ends (the while loop of the closing part of '
              'step() is never stopped by the bound of the model: it ends because nothing is left to enact). '
              'The correspondence (task status compared after every op) and the monitor tie '
              'the model to the code.'),
    'C04': pm('Theorems C04_kill_total, C04_kill_when_idle, C04_kill_committed (after kill() handed back an action, every further '
              'history leaves the process KILLED, EXCEPTED or with that kill still the pending interrupt action), '
              'C04_end_of_step_kills, C04_pause_keeps_kill, C04_second_kill_same_action, C04_no_stale_killing and '
              'C04_always_killable (from EVERY reachable live configuration a further kill() kills at once or is the pending kill of '
              'the step in flight). The monitor additionally checks the result of kill(), the kill text, future cancellation, that no '
              'step function starts after the request, that a failed step excepts, and requests issued from listener notifications. '
              'Requests made DURING transitions by listeners / state-event callbacks (model PMF.L, every program, plan, history): '
              'C04_listener_no_stale_killing (invariant KJ in every reachable configuration), C04_listener_kill_committed (a kill() '
              'issued by a listener on a live process, inside or outside a step, also while a pause is being enacted, has left the '
              'process KILLED / EXCEPTED or is the pending interrupt action of the step in flight), '
              'C04_listener_kill_effective_between_steps, C04_listener_pending_kill_enacted and C04_listener_kill_enacted (it is '
              'enacted when the closing part of the step returns), C04_listener_nothing_left_pending (the finally of step() cancels '
              'nothing a listener asked for on a live process). '
              'Processes LOADED FROM A CHECKPOINT (restoreCfgN m b = the instance load_instance_state + init() build from a bundle, '
              'lean/PlumpyModel/Persist/Plain.lean + Reload.lean; every program, every bundle b — in particular saveCfg of a reachable '
              'configuration at a step boundary —, every history of events applied to the restored instance): '
              'C04_restored_kill_committed, C04_restored_no_stale_killing, C04_restored_always_killable / '
              'C04_checkpointed_process_killable (the three theorems above with the restored configuration as base case), '
              'C04_restored_future_has_kill_hook (a pending process future carries try_killing, not yet scheduled: invariant FutHook), '
              'C04_restored_cancel_is_kill (future().cancel() then the try_killing callback yields the configuration of kill(), every '
              'field except the future object and the handed-out action futures), C04_restored_cancel_kills (the scheduled callback '
              'survives any history and kills whenever it runs on a live process; the kill then survives every further history); '
              'the same two cancellation theorems for never-checkpointed processes (C04_future_has_kill_hook, C04_cancel_is_kill). '
              'Tie: every case of the restored-kill stream (bundle at an entered-state event / between two callbacks after a '
              'pause; kill or cancel after 0..2 callbacks) is sent through `pmodel pmr` and the restored process compared after the '
              'restore, after every op and at quiescence.'),
    'C05': pm('Theorems C05_nothing_runs_while_paused (no activation in any history starts with paused = true), C05_pause_total, '
              'C05_play_total, C05_play_unpauses, C05_play_cancels_pending_pause, C05_status_restored (status model). With requests made by '
              'listeners during transitions (model PMF.L): C05_listener_nothing_runs_while_paused (every program, plan, history), '
              'C05_listener_no_stale_interruption, C05_listener_new_wait_not_interrupted, C05_listener_play_unpauses, '
              'C05_listener_requests_deferred, C05_listener_play_retracts. Transparency is '
              'a theorem for a class of histories: C05_transparent_partial (simulation between the run with pause/play requests and '
              'the run of its reference history = the same history without pause/play and without the ticks spent suspended on a '
              'pause future), C05_same_result_partial (when the run with pauses has terminated, the run without any pause/play has '
              'terminated in the same state object with the same trace of step functions and arguments, context, future, logs), '
              'C05_same_point_when_quiet_partial, C05_reference_history_is_erasure; for every program and every history of ticks, '
              'pause and play anywhere, and resume / awaitable completion / awaitable-done / call_soon events while no pause is in effect; '
              'hypothesis: no tick of the reference run exhausts the fuel of the model loop. Three larger nested classes with their '
              'same_result / never_ahead corollaries: C05_transparent_partial2 (wake-ups also while held on a wait), _partial3 (also on a '
              'wait interrupted by a pause request), _partial4 (also - resume, call_soon, non-raising callbacks, completion of futures the '
              'state just left did not await - while held at a step boundary in CREATED or RUNNING; the reference history defers the tick '
              'that preceded the hold, C05_reference_history4: the requests other than ticks keep their order); the unrestricted '
              'C05_transparent_full is refuted on the model for programs awaiting one future under two keys (C05_transparent_full_false), '
              'the corrected def C05_transparent_full_distinct is open. The remaining interleavings (completion of a just-awaited future '
              'or a done-callback while held at such a boundary), histories with kill / fail / cancel / failing callbacks and outputs are '
              'decided by the correspondence and the monitor c05-transparent against the uninterrupted run of the same program.'),
    'C06': pm('History level, for every program and every history in which no callback of the stepping task runs out of the model\'s '
              'fuel (H6.histFuelOk: < 1000 synchronous steps in one callback; C06_witness_fuel_exhaustion / C06_first_resume_wins_full_is_false show the '
              'hypothesis is needed in the model): C06_delivery (in every reachable configuration whose WAITING state holds an outcome v - in its '
              'future or parked - and that is playing with no pause/kill request pending, ONE more callback of the stepping task '
              'activates the continuation with exactly v\'s arguments: never WAITING for ever), C06_first_resume_wins (after an '
              'accepted resume(v), whatever follows - later resumes, pause/play, interruptions re-arming the wait, kill, fail, '
              'awaitable callbacks - the first activation logged is the continuation with v; until then the process still holds v, '
              'or is RUNNING the continuation not yet activated, or terminated) and C06_no_activation_while_waiting_empty (without a '
              'delivery nothing is activated). Invariants Coh / Deliv / Unres in PM/Proof11*.lean. Plus the protocol theorems for '
              'every configuration: C06_resume_accepted, C06_resume_parked, C06_later_resume_ignored, C06_parked_not_overwritten, '
              'C06_wake_rearms, C06_retracted_pause_keeps_wakeup. The workchain clause (each awaited result in the context) is C10; '
              'no_loop_errors is decided by the correspondence and the monitor.'),
    'C10': pm('History level, for every program whose ToContexts name distinct futures (B10.AwDistinct: the awaiting map is a dict), every '
              'number of futures and every history that is well formed (B10.histOk: a resume() only while the current state awaits '
              'nothing, completions carry an outcome) and in which no callback runs out of the model\'s fuel (H6.histFuelOk, as for C06): '
              'C10_next_step_finds_every_result (split the history where the chain is WAITING on aw0 with nothing delivered; the first '
              'event that logs an activation afterwards is a tick of the stepping task, the first activation it logs is the '
              'continuation of that wait, that tick does not touch the context, and for every awaitable (f, k) of aw0 the future '
              'completed with a result and the context maps k to it - to the one processed last if several futures share the key), '
              'C10_next_step_finds_result_under_its_key (a key given to one future is mapped to exactly its result: an earlier value '
              'under that key has been replaced), C10_context_is_a_map / C10_ctx_lookup (context keys are distinct in every reachable '
              'configuration, no hypothesis), C10_failed_item_never_activates (after the done-callback of an awaited future that failed '
              'with e - a killed child is exc KilledError - processed first, no activation is ever logged again and the process holds e '
              'or has terminated, whatever follows), C10_held_failure_excepts (a held failure e ends a playing process EXCEPTED with '
              'exactly e at the next tick, no activation). C10_barrier (no resume) and C10_barrier_resume_ok (harmless resumes) over '
              'whole histories: the wait holds or has parked a result only when nothing is awaited any more. Every hypothesis is shown '
              'necessary in the model by a witness: C10_witness_resume_bypasses_barrier / C10_barrier_full_is_false / '
              'C10_next_step_full_is_false (resume() on a work chain completes the wait whatever is awaited - the library does the '
              'same), C10_witness_duplicate_future, C10_witness_pending_completion, C10_witness_fuel_exhaustion (model artefacts). '
              'Helper invariants: B10.G (no stale done-callbacks), B10.Bar (phases of one wait) in PM/Proof13*.lean. Plus the mechanism '
              'theorems C10_done_stores_and_waits, C10_last_done_completes, C10_failed_item_fails_wait, C10_failed_wait_excepts. Both '
              'registration styles, killed children launched for real and no_loop_errors are decided by the correspondence and the monitor.'),
    'C13': pm('Theorems C13_activation_exact, C13_continue_exact, C13_wait_resume_exact, C13_stop_exact, C13_kill_command, '
              'C13_raise_excepts: for every configuration in which a step ends undisturbed, the next state / activation is exactly '
              'what the returned command says, with exact positional and keyword arguments. Restoring from a checkpoint between '
              'steps is covered by C08.'),
})

CLAIMED['C15'] = dict(
    text='Theorem C15_selection_exact: for every source port tree and every rule sets (exclude arbitrary, include without ancestor '
         'pairs) the leaves copied by the absorb model are exactly those selected under component-wise path matching, in order; '
         'C15_sibling_with_shared_prefix_not_selected; C15_include_exclude_rejected. Full model of the whole call '
         'ProcessSpec._expose_ports (create_port_namespace + absorb) on port objects with identities, namespace properties, dict '
         'assignment and an allocation counter, for every source tree, destination tree, rule sets, target path and options: '
         'C15_full_placement_selection (the target namespace afterwards is the namespace create_port_namespace returned, same '
         'identity, old keys in place, overloaded properties, its dict updated with a dict of copies whose leaves are exactly the '
         'selected ones), C15_full_copy_mirrors_source / C15_full_nested_props_unchanged (attributes and properties of the '
         'copies at every depth), C15_full_overloaded_props, C15_full_target_existing_or_new, C15_full_copies_fresh, '
         'C15_full_frame and C15_full_destination_kept (other ports are the same objects with the same contents), '
         'C15_full_independent and C15_full_seq_invariant (source and destination share no object; invariant over sequences '
         'of calls, returning or raising), C15_full_guard_rejects_unchanged, C15_full_include_exclude_rejected, '
         'C15_full_unknown_option_rejected, C15_full_options_accepted_iff, C15_full_rejected_adds_no_port (a rejected call adds '
         'and removes no port; it may leave empty namespaces on the target path and overloaded target properties, as the real '
         'code does). The full model is compared with the real expose_inputs / expose_outputs object by object (identity by '
         '`is`) after every call of generated sequences of calls.',
    note='Modelled, not verified: PortNamespace.absorb / strip_namespace / create_port_namespace / __setitem__ / '
         'valid_type.setter and ProcessSpec._expose_ports (hand-written Lean mirror, differential check per call); copy.copy / '
         'copy.deepcopy are represented by their contract (fresh identity, same property values / equal attributes). Property '
         'VALUES are atoms: a value object shared by reference between a source namespace and its copy is outside the model.',
    technique='Lean 4 structural-induction proofs (selection rule; walk of the target path; loop of absorb as copies + dict '
              'assignment; allocation-counter invariant) + differential correspondence on objects and mutate-after probes on real specs',
    design='6/C15')

CLAIMED['C03'] = dict(
    text='Whole runs with one injected fault (process-control model with listeners + user overrides in every lifecycle hook, '
         'lean/PlumpyModel/Fault/Process.lean): C03_hook_fault_ends_excepted — for every program, plan of listener requests, history and '
         'every fault in on_exit_*/on_run/on_wait/on_finish/on_kill/on_running/…/on_terminated/on_close (any occurrence, before/after '
         'super()) except the two points after close() (F18, C03_witness_fault_after_close / _run): once the fault has fired the process '
         'is EXCEPTED with exactly it, future raising it, closed, cleanups once, no transition in progress, in every later configuration '
         '(for on_terminated/on_close under the hypothesis that the run did not end in an error of the state machine itself); '
         'C03_fault_never_breaks_agreement / C03_pause_play_fault_never_disturbs (no fault, pause/play hooks included, ever disturbs the '
         'lifecycle part of the outcome agreement); C03_transition_with_fault (nothing propagates out of the faulty transition_to, from '
         'every configuration, every pending or listener-issued request); C03_step_with_fault; C03_pausing_hook_fault_reported, '
         'C03_paused_hook_fault_after_super, C03_pause_action_fault_reported, C03_playing_hook_fault_reported (handed to the requester / '
         'the action future, _pausing cleared, state untouched). Faults that are not lifecycle hooks, on the model with listeners itself: '
         'C03_raising_step_excepted (EXCEPTED with the exception, future, closed, cleanups once, listeners told once, pending request '
         'dropped, step_until_terminated returned), C03_raising_sync_step_excepted, C03_failing_callback_excepted, '
         'C03_late_failing_callback_changes_nothing; C03_swallowed_exceptions_change_nothing (listeners, cleanups: all run, nothing '
         'propagates), C03_construction_fault_propagates, C03_output_hook_fault. Kept from before: the complete finite case space of one '
         'transition (C03_hook_fault_excepted, …). C03_stepper_returns_after_hook_fault_partial (the stepping task returns normally after a fault in '
         'any of ten transition hooks, for every program, plan and history; from the linking invariant Inv10 carried through every twin, '
         'C03_hook_fault_never_reaches_the_stepping_task), C03_stepper_returns_configuration. '
         'C03_stepper_returns_after_hook_fault_proved: the full statement (def C03_stepper_returns_after_hook_fault), all twelve '
         'transition hooks, on_terminated / on_close included, under the hypothesis of C03_hook_fault_ends_excepted that the run did not '
         'end in an error of the state machine itself (C03_terminated_with_fault_stays: that alternative is absorbing; '
         'C03_hook_fault_never_reaches_the_stepping_task_any_hook). Every case of the fault enumeration on the real code (every hook x occurrence x variant x scenario, listeners, '
         'cleanups, call_soon, steps, output hooks, construction, requests issued by listeners) is compared with the model after every op.',
    note='Modelled, not verified: Process.step / pause / play / kill / fail / transition_to / transition_failed / on_terminated / close / '
         '_do_pause / CancellableAction.run / call_with_super_check with user overrides of every hook (hand-written twins of '
         'PM/Listener.lean, compared op by op with the real run of every case); EventHelper.fire_event, the cleanup loop, '
         'StateMachineMeta.__call__, Process.out as small models. That the twins agree with PM/Listener.lean while the fault has not fired '
         'is tested, not proved. Known finding F18 is reported as KNOWN-FINDING, any other failure is a violation. The three '
         'defects this model exposed (F28 superseded pause action, F29 call_with_super_check, F30 failed exit hook) are repaired '
         '(e94edb5, 6c8055d, a130f23); the model follows the repaired code and their cases are part of the enumeration.',
    technique='Lean 4 invariant proof over all histories of a process-control model with one injected fault (one lemma per model '
              'function, induction over events) + exhaustive case proofs over the transition model + fault enumeration on the real code '
              'compared op by op with the model',
    design='6/C03')

CLAIMED['C07'] = dict(
    text='Theorems C07_load_save (load (save v) = v for every savable persisted view, with the default or a custom object loader, '
         'whether or not the load is given the loader, through each of the three media), C07_save_load_save (saving the loaded '
         'process gives the identical bundle), C07_load_observes (pid, state, inputs, outputs, context, status, paused flag, creation '
         'time, outcome are functions of the restored view) and C07_members_cover (the member sets and hand-written keys generated '
         'from the source are exactly what the view carries: the obligation that breaks when a member set changes). The stepper '
         'state of a work chain is restored at any nesting depth (structural induction). Snapshots of real processes at every '
         'state entry and every paused point are sent through deepcopy, pickle and YAML with three loader configurations and '
         'compared key by key with the model bundle and with the re-loaded view; Python monitors check re-save equality and all accessors.',
    note='Modelled, not verified: Savable.save/load/save_members/_get_value, SavableFuture, EventHelper, Process.save/load_instance_state, '
         'every state class, ContextMixin, WorkChain and the steppers as the hand-written Lean model Persist (member sets, keys, base '
         'chains, META constants, loader ids regenerated from the source on every run). copy.deepcopy / pickle / PyYAML are trusted '
         '(identity on plain values in the model) and exercised through the real libraries. The traceback text of an EXCEPTED state is '
         'excluded (property text). Views with live awaitables are unsavable in model and code alike (counted, not failures).',
    technique='Lean 4 round-trip proof over a table-driven persistence model (structural induction over stepper states) + key-by-key '
              'differential correspondence on snapshots of generated programs through three media',
    design='6/C07')

CLAIMED['C08'] = dict(
    text='On the outline-chain model (the stepper model that C09 proves to refine structured programs, with the stepper persistence of '
         'C07): C08_stepper_restore (a restored stepper is the same state and denotes the same remaining program), '
         'C08_persisted_determines_future, C08_resume_equiv (for ANY list of crash points, by induction, the crash-restore chain gives '
         'the result and final world = call trace and context of the uninterrupted chain), C08_no_reexecution_no_skip. For plain '
         'processes, on the process-control model of C01-C06/C13 with the bundle image saveCfg / restoreCfg (Persist/Plain.lean): '
         'C08_plain_resume_equiv (for every program without waitOn, every history of stepping-task callbacks and resume requests and '
         'ANY number of checkpoint/restore cuts at step boundaries, also several in a row: the call traces of the abandoned instances '
         'up to their checkpoints followed by the trace of the last instance ARE the uninterrupted trace, state objects equal up to '
         'the wait-future index, futures equal), C08_plain_same_outcome (same result + success flag / exception / KILLED), '
         'C08_plain_no_reexecution_no_skip, C08_plain_same_point, C08_plain_restore_at_boundary, C08_plain_save_restore_save, '
         'C08_plain_bundle_roundtrip (what restoreCfg reads survives Persist.save / medium / Persist.load of C07); '
         'hypothesis: no callback of the uninterrupted run exhausts the model fuel. C08_continuation_persisted: run function, args, '
         'kwargs, callback, outputs, inputs survive save/load in the persistence model of C07. Not proved: histories with pause / '
         'play / kill next to crashes; outputs / inputs of plain processes (not in the process-control model; monitors). Real '
         'crash-restore chains (every subset of <= M step boundaries, each restore in a fresh event loop, resume values replayed) '
         'are compared with the uninterrupted run and with the model: outlines through runCrash, plain processes through crun.',
    note='Modelled, not verified: WorkChain._do_step, the steppers and their save/recreate as Lean model (Outline + Persist); the world of '
         'the chain model is the persisted context, handed over a crash unchanged (C07). Process machinery around a step is C13/C05. '
         'The abandoned instance is not killed but ignored (its task is cancelled and its loop closed). saveCfg / restoreCfg (what a '
         'bundle keeps of a process-control configuration) are hand-written and tied to the code by the plain-chain correspondence.',
    technique='Lean 4 induction over crash-point lists on the outline-chain model with stepper persistence; simulation proof on the '
              'process-control model for plain processes (write-only logs, freshness invariant of everything a bundle does not '
              'carry, two-sided relation through the step loop cut at any boundary, induction over cuts and history) + crash/restore '
              'differential runs on generated processes and outlines against both models',
    design='6/C08')

PENDING_REASON = 'check not built yet in this revision (planned: Lean model + correspondence, see DESIGN.md section 6)'


def main():
    props = [json.loads(l) for l in open(os.path.join(ROOT, 'properties.jsonl'))]
    checks, na = [], []
    for p in props:
        pid = p['id']
        if pid in CLAIMED:
            c = CLAIMED[pid]
            checks.append(dict(
                property_id=pid,
                quick_cmd=f'./check {pid} quick',
                thorough_cmd=f'./check {pid} thorough',
                evidence_file=f'evidence/{pid}.json',
                replay_cmd_template='./check --replay {path}',
                engine='lean4-model+correspondence',
                level_claimed=dict(category='proof', text=c['text'], design_ref=c['design']),
                level_note=BASE_NOTE + c['note'],
                technique=c['technique'],
            ))
        else:
            na.append(dict(property_id=pid, reason=PENDING_REASON))
    manifest = dict(
        version=1,
        setup_cmd='./setup.sh',
        hooks=dict(guard='PLUMPY_VERIF', enable='no source hooks are needed: everything is observed through public API, subclass hooks, '
                   'listeners and a deterministic event loop supplied by the harness',
                   baseline_off_cmd='cd /repo && /venv/bin/python -m pytest -ra -q -p no:cacheprovider --timeout=900 '
                                    '--continue-on-collection-errors', source_commits=[], add_only=True),
        engines=[dict(name='lean4-model+correspondence', path='lean/ + harness/', serves_properties=sorted(CLAIMED),
                      kind_free_text='Lean 4 proofs over an executable model (lake project lean/, native driver pmodel) tied to the '
                                     'source by generated tables and a per-case differential check against the real code')],
        checks=checks,
        notes='Fix commits in /repo (message prefix "fix:") repair genuine defects found by this machinery; see known_findings.json '
              'and DESIGN.md section 9.',
        not_applicable=na,
    )
    with open(os.path.join(ROOT, 'MANIFEST.json'), 'w') as fh:
        json.dump(manifest, fh, indent=1)
    try:
        import jsonschema
        jsonschema.validate(manifest, json.load(open('/root/.vp/MANIFEST.schema.json')))
        print('MANIFEST.json valid;', len(checks), 'checks,', len(na), 'not claimed')
    except ImportError:
        print('MANIFEST.json written (jsonschema not available to validate)')


if __name__ == '__main__':
    main()
