"""Process-control harness shared by C01–C06, C10, C13: generated programs, real plumpy on the deterministic loop,
canonical observation after every op (same format as `pmodel pm`), and the raw material for the per-property monitors.

Program description (data, rendered both into a real Process/WorkChain class and into `fn` lines for the model):
  {'kind': 'proc'|'chain', 'nfut': n, 'fns': {id: (awaits, outcome)}}
  outcome := ('cont', fn, [args], {key: val}) | ('wait', fn) | ('waiton', fn, [(fut, key)]) | ('stop', v_or_None, ok)
           | ('kill',) | ('raise', n)
For kind 'chain' the functions are the outline steps 0..n-1 of a WorkChain; a step with awaitables returns
ToContext(k<key>=future); the last step has none.
"""
import harness.detloop as detloop  # noqa: F401  (must precede plumpy)
import asyncio
import collections
import itertools
import logging
import re

import plumpy
from plumpy import process_states as ps
from plumpy.base.state_machine import StateEventHook

S = ps.ProcessState
TERMINAL = ('finished', 'excepted', 'killed')
KILL_CMD_MSG = 'cmdkill'
UNCOPYABLE_CODE = 78     # how a result that cannot be copied (an object holding a lock) appears in traces and to the model
EXC_VALUE_CODE = 77      # how a resume value that is an exception instance (`resume E`) appears in traces and to the model


class UserExc(Exception):
    def __init__(self, n):
        super().__init__(f'user{n}')
        self.n = n

    def __len__(self):
        # an aggregate error with no sub-errors: the object is FALSY - and is still the exception that was raised
        # (`is not None`, never truthiness, decides whether there is an exception)
        return 0


def excname(e):
    if isinstance(e, UserExc):
        return f'user{e.n}'
    return type(e).__name__


# ---------------------------------------------------------------------------------------------------------------
# programs

def prog_lines(prog):
    out = [f"case {prog.get('nfut', 0)}"]
    for i, (aw, oc) in sorted(prog['fns'].items()):
        if oc[0] == 'cont':
            kws = sorted(oc[3].items())
            s = f"cont {oc[1]} {len(oc[2])} " + ' '.join(str(a) for a in oc[2]) + f" {len(kws)} " + ' '.join(f'{k}={v}' for k, v in kws)
        elif oc[0] == 'wait':
            s = f'wait {oc[1]}'
        elif oc[0] == 'waiton':
            s = f'waiton {oc[1]} {len(oc[2])} ' + ' '.join(f'{f}:{k}' for f, k in oc[2])
        elif oc[0] == 'stop':
            s = f"stop {'-' if oc[1] is None else 99 if oc[1] == 'AW' else oc[1]} {1 if oc[2] else 0}"
        elif oc[0] == 'kill':
            s = 'kill'
        elif oc[0] == 'raise':
            s = f'raise {oc[1]}'
        else:
            raise ValueError(oc)
        out.append(' '.join(f'fn {i} {aw} {s}'.split()))
    return out


class RetryCmd(ps.Continue):
    """user-defined subclasses of the command classes are commands too"""


class ParkCmd(ps.Wait):
    pass


class DoneCmd(ps.Stop):
    pass


# keyword NAMES of the arguments a step hands to the next one (`Continue(f, *a, **k)`): index -> name.  Among them the names of the
# library's own parameters on the way from the command to the call of `f` (a keyword argument of the user's function may be
# called `process`, `state_label`, `run_fn`, ... like anything else)
KW_NAMES = ['k0', 'process', 'state_label', 'run_fn', 'label', 'msg', 'data', 'state', 'args', 'kwargs']


def kw_name(a):
    return KW_NAMES[a] if 0 <= a < len(KW_NAMES) else f'k{a}'


def kw_index(name):
    return KW_NAMES.index(name) if name in KW_NAMES else int(name[1:])


def _make_body(i, awaits, oc):
    sub = i % 3 == 2          # every third function returns its command as an instance of a user-defined SUBCLASS

    def finish(self):
        k = oc[0]
        if k in ('cont', 'wait'):
            nxt = getattr(self, f'f{oc[1]}')
            if self.__dict__.get('_verif_uout') and asyncio.iscoroutinefunction(nxt) and i % 2 == 1:
                # the next step handed over as a functools.partial of the coroutine method: callable, awaitable, WITHOUT a __name__
                # (only in runs that are not checkpointed: a saved state names its function)
                import functools
                nxt = functools.partial(nxt)
        if k == 'cont':
            return (RetryCmd if sub else ps.Continue)(nxt, *oc[2], **{kw_name(a): b for a, b in oc[3].items()})
        if k == 'wait':
            return (ParkCmd if sub else ps.Wait)(nxt)
        if k == 'stop' and self.__dict__.get('_verif_uout'):
            # an output that cannot be copied (a handle holding a lock): outputs are handed on as they are, never cloned
            self.out('handle', Uncopyable())
        if k == 'stop' and oc[1] == 'AW':
            return self.loop.create_future()        # an awaitable object returned as the plain result value
        if k == 'stop':
            if oc[2]:
                return oc[1] if i % 2 == 0 else (DoneCmd if sub else ps.Stop)(oc[1], True)
            return plumpy.UnsuccessfulResult(oc[1]) if i % 2 == 0 else (DoneCmd if sub else ps.Stop)(oc[1], False)
        if k == 'kill':
            if i % 2 == 0:
                return ps.Kill()            # Kill without a message (msg=None) is as legal as Kill(msg)
            return ps.Kill(plumpy.process_comms.MessageBuilder.kill(KILL_CMD_MSG))
        if k == 'raise':
            self._raised.append((oc[1], self.has_terminated()))
            raise UserExc(oc[1])
        raise ValueError(oc)

    def record(self, a, kw):
        a = tuple(EXC_VALUE_CODE if isinstance(x, UserExc) else x for x in a)      # an exception INSTANCE passed as a plain value
        self._trace.append((i, tuple(a), tuple(sorted((kw_index(k), v) for k, v in kw.items())), bool(self.paused),
                            self.status))

    if awaits == 0:
        def body(self, *a, **kw):
            record(self, a, kw)
            return finish(self)
    else:
        async def body(self, *a, **kw):
            record(self, a, kw)
            for _ in range(awaits):
                await asyncio.sleep(0)
            return finish(self)
    body.__name__ = f'f{i}'
    return body


class Uncopyable:
    """a value that `copy.deepcopy` / pickle refuse (it holds a lock), as a file handle or a connection would"""

    def __init__(self):
        import threading
        self.lock = threading.Lock()

    def __repr__(self):
        return 'Uncopyable()'


def val_code(v):
    """results of awaited items as the model knows them: plain ints, an exception INSTANCE delivered as a result, an uncopyable object"""
    if isinstance(v, UserExc):
        return EXC_VALUE_CODE
    if isinstance(v, Uncopyable):
        return UNCOPYABLE_CODE
    return v


_CLASS_CACHE = {}


def build_class(prog):
    key = repr(sorted(prog['fns'].items())) + prog['kind'] + prog.get('via', '') + ('!mo' if prog.get('missing_output') else '')
    if key in _CLASS_CACHE:
        return _CLASS_CACHE[key]
    ns = {}
    if prog['kind'] == 'proc':
        for i, (aw, oc) in prog['fns'].items():
            # with a required output that is never emitted, a step that returns normally still ends FINISHED, unsuccessfully
            py_oc = ('stop', oc[1], True) if (prog.get('missing_output') and oc[0] == 'stop') else oc
            ns[f'f{i}'] = _make_body(i, aw, py_oc)
        ns['run'] = ns['f0']
        missing_output = bool(prog.get('missing_output'))

        def define(cls, spec):
            super(klass, cls).define(spec)
            spec.outputs.dynamic = True
            if missing_output:
                spec.output('required_but_never_emitted', required=True)
        ns['define'] = classmethod(define)
        klass = cls = type('GenProc', (plumpy.Process,), ns)
    else:
        n = len(prog['fns'])
        via_call = prog.get('via') == 'call'

        def mk(i, oc):
            def step(self):
                ctxsnap = {int(k[1:]): val_code(v) for k, v in self.ctx.__dict__.items() if k.startswith('k')}
                self._trace.append((i, (), (), bool(self.paused), self.status, ctxsnap, [f.done() for f in self._futs]))
                if oc[0] == 'waiton' and oc[2]:
                    if via_call and i % 2 == 0:
                        for f, k in oc[2]:              # the other way of registering, one call per item: a key may be used
                            self.to_context(**{f'k{k}': self._futs[f]})     # for SEVERAL items (a pure "wait for all")
                        return None
                    if i % 2 == 1:      # a context assignment is a mapping of keys to awaitables: a plain dict is one (ToContext = dict)
                        return {f'k{k}': self._futs[f] for f, k in oc[2]}
                    return plumpy.ToContext(**{f'k{k}': self._futs[f] for f, k in oc[2]})
                if oc[0] == 'raise':
                    self._raised.append((oc[1], self.has_terminated()))
                    raise UserExc(oc[1])
                return None
            step.__name__ = f's{i}'
            return step
        for i, (aw, oc) in prog['fns'].items():
            ns[f's{i}'] = mk(i, oc)

        def define(cls, spec):
            super(klass, cls).define(spec)
            spec.outline(*[getattr(cls, f's{i}') for i in range(n)])
        ns['define'] = classmethod(define)
        klass = cls = type('GenChain', (plumpy.WorkChain,), ns)
    # passive recorders of the three places that touch the status message (set_status, on_paused, on_playing): the hook calls,
    # their arguments and the status right after each, for the status model (`pmodel status`)
    def _rec(self, kind, arg):
        self.__dict__.setdefault('_status_ev', []).append((kind, arg, self.status))

    def set_status(self, status):
        if self.__dict__.get('_verif_extstatus'):
            # a class that keeps its status on a record of its own (as a process tied to a database node does): the public
            # `status` / `set_status` pair is the interface, the private attribute is not
            self.__dict__['_ext_status'] = status
        else:
            super(klass, self).set_status(status)
        if not self.__dict__.get('_hookdepth', 0):
            _rec(self, 'S', status)

    def status(self):
        if self.__dict__.get('_verif_extstatus'):
            return self.__dict__.get('_ext_status')
        return plumpy.Process.status.fget(self)
    cls.status = property(status)

    def on_paused(self, msg=None):
        self.__dict__['_hookdepth'] = self.__dict__.get('_hookdepth', 0) + 1
        try:
            super(klass, self).on_paused(msg)
        finally:
            self.__dict__['_hookdepth'] -= 1
        _rec(self, 'P', msg)

    def on_playing(self):
        self.__dict__['_hookdepth'] = self.__dict__.get('_hookdepth', 0) + 1
        try:
            super(klass, self).on_playing()
        finally:
            self.__dict__['_hookdepth'] -= 1
        _rec(self, 'Y', None)
    def on_entered(self, from_state):
        super(klass, self).on_entered(from_state)
        if self.__dict__.get('_verif_hookstatus'):
            # a class that reports its progress from a state hook rather than from its steps (status stream of C05 only)
            self.set_status(f'at {self.state.value}')
    for _f in (set_status, on_paused, on_playing, on_entered):
        setattr(cls, _f.__name__, _f)

    def outputs(self):
        # a class whose public `outputs` is more than what was emitted (a derived entry): "the outputs" are what the accessor says
        base = plumpy.Process.outputs.fget(self)
        if self.__dict__.get('_verif_derived') and base:
            return dict(base, derived=len(base))
        return base
    cls.outputs = property(outputs)
    # make the class importable by name (persistence identifies classes as module:qualname)
    import hashlib
    import sys as _sys
    name = f"{cls.__name__}_{hashlib.sha1(key.encode()).hexdigest()[:10]}"
    cls.__name__ = cls.__qualname__ = name
    cls.__module__ = __name__
    setattr(_sys.modules[__name__], name, cls)
    _CLASS_CACHE[key] = cls
    return cls


def chain_prog(steps, nfut):
    """steps: list of awaitable lists [(fut, key), ...] per outline step (last must be empty)"""
    fns = {}
    n = len(steps)
    for i, aw in enumerate(steps):
        if i == n - 1:
            fns[i] = (0, ('stop', None, True))
        elif aw:
            fns[i] = (0, ('waiton', i + 1, list(aw)))
        else:
            fns[i] = (0, ('cont', i + 1, [], {}))
    return {'kind': 'chain', 'nfut': nfut, 'fns': fns}


CORPUS = collections.OrderedDict([
    ('Sync2', {'kind': 'proc', 'nfut': 0, 'fns': {0: (0, ('cont', 1, [1], {0: 2})), 1: (0, ('stop', 3, True))}}),
    ('Async2', {'kind': 'proc', 'nfut': 0, 'fns': {0: (2, ('cont', 1, [], {})), 1: (1, ('stop', 3, True))}}),
    ('Waiter', {'kind': 'proc', 'nfut': 0, 'fns': {0: (0, ('wait', 1)), 1: (0, ('stop', 7, True))}}),
    ('WaitAsync', {'kind': 'proc', 'nfut': 0, 'fns': {0: (1, ('wait', 1)), 1: (1, ('stop', 7, True))}}),
    ('Failing', {'kind': 'proc', 'nfut': 0, 'fns': {0: (1, ('raise', 0))}}),
    ('Chain', chain_prog([[(0, 0)], []], 1)),
    ('Unsucc', {'kind': 'proc', 'nfut': 0, 'fns': {0: (1, ('cont', 1, [4, 5], {1: 6, 0: 7})), 1: (0, ('stop', 2, False))}}),
    ('KillCmd', {'kind': 'proc', 'nfut': 0, 'fns': {0: (1, ('cont', 1, [], {})), 1: (0, ('kill',))}}),
    ('SubCmds', {'kind': 'proc', 'nfut': 0, 'fns': {0: (0, ('cont', 2, [], {})), 2: (0, ('wait', 5)), 5: (0, ('stop', 4, True))}}),
    ('SameKey', dict(chain_prog([[(0, 0), (1, 0), (2, 0)], []], 3), via='call')),
    ('KillNoMsg', {'kind': 'proc', 'nfut': 0, 'fns': {0: (1, ('cont', 1, [], {})), 1: (0, ('cont', 2, [], {})), 2: (0, ('kill',))}}),
    ('WaitWait', {'kind': 'proc', 'nfut': 0, 'fns': {0: (0, ('wait', 1)), 1: (1, ('wait', 2)), 2: (0, ('stop', None, True))}}),
    ('Chain2', chain_prog([[(0, 0), (1, 1)], [(2, 0)], []], 3)),
    ('ChainCall', dict(chain_prog([[(0, 0)], [(1, 0), (2, 1)], []], 3), via='call')),
    ('MissingOut', {'kind': 'proc', 'nfut': 0, 'missing_output': True,
                    'fns': {0: (1, ('cont', 1, [], {})), 1: (1, ('stop', 4, False))}}),
    ('RetAwaitable', {'kind': 'proc', 'nfut': 0, 'fns': {0: (0, ('cont', 1, [], {})), 1: (0, ('stop', 'AW', True))}}),
    ('FailSync', {'kind': 'proc', 'nfut': 0, 'fns': {0: (0, ('cont', 1, [], {})), 1: (0, ('raise', 1))}}),
])


def random_prog(rng):
    if rng.random() < 0.25:
        n = rng.randint(2, 4)
        nfut = rng.randint(1, 3)
        steps = []
        for i in range(n - 1):
            k = rng.randint(0, min(2, nfut))
            futs = rng.sample(range(nfut), k)
            keys = rng.sample(range(3), k)      # distinct keys: ToContext(**kw) cannot carry a key twice
            steps.append(list(zip(futs, keys)))
        steps.append([])
        via_call = rng.random() < 0.4
        if via_call and rng.random() < 0.5:
            # to_context() called once per item may hand over several items under ONE key (even steps register by call)
            steps = [[(f, 0) for f, _k in st] if (i % 2 == 0 and len(st) > 1) else st for i, st in enumerate(steps)]
        prog = chain_prog(steps, nfut)
        if via_call:
            prog['via'] = 'call'
        return prog
    n = rng.randint(1, 4)
    fns = {}
    for i in range(n):
        aw = rng.choice([0, 0, 1, 1, 2])
        last = i == n - 1
        r = rng.random()
        if last:
            oc = ('stop', rng.choice([None, 1, 2]), rng.random() < 0.8) if r < 0.7 else ('raise', rng.randint(0, 2)) if r < 0.85 else ('kill',)
        elif r < 0.5:
            nargs = rng.randint(0, 2)
            oc = ('cont', i + 1, [rng.randint(0, 5) for _ in range(nargs)], {k: rng.randint(0, 5) for k in rng.sample(range(3), rng.randint(0, 2))})
        elif r < 0.9:
            oc = ('wait', i + 1)
        else:
            oc = ('raise', rng.randint(0, 2))
        fns[i] = (aw, oc)
    return {'kind': 'proc', 'nfut': 0, 'fns': fns}


# ---------------------------------------------------------------------------------------------------------------
# running the real code

class Listener(plumpy.ProcessListener):
    """records notifications; with a plan {(notification, occurrence): op} it issues a control request from inside the
    notification (i.e. during the transition that sends it)"""

    def __init__(self, run=None, plan=None):
        super().__init__()
        self.ev = []
        self.outputs = None
        self.run = run
        self.plan = plan or {}
        self.counts = {}

    def _hit(self, name):
        self.ev.append(name)
        n = self.counts[name] = self.counts.get(name, 0) + 1
        op = self.plan.get((name, n))
        if op is not None and self.run is not None:
            self.run.do(op, from_listener=True)

    def hook_hit(self, name, state):
        """a state event callback (exiting / entering phase of a transition): NOT a notification (not logged in .ev), but the plan
        may issue a request from it, like an overridden on_exit_running / on_entering that calls self.kill()"""
        n = self.counts[name] = self.counts.get(name, 0) + 1
        op = self.plan.get((name, n))
        if op is not None and self.run is not None and self.run.in_stepper:
            # only during a step's closing transition, i.e. from inside the stepping task's own callback (the only transitions
            # made there): a control call from inside a transition that was itself started by a control call outside a step is
            # a re-entrant transition, which the state machine documents as unsupported ("Cannot call transition_to when
            # already transitioning state"). (Decided by the harness itself, not by reading the private `_stepping`.)
            self.run.term_trans = bool(state is not None and state.is_terminal())
            try:
                self.run.do(op, from_listener=True)
            finally:
                self.run.term_trans = False

    def on_process_running(self, p): self._hit('run')
    def on_process_waiting(self, p): self._hit('wai')
    def on_process_paused(self, p): self._hit('pau')
    def on_process_played(self, p): self._hit('pla')
    def on_process_finished(self, p, o): self.outputs = o; self._hit('fin')
    def on_process_excepted(self, p, r): self._hit('exc')
    def on_process_killed(self, p, m): self._hit('kil')


class Leaver(plumpy.ProcessListener):
    """a listener that unsubscribes itself from inside a notification (a one-shot observer): the set of listeners changes while
    the notification is being delivered"""

    def __init__(self, leave_at):
        super().__init__()
        self.leave_at = leave_at

    def _hit(self, name, proc):
        if name in self.leave_at:
            proc.remove_process_listener(self)

    def on_process_running(self, p): self._hit('run', p)
    def on_process_waiting(self, p): self._hit('wai', p)
    def on_process_paused(self, p): self._hit('pau', p)
    def on_process_played(self, p): self._hit('pla', p)
    def on_process_finished(self, p, o): self._hit('fin', p)
    def on_process_excepted(self, p, r): self._hit('exc', p)
    def on_process_killed(self, p, m): self._hit('kil', p)


class Run:
    """One real process under the deterministic loop. `do(op)` performs an environment op, `tick()` runs one callback;
    both append to .ops / .obs (the lines exchanged with the model) and to the raw records the monitors read."""

    def __init__(self, prog, status0=None, plan=None, process=None, loop=None, loop_mode=None, driver='stock', uout=False, hookstatus=False):
        """`process` / `loop`: adopt an existing instance (one loaded from a Bundle in `loop`) instead of creating one"""
        logging.disable(logging.CRITICAL)
        self.prog = prog
        self.status0 = status0
        self.loop = loop if loop is not None else detloop.DetLoop()
        # for the runs that start without a status message the process's loop is NOT the thread's current one
        # (`loop_mode`: 'own' | 'foreign' | 'none' = the thread has no current loop at all)
        self.loop_mode = loop_mode or ('foreign' if status0 is None else 'own')
        self.foreign_loop = self.loop_mode != 'own'
        detloop.use_loop(self.loop, foreign={'own': False, 'foreign': True, 'none': 'none'}[self.loop_mode])
        self.loop_errs = []
        def on_loop_error(_loop, context):
            # an unretrieved exception on an abandoned future (reported by the garbage collector) is not an exception
            # escaping from a callback or task into the loop
            if 'never retrieved' in str(context.get('message', '')) and 'future' in context and 'task' not in context:
                self.gc_notes.append(excname(context['exception']) if context.get('exception') else '?')
                return
            self.loop_errs.append(excname(context['exception']) if context.get('exception') else str(context.get('message')))
        self.gc_notes = []
        self.loop.set_exception_handler(on_loop_error)
        if process is None:
            cls = build_class(prog)
            self.p = p = cls(loop=self.loop)
            if hookstatus:
                p.__dict__['_verif_hookstatus'] = True
            if hookstatus == 'ext':
                p.__dict__['_verif_extstatus'] = True
                p.__dict__['_verif_hookstatus'] = False
            if uout:            # (not for the runs that are checkpointed: outputs are part of the saved state)
                p.__dict__['_verif_uout'] = True
                if driver == 'steps':       # (half of them: the class also overrides the public `outputs` accessor)
                    p.__dict__['_verif_derived'] = True
        else:
            self.p = p = process
        p._trace = []
        p._raised = []
        p._futs = [self.loop.create_future() for _ in range(prog.get('nfut', 0))]
        if status0 is not None:
            p.set_status(status0)
        self.entered = [p.state.value]
        p.add_state_event_callback(StateEventHook.ENTERED_STATE, lambda sm, h, st: self.entered.append(sm.state.value))
        # a transition that STARTS from a terminal state (seen in its entering phase, whether or not the entered callbacks of the
        # terminal state itself ran to the end)
        self.left_terminal = []

        def entering(sm, h, st):
            cur = sm.state           # (the label of the current state)
            if cur is not None and getattr(cur, 'value', None) in ('finished', 'excepted', 'killed') and st is not None:
                self.left_terminal.append((cur.value, st.LABEL.value))
        p.add_state_event_callback(StateEventHook.ENTERING_STATE, entering)
        # a waiter on the process future, registered the ordinary way: it is told (on the loop of the process) when the future ends
        self.fut_done = []
        try:
            p.future().add_done_callback(lambda f: self.fut_done.append(1))
        except Exception:  # noqa
            pass
        self.lis = Listener(self, plan)
        p.add_process_listener(self.lis)
        p.add_process_listener(self.lis)          # subscribing twice is subscribing once (exactly one notification per event)
        # one-shot observers leaving at different notifications (two per kind, so that the set shrinks DURING the delivery)
        self.leavers = [Leaver({k}) for k in ('run', 'wai', 'pau', 'fin', 'exc', 'kil') for _ in (0, 1)]
        for lv in self.leavers:
            p.add_process_listener(lv)
        self.term_trans = False          # a planned request is being issued from inside the transition into a terminal state
        self.in_stepper = False          # the callback that is running is the stepping task's
        self.term_kills = []
        if plan and any(k[0] in ('exi', 'ent') for k in plan):
            p.add_state_event_callback(StateEventHook.EXITING_STATE, lambda sm, h, st: self.lis.hook_hit('exi', st))
            p.add_state_event_callback(StateEventHook.ENTERING_STATE, lambda sm, h, st: self.lis.hook_hit('ent', st))
        self.cleanups = []
        self.cleanups_other = {'raising': 0, 'last': 0, 'late': 0}
        p.add_cleanup(lambda: self.cleanups.append(1))

        def raising_cleanup():
            self.cleanups_other['raising'] += 1
            raise UserExc(7)

        def last_cleanup():
            self.cleanups_other['last'] += 1
            if self.cleanups_other['last'] == 1:
                # a cleanup that registers a further one while the process is closing (accepted: the process is not closed yet)
                def late_cleanup():
                    self.cleanups_other['late'] += 1
                try:
                    p.add_cleanup(late_cleanup)
                except Exception:  # noqa
                    self.cleanups_other['late'] = -1
        import functools
        # a failing cleanup must not keep the others from running - whatever kind of callable it is (a functools.partial has
        # neither __name__ nor __qualname__, like the library's own unsubscription cleanups)
        p.add_cleanup(functools.partial(raising_cleanup))
        p.add_cleanup(last_cleanup)
        # who drives the process: the library's `step_until_terminated()` or a loop of the caller's own around the public `step()`
        # (a scheduler that does something between two steps) - the same thing as far as any property is concerned
        self.driver = driver
        if driver == 'steps':
            async def drive():
                while not p.has_terminated():
                    await p.step()
            self.task = self.loop.create_task(drive())
        else:
            self.task = self.loop.create_task(p.step_until_terminated())
        self.handed = []          # action futures handed out by pause()/kill()
        self.ops, self.obs = [], []
        self.calls = []           # dict(op, phase, ret, raised, live, idx)
        self.kill_results = []    # (ret object or 'raised', msg, idx) for kill() on a live process
        self.snapshots = []       # per op: (label, outcome repr) once terminated
        self.fail_exc = UserExc(9)
        self.resumes = []         # (value, phase, idx) for resume() calls that did not raise
        self.paused_at = []       # per op index: paused flag after the op
        self.listener_ops = []    # (op index at that time, op, ret) for requests issued from listener notifications
        self.cb_handles = []      # (ProcessCallback, 'ok'|'raise') scheduled through call_soon
        self.cb_runs = []
        self.status_at = []

    # -- observation ------------------------------------------------------------------------------------------
    def phase(self):
        p = self.p
        return f"{p.state.value}{'+step' if getattr(p, '_stepping', False) else ''}{'+paused' if p.paused else ''}"

    def outcome(self):
        p = self.p
        st = p.state
        if st == S.FINISHED:
            r = p.result()
            if asyncio.isfuture(r):
                r = 99
            return f"finished:{'-' if r is None else r}:{1 if p.successful() else 0}"
        if st == S.EXCEPTED:
            return f'excepted:{excname(p.exception())}'
        if st == S.KILLED:
            return 'killed'
        return 'live'

    def observe(self, ret):
        p = self.p
        f = p.future()
        if not f.done():
            fs = 'pending'
        elif f.cancelled():
            fs = 'cancelled'
        elif f.exception() is not None:
            fs = 'exc:' + excname(f.exception())
        else:
            fs = 'result'
        t = self.task
        ts = 'pending' if not t.done() else 'crashed' if (t.cancelled() or t.exception() is not None) else 'done'
        acts = ''.join('P' if not a.done() else 'C' if a.cancelled() else 'E' if a.exception() is not None else 'D'
                       for a in self.handed)
        tr = ' '.join(f"{x[0]}({','.join(str(0 if v is None else v) for v in x[1])};{','.join(f'{k}={v}' for k, v in x[2])})@{1 if x[3] else 0}"
                      for x in p._trace)
        ctx = ''
        if isinstance(p, plumpy.WorkChain) and p.ctx is not None:
            items = sorted((int(k[1:]), val_code(v)) for k, v in p.ctx.__dict__.items() if k.startswith('k'))
            ctx = ','.join(f'{k}:{v}' for k, v in items)
        # `_stepping` and `_closed` are private: when a refactoring renames them they are reported as unknown ('?') and the
        # comparison with the model skips them instead of raising a false alarm
        stepping = getattr(p, '_stepping', None)
        closed = getattr(p, '_closed', None)
        line = (f"ret={ret} st={p.state.value} paused={int(p.paused)} stepping={'?' if stepping is None else int(stepping)} "
                f"closed={'?' if closed is None else int(closed)} fut={fs} task={ts} acts={acts} trace={tr} "
                f"notif={','.join(self.lis.ev)} cleanups={len(self.cleanups)} ctx={ctx} entered={','.join(self.entered)} "
                f"out={self.outcome()}")
        self.obs.append(line)
        self.paused_at.append(bool(p.paused))
        self.status_at.append(p.status)
        self.snapshots.append((p.state.value, self.outcome(), fs) if p.has_terminated() else None)

    # -- environment ops --------------------------------------------------------------------------------------
    def do(self, op, from_listener=False):
        p = self.p
        toks = op.split()
        ph, live = self.phase(), not p.has_terminated()
        raised, r = None, None
        idx0 = len(self.calls)
        try:
            if toks[0] == 'pause':
                r = p.pause('pm') if idx0 % 2 == 0 else p.pause()      # with and without a status message
            elif toks[0] == 'play':
                r = p.play()
            elif toks[0] == 'kill':
                r = p.kill('km%d' % len(self.ops))
            elif toks[0] == 'resume':
                r = (p.resume() if toks[1] == '-' else p.resume(None) if toks[1] == 'N'
                     else p.resume(UserExc(EXC_VALUE_CODE)) if toks[1] == 'E' else p.resume(int(toks[1])))
            elif toks[0] == 'fail':
                r = p.fail(self.fail_exc, None)
            elif toks[0] == 'setstatus':        # (not an op of the `pm` line protocol: used by the status stream of C05 only)
                p.set_status(None if toks[1] == '-' else toks[1])
                r = None
            elif toks[0] == 'cancelfut':
                r = p.future().cancel()
            elif toks[0] == 'callsoon':
                flag = toks[1]

                def user_callback(flag=flag):
                    self.cb_runs.append((flag, plumpy.Process.current() is p))
                    if flag == 'raise':
                        raise UserExc(8)
                h = p.call_soon(user_callback)
                self.cb_handles.append((h, flag))
                r = None
            elif toks[0] == 'complete':
                f = p._futs[int(toks[1])]
                if not f.done():
                    if toks[2] == 'ok':
                        # the item SUCCEEDS; its result may be an exception instance (a collected error) or an uncopyable object
                        f.set_result(UserExc(EXC_VALUE_CODE) if toks[3] == 'E' else Uncopyable() if toks[3] == 'U' else int(toks[3]))
                    elif toks[2] == 'killed':
                        f.set_exception(plumpy.KilledError('child was killed'))
                    elif toks[2] == 'cancelled':
                        f.cancel()          # a child killed by cancelling its future: the awaited future ends cancelled
                    else:
                        f.set_exception(UserExc(int(toks[3])))
                r = None
            else:
                raise ValueError(op)
        except Exception as e:  # noqa
            raised = excname(e)
        if asyncio.isfuture(r):
            if not any(r is a for a in self.handed):
                self.handed.append(r)
            ret = 'fut'
        elif raised:
            ret = 'raised:' + raised
        else:
            ret = {True: 'T', False: 'F', None: 'none'}.get(r, 'other')
        idx = len(self.ops)
        self.calls.append(dict(op=toks[0], arg=toks[1:], phase=ph, ret=ret, raised=raised, live=live, idx=idx, obj=r,
                               from_listener=from_listener, term_trans=self.term_trans))
        if from_listener:
            # issued from inside a notification: logged for the monitors, not an op of the line protocol
            if toks[0] == 'kill' and live and self.term_trans:
                # the transition into a terminal state cannot be abandoned (C01): such a kill is under no obligation to take
                # effect, but it must not report True unless the process ends KILLED
                self.term_kills.append(('raised' if raised else r, 'km%d' % idx, idx))
            elif toks[0] == 'kill' and live:
                self.kill_results.append(('raised' if raised else r, 'km%d' % idx, idx))
            self.listener_ops.append((idx, op, ret))
            return
        if toks[0] == 'kill' and live:
            self.kill_results.append(('raised' if raised else r, 'km%d' % idx, idx))
        if toks[0] == 'resume' and not raised:
            self.resumes.append((None if toks[1] == '-' else 'N' if toks[1] == 'N' else EXC_VALUE_CODE if toks[1] == 'E' else int(toks[1]),
                                 ph, idx))
        self.ops.append('resume 0' if op == 'resume N' else f'resume {EXC_VALUE_CODE}' if op == 'resume E'
                        else op.replace(' cancelled', ' killed').replace(' ok E', f' ok {EXC_VALUE_CODE}').replace(' ok U', f' ok {UNCOPYABLE_CODE}')
                        if op.startswith('complete ') else op)
        self.observe(ret)

    def tick(self):
        """run one ready callback; plumbing callbacks are run silently. Returns False when nothing is ready."""
        while True:
            lab = self.loop.head_label()
            if lab is None:
                return False
            name = None
            if lab[0] == 'task' and lab[2] is self.task:
                name = 'stepper'
            elif lab[0] == 'cb' and lab[1].endswith('_awaitable_done'):
                h = self.loop._ready[0]
                fut = h._args[0] if h._args else None
                idx = next((i for i, f in enumerate(self.p._futs) if f is fut), None)
                name = f'adone {idx}' if idx is not None else None
            elif lab[0] == 'cb' and lab[1].endswith('try_killing'):
                name = 'trykill'
            elif lab[0] == 'task' and lab[1].endswith('ProcessCallback.run'):
                frame = lab[2].get_coro().cr_frame
                handle = frame.f_locals.get('self') if frame is not None else None
                flag = next((fl for h, fl in self.cb_handles if h is handle), None)
                name = f'usercb {flag}' if flag else None
            self.in_stepper = name == 'stepper'
            try:
                self.loop.step_one()
            finally:
                self.in_stepper = False
            if name is not None:
                self.ops.append('tick ' + name)
                self.observe('none')
                return True

    def finalize(self, resume_value=5):
        """play, deliver the wake-ups that are still outstanding, drain (so that every run is completed)"""
        p = self.p
        for _ in range(12):      # listeners may pause again at every step: keep completing
            if not p.has_terminated():
                self.do('play')
                if p.state == S.WAITING:
                    if self.prog['kind'] == 'chain':
                        for i, f in enumerate(p._futs):
                            if not f.done():
                                self.do(f'complete {i} ok {10 + i}')
                    else:
                        self.do(f'resume {resume_value}')
            n = 0
            while n < 200 and self.tick():
                n += 1
            if p.has_terminated() and not self.loop.n_ready():
                break

    def close(self):
        try:
            self.loop.close()
        except Exception:
            pass

    def abandon(self):
        """give up a run whose process is still live (a crash): the stepping task is cancelled and allowed to finish, so that
        nothing pending is left to the garbage collector, then the loop is closed"""
        try:
            self.task.cancel()
            for _ in range(100):
                if not self.loop.n_ready():
                    break
                self.loop.step_one()
        except BaseException:  # noqa
            pass
        self.close()


def schedules(npos, ops, K):
    """all placements of up to K ops over positions 0..npos-1 (positions non-decreasing, order inside a position free)"""
    slots = [(pos, op) for pos in range(npos) for op in ops]
    yield {}
    for k in range(1, K + 1):
        for combo in itertools.product(slots, repeat=k):
            if any(combo[i][0] > combo[i + 1][0] for i in range(k - 1)):
                continue
            d = collections.OrderedDict()
            for pos, op in combo:
                d.setdefault(pos, []).append(op)
            yield d


def n_positions(prog):
    """number of callbacks of the uninterrupted run (+2), i.e. the positions at which requests can be placed"""
    r = Run(prog)
    n = 0
    for _ in range(60):
        if not r.tick():
            if r.p.has_terminated():
                break
            r.finalize()
            break
        n += 1
    r.close()
    return n + 2


def loop_mode_for(sched):
    """which loop is the thread's current one while the process lives on its own: for the schedules without a status message
    alternately another loop and none at all"""
    if status0_for(sched) is not None:
        return 'own'
    return 'none' if (sum(int(k) for k in sched) // 2) % 2 else 'foreign'


def driver_for(sched):
    return 'steps' if (sum(int(k) for k in sched) // 4) % 2 else 'stock'


def run_schedule(prog, schedule, max_cb=60, status0=None, plan=None, loop_mode=None, driver='stock', hookstatus=False):
    r = Run(prog, status0=status0, plan=plan, loop_mode=loop_mode, driver=driver, uout=True, hookstatus=hookstatus)
    last = max(schedule.keys(), default=-1)
    n = 0
    while n < max_cb:
        for op in schedule.get(n, []):
            r.do(op)
        if not r.tick() and last <= n:
            break
        n += 1
    # the configuration once nothing is ready any more, BEFORE the completing play/resume of finalize()
    r.pre_final = dict(state=r.p.state.value, paused=bool(r.p.paused), n_calls=len(r.calls),
                       futs_done=[f.done() for f in r.p._futs])
    r.finalize()
    return r


def reference_trace(prog, resume_value=5):
    """the uninterrupted run of the same program (wake-ups delivered as in finalize)"""
    r = Run(prog)
    for _ in range(200):
        if not r.tick():
            break
    r.finalize(resume_value)
    out = dict(trace=[(x[0], x[1], x[2]) for x in r.p._trace], outcome=r.outcome(), entered=list(r.entered))
    r.close()
    return out


# ---------------------------------------------------------------------------------------------------------------
# exploration + correspondence

def ops_for(prog, alphabet):
    ops = []
    for o in alphabet:
        if o == 'resume':
            if prog['kind'] == 'proc' and any(oc[0] == 'wait' for _, oc in prog['fns'].values()):
                ops.append('resume 5')
        elif o == 'resume-':
            if prog['kind'] == 'proc' and any(oc[0] == 'wait' for _, oc in prog['fns'].values()):
                ops.append('resume -')
        elif o == 'resumeN':
            if prog['kind'] == 'proc' and any(oc[0] == 'wait' for _, oc in prog['fns'].values()):
                ops.append('resume N')
        elif o == 'resumeE':
            if prog['kind'] == 'proc' and any(oc[0] == 'wait' for _, oc in prog['fns'].values()):
                ops.append('resume E')
        elif o == 'complete':
            for f in range(prog.get('nfut', 0)):
                ops.append(f'complete {f} ok {10 + f}')
        elif o in ('completeE', 'completeU'):
            for f in range(prog.get('nfut', 0)):
                ops.append(f'complete {f} ok {o[-1]}')
        elif o == 'completeV':
            # successful completions whose RESULT is, depending on program and item, a plain value, an exception instance (a
            # collected error, not a failure) or an object that cannot be copied
            for f in range(prog.get('nfut', 0)):
                kind = (f + len(prog['fns'])) % 3
                ops.append(f'complete {f} ok {10 + f}' if kind == 0 else f'complete {f} ok E' if kind == 1 else f'complete {f} ok U')
        elif o == 'completeexc':
            for f in range(prog.get('nfut', 0)):
                ops.append(f'complete {f} exc {3 + f}')
        elif o == 'completekilled':
            for f in range(prog.get('nfut', 0)):
                ops.append(f'complete {f} killed')
        elif o == 'completecancelled':
            for f in range(prog.get('nfut', 0)):
                ops.append(f'complete {f} cancelled')
        else:
            ops.append(o)
    return ops


def status0_for(sched):
    """the status message the process starts with: set for half of the schedules, absent (None, the default) for the others"""
    return None if sum(int(k) for k in sched) % 2 else 's0'


def _work(args):
    prog, sched, monitors = args[:3]
    plan = args[3] if len(args) > 3 else None
    import harness.pm_monitors  # noqa: F401  (registers the monitors)
    r = run_schedule(prog, sched, status0=status0_for(sched), plan=plan, loop_mode=loop_mode_for(sched), driver=driver_for(sched))
    fails = []
    for m in monitors:
        fails.extend(MONITORS[m](r))
    rec = dict(ops=r.ops, obs=r.obs, failures=fails, listener_ops=list(r.listener_ops),
               phases=[(c['op'] + ('@listener' if c.get('from_listener') else ''), c['phase']) for c in r.calls])
    r.close()
    return __import__("harness.common", fromlist=["plain"]).plain(rec)      # monitor details may quote objects of the code under test


MONITORS = {}


def monitor(name):
    def deco(fn):
        MONITORS[name] = fn
        return fn
    return deco


def fail_fast(ctx, cases, monitors, n_probe=1200, timeout=240):
    """A probe before the full exploration: every k-th case (about `n_probe` of them) in a fresh pool, in their enumeration order
    inside each worker.  If a monitor already fails there, the exploration is cut down to the probe — the failing input is
    reported within seconds instead of after the whole enumeration (which a broken tree can make arbitrarily slow, e.g. when
    state accumulates across runs).  On the unchanged tree the probe finds nothing and costs ~1 % extra."""
    import multiprocessing as mp
    if len(cases) <= 2 * n_probe or getattr(ctx, 'search', False):
        return cases
    stride = max(1, len(cases) // n_probe)
    probe = cases[::stride]
    work = [(c[1], c[2], monitors) + ((c[3],) if len(c) > 3 else ()) for c in probe]
    pool = mp.Pool(ctx.workers)
    try:
        recs = pool.map_async(_work, work, chunksize=8).get(timeout=timeout)
    except mp.TimeoutError:
        pool.terminate()
        pool.terminate()
        msg = (f'a probe of {len(probe)} cases did not complete within {timeout} s (it takes seconds on the unchanged tree): '
               'the code under test blocks or no longer terminates')
        if getattr(ctx, 'give_up', None) is not None:
            ctx.give_up(msg)
        ctx.note(msg)
        return cases
    finally:
        pool.terminate()
    if any(r['failures'] for r in recs):
        ctx.note(f'probe of {len(probe)} cases already fails: exploration cut down to the probe')
        return probe
    return cases


def explore(ctx, cases, monitors, chunk=400):
    """cases: list of (progname, prog, schedule). Runs the real code (parallel), the model, diffs per op.
    Returns dict(evaluations, distinct, divergences, failures, histograms, samples, traces_validated)."""
    import multiprocessing as mp
    cases = fail_fast(ctx, cases, monitors)
    work = [(prog, sched, monitors) for _, prog, sched in cases]
    with mp.Pool(ctx.workers) as pool:
        recs = pool.map(_work, work, chunksize=64)
    # model
    chunks, spans = [], []
    cur, curspan = [], []
    for (name, prog, sched), rec in zip(cases, recs):
        lines = prog_lines(prog) + rec['ops']
        curspan.append((len(cur), len(prog_lines(prog)), len(rec['ops'])))
        cur.extend(lines)
        if len(curspan) >= chunk:
            chunks.append(cur); spans.append(curspan); cur, curspan = [], []
    if curspan:
        chunks.append(cur); spans.append(curspan)
    outs = ctx.model.run_parallel('pm', chunks)
    divergences, failures = [], []
    # the model with listeners (`pmodel pml`) given no plan must BE the model (`pmodel pm`): same lines, same output. (The twins
    # `…L` of lean/PlumpyModel/PM/Listener.lean repeat the functions of PM/Model.lean that contain a notification point; this
    # keeps them from drifting apart.)
    outs_twin = ctx.model.run_parallel('pml', chunks)
    if outs is not None and outs_twin is not None:
        for chunk_i, (a_out, b_out) in enumerate(zip(outs, outs_twin)):
            if a_out != b_out:
                j = next((k for k, (x, y) in enumerate(zip(a_out, b_out)) if x != y), min(len(a_out), len(b_out)))
                divergences.append(dict(case=dict(program='(model twins)', chunk=chunk_i, line=j, input=chunks[chunk_i][max(0, j - 12):j + 1]),
                                        op_index=j, ops=chunks[chunk_i][max(0, j - 12):j + 1],
                                        impl='pm : ' + (a_out[j] if j < len(a_out) else '(missing)'),
                                        model='pml: ' + (b_out[j] if j < len(b_out) else '(missing)'), stream='twin'))
    distinct = set()
    phase_hist = {}
    validated = 0
    ci = 0
    for chunk_i, spanlist in enumerate(spans):
        out = outs[chunk_i] if outs is not None else None
        for (start, nhead, nops) in spanlist:
            name, prog, sched = cases[ci]
            rec = recs[ci]
            if out is not None:
                mobs = out[start + nhead:start + nhead + nops]
                validated += 1
                for j, (a, b) in enumerate(zip(rec['obs'], mobs)):
                    if 'stepping=?' in a:
                        b = re.sub(r'stepping=[01]', 'stepping=?', b)
                    if 'closed=?' in a:
                        b = re.sub(r'closed=[01]', 'closed=?', b)
                    if a != b:
                        divergences.append(dict(case=dict(program=name, prog=prog, schedule={str(k): v for k, v in sched.items()}),
                                                op_index=j, ops=rec['ops'][:j + 1], impl=a, model=b))
                        break
            for f in rec['failures']:
                f = dict(f)
                f['case'] = dict(program=name, prog=prog, schedule={str(k): v for k, v in sched.items()}, ops=rec['ops'])
                failures.append(f)
            for op, ph in rec['phases']:
                k = f'{op}@{ph}'
                phase_hist[k] = phase_hist.get(k, 0) + 1
            if len(rec['ops']) > 3 and sched:
                distinct.add(hash((name, tuple(rec['obs']))))
            ci += 1
    samples = []
    for i in (0, len(cases) // 3, len(cases) - 1):
        if 0 <= i < len(cases):
            samples.append(dict(program=cases[i][0], schedule={str(k): v for k, v in cases[i][2].items()}, ops=recs[i]['ops'],
                                last_observation=recs[i]['obs'][-1] if recs[i]['obs'] else None))
    return dict(evaluations=len(cases), distinct_nontrivial=len(distinct), divergences=divergences, failures=failures,
                histograms=dict(request_at_phase=phase_hist), samples=samples, traces_validated=validated)


def fix_case(case):
    """JSON round trip of a case (keys become strings, tuples lists) -> usable program and schedule"""
    prog = case['prog']
    fns = {}
    for k, (aw, oc) in prog['fns'].items():
        oc = list(oc)
        if oc[0] == 'cont':
            oc = ('cont', oc[1], list(oc[2]), {int(a): b for a, b in oc[3].items()})
        elif oc[0] == 'waiton':
            oc = ('waiton', oc[1], [tuple(x) for x in oc[2]])
        else:
            oc = tuple(oc)
        fns[int(k)] = (aw, oc)
    prog = dict(kind=prog['kind'], nfut=prog.get('nfut', 0), fns=fns, **({'via': prog['via']} if prog.get('via') else {}),
                **({'missing_output': True} if prog.get('missing_output') else {}))
    sched = collections.OrderedDict((int(k), v) for k, v in sorted(case['schedule'].items(), key=lambda kv: int(kv[0])))
    return prog, sched


def plan_line(plan):
    """the oracle of a listener case as a line of the `pmodel pml` protocol"""
    return 'plan ' + ' '.join(f'{k[0]}:{k[1]}:{v}' for k, v in plan.items())


def listener_head(prog, plan):
    """program, plan (and the StateEntryFailed marker of a program whose required output is never emitted) for `pmodel pml`"""
    return prog_lines(prog) + [plan_line(plan)] + (['entryfails'] if prog.get('missing_output') else [])


def explore_listeners(ctx, cases, monitors, chunk=400):
    """control requests issued from inside listener notifications and state-event callbacks (during transitions).
    cases: (name, prog, schedule, plan). The real runs are decided by the Python monitors AND compared, observation by observation
    after every op, with the process-control model with listeners (lean/PlumpyModel/PM/Listener.lean, `pmodel pml`), which gets
    the same program, the plan and the ops the harness performed."""
    import multiprocessing as mp
    cases = fail_fast(ctx, cases, monitors)
    work = [(prog, sched, monitors, plan) for _, prog, sched, plan in cases]
    with mp.Pool(ctx.workers) as pool:
        recs = pool.map(_work, work, chunksize=64)
    failures = []
    issued = 0
    for (name, prog, sched, plan), rec in zip(cases, recs):
        issued += len(rec['listener_ops'])
        for f in rec['failures']:
            f = dict(f)
            f['case'] = dict(program=name, prog=prog, schedule={str(k): v for k, v in sched.items()},
                             listener_plan=[[k[0], k[1], v] for k, v in plan.items()], ops=rec['ops'])
            failures.append(f)
    # model
    chunks, spans = [], []
    cur, curspan = [], []
    for (name, prog, sched, plan), rec in zip(cases, recs):
        head = listener_head(prog, plan)
        curspan.append((len(cur), len(head), len(rec['ops'])))
        cur.extend(head + rec['ops'])
        if len(curspan) >= chunk:
            chunks.append(cur); spans.append(curspan); cur, curspan = [], []
    if curspan:
        chunks.append(cur); spans.append(curspan)
    outs = ctx.model.run_parallel('pml', chunks)
    divergences = []
    distinct = set()
    validated = 0
    ci = 0
    for chunk_i, spanlist in enumerate(spans):
        out = outs[chunk_i] if outs is not None else None
        for (start, nhead, nops) in spanlist:
            name, prog, sched, plan = cases[ci]
            rec = recs[ci]
            if out is not None:
                mobs = out[start + nhead:start + nhead + nops]
                validated += 1
                if len(mobs) != len(rec['obs']):
                    divergences.append(dict(case=dict(program=name, prog=prog, schedule={str(k): v for k, v in sched.items()},
                                                      listener_plan=[[k[0], k[1], v] for k, v in plan.items()]),
                                            op_index=len(mobs), ops=rec['ops'], impl='(%d observations)' % len(rec['obs']),
                                            model='(%d observations)' % len(mobs), stream='listener'))
                for j, (a, b) in enumerate(zip(rec['obs'], mobs)):
                    if 'stepping=?' in a:
                        b = re.sub(r'stepping=[01]', 'stepping=?', b)
                    if 'closed=?' in a:
                        b = re.sub(r'closed=[01]', 'closed=?', b)
                    if a != b:
                        divergences.append(dict(case=dict(program=name, prog=prog, schedule={str(k): v for k, v in sched.items()},
                                                          listener_plan=[[k[0], k[1], v] for k, v in plan.items()]),
                                                op_index=j, ops=rec['ops'][:j + 1], impl=a, model=b, stream='listener'))
                        break
            if rec['listener_ops']:
                distinct.add(hash((name, tuple(rec['obs']))))
            ci += 1
    return dict(evaluations=len(cases), failures=failures, listener_requests_issued=issued, divergences=divergences,
                traces_validated=validated, distinct_nontrivial=len(distinct))
