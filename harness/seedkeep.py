"""python3 harness/seedkeep.py <prop> <mutant dir> <check props...>: confirm a seeded mutant (suite green, demo discriminates),
run the checks against it and keep it under /verif/seeded/<PROP>-<name>/ with the results recorded in meta.json."""
import json
import os
import shutil
import subprocess
import sys

ROOT = os.path.dirname(os.path.dirname(os.path.abspath(__file__)))
prop, mdir, checks = sys.argv[1], os.path.abspath(sys.argv[2]), sys.argv[3:]
r = subprocess.run([sys.executable, os.path.join(ROOT, 'harness', 'seedtest.py'), mdir] + checks, capture_output=True, text=True)
res = json.loads(r.stdout)
ok = res.get('applies') and res.get('demo_without') == 'pass' and res.get('demo_with') == 'fail' and res.get('suite', '').startswith('186 passed')
name = f"{prop}-{os.path.basename(os.path.dirname(mdir)).replace('-out', '')}-{os.path.basename(mdir)}"
summary = {k: ('detected' + (' (no-failing-input-found)' if any('no-failing-input-found' in l for l in v['lines']) else '')
               if v['exit'] == 1 else 'MISSED' if v['exit'] == 0 else f"exit {v['exit']}") for k, v in res.get('checks', {}).items()}
print(name, 'confirmed' if ok else 'NOT CONFIRMED', res.get('suite'), summary)
if ok:
    dst = os.path.join(ROOT, 'seeded', name)
    os.makedirs(dst, exist_ok=True)
    for f in ('patch.diff', 'demo.py'):
        shutil.copy(os.path.join(mdir, f), dst)
    meta = json.load(open(os.path.join(mdir, 'meta.json'))) if os.path.exists(os.path.join(mdir, 'meta.json')) else {}
    meta['confirmed'] = dict(suite=res['suite'], demo_without=res['demo_without'], demo_with=res['demo_with'],
                             base_commit=subprocess.run(['git', '-C', '/repo', 'rev-parse', '--short', 'HEAD'], capture_output=True, text=True).stdout.strip())
    meta['checks_run'] = {k: dict(result=summary[k], output=v['lines']) for k, v in res['checks'].items()}
    json.dump(meta, open(os.path.join(dst, 'meta.json'), 'w'), indent=1)
