"""Real process classes and object loaders used by the C17 check (harness/props/c17.py).

They live in an importable module because the launcher receives class *identifiers* and resolves them with an object
loader, and because `PicklePersister` pickles bundles that name these classes.

Every class appends to the module-level `TRACE` (a list of `(pid, event)`), which is how the harness observes which
process executed which user step, without touching plumpy's internals:

  `create:<Class>`   `on_create` ran (only `__init__` calls it; loading a checkpoint does not)
  `load:<Class>`     `load_instance_state` ran (the class is the one the loader resolved)
  `<step>`           a user step function ran (`run`, `s2`, ...)

Iteration table (one entry per `Process.step()` call, `-` = no user code in that iteration), mirrored by the concrete
runtime of the Lean driver (lean/Driver/Launcher.lean, `iterations`):

  OutProc(n)    - run                  outputs {'v': n}
  OutAlt(n)     - run                  outputs {'alt': n}          (what the custom loader resolves OutProc's default id to)
  RaiseProc(n)  - run                  error ValueError
  StepsProc(n)  - run s2 s3            outputs {'v': n}            (`run` -> Continue(s2) -> Continue(s3))
  WaitProc(n)   - run - s2             outputs {'v': n}            (`run` -> Wait(s2); the process resumes itself)
  HoldProc(n)   - run - s2             outputs {'partial': n, 'final': n}   (`run` emits `partial` and Waits until the
                                       ENVIRONMENT resumes it (then `s2` emits `final`) or kills it (KilledError))
  BadCtor(n)    constructor raises RuntimeError
"""
from harness import common

common.ensure_repo_on_path()  # plumpy must come from $PLUMPY_REPO, whoever imports this module first
import plumpy  # noqa: E402

TRACE = []
INSTANCES = {}   # pid -> the latest HoldProc object with that pid (constructed or loaded), for the harness to kill / resume


def _rec(proc, what):
    TRACE.append((proc.pid, what))


class _Base(plumpy.Process):
    @classmethod
    def define(cls, spec):
        super().define(spec)
        spec.input('n', valid_type=int, default=0)
        spec.outputs.dynamic = True

    def on_create(self):
        super().on_create()
        _rec(self, f'create:{type(self).__name__}')

    def load_instance_state(self, saved_state, load_context):
        super().load_instance_state(saved_state, load_context)
        _rec(self, f'load:{type(self).__name__}')


class OutProc(_Base):
    def run(self):
        _rec(self, 'run')
        self.out('v', self.inputs.n)


class OutAlt(OutProc):
    def run(self):
        _rec(self, 'run')
        self.out('alt', self.inputs.n)


class RaiseProc(_Base):
    def run(self):
        _rec(self, 'run')
        raise ValueError(self.inputs.n)


class StepsProc(_Base):
    def run(self):
        _rec(self, 'run')
        return plumpy.Continue(self.s2)

    def s2(self):
        _rec(self, 's2')
        return plumpy.Continue(self.s3)

    def s3(self):
        _rec(self, 's3')
        self.out('v', self.inputs.n)


class WaitProc(_Base):
    """waits once; the wake-up is requested by the process itself as soon as it is in WAITING (also after a reload)"""

    def run(self):
        _rec(self, 'run')
        return plumpy.Wait(self.s2, msg='w')

    def on_waiting(self):
        super().on_waiting()
        self.loop.call_soon(self.resume)

    def load_instance_state(self, saved_state, load_context):
        super().load_instance_state(saved_state, load_context)
        if self.state == plumpy.ProcessState.WAITING:
            self.loop.call_soon(self.resume)

    def s2(self):
        _rec(self, 's2')
        self.out('v', self.inputs.n)


class HoldProc(_Base):
    """emits an output, then waits until somebody else resumes or kills it"""

    def on_create(self):
        super().on_create()
        INSTANCES[self.pid] = self

    def load_instance_state(self, saved_state, load_context):
        super().load_instance_state(saved_state, load_context)
        INSTANCES[self.pid] = self

    def run(self):
        _rec(self, 'run')
        self.out('partial', self.inputs.n)
        return plumpy.Wait(self.s2, msg='hold')

    def s2(self):
        _rec(self, 's2')
        self.out('final', self.inputs.n)


class Unsavable(OutProc):
    """a process whose state cannot be persisted (its inputs hold a lock): a launch or create task asked to persist it cannot be
    honoured, and must then not run it either"""

    @classmethod
    def define(cls, spec):
        super().define(spec)
        spec.inputs.dynamic = True

    def __init__(self, inputs=None, **kwargs):
        import threading
        inputs = dict(inputs or {})
        inputs['lock'] = threading.Lock()
        super().__init__(inputs=inputs, **kwargs)


class LateFail(OutProc):
    """finishes, and then fails in its on_finished hook (after super()): the process ends EXCEPTED with a NEW future; whoever waits
    for the outcome must be told the error, not the outputs of the future that existed before"""

    def on_finished(self):
        super().on_finished()
        raise RuntimeError('late failure')


class BadCtor(_Base):
    def __init__(self, *args, **kwargs):
        raise RuntimeError('constructor refused')


CLASSES = {c.__name__: c for c in (OutProc, OutAlt, RaiseProc, StepsProc, WaitProc, HoldProc, BadCtor, Unsavable, LateFail)}
# short class token of the line protocol <-> class
TOKENS = {'Out': OutProc, 'Alt': OutAlt, 'Raise': RaiseProc, 'Steps': StepsProc, 'Wait': WaitProc, 'Hold': HoldProc,
          'Bad': BadCtor}
TOKEN_OF = {v: k for k, v in TOKENS.items()}
MODULE = __name__
ALIAS_PREFIX = 'alias:'
UNKNOWN_IDENT = 'nomodule_c17:Nothing'


def default_ident(cls):
    return f'{cls.__module__}:{cls.__name__}'


class TracingDefaultLoader(plumpy.DefaultObjectLoader):
    """the global default loader of the harness process: plain `DefaultObjectLoader` that records what it is asked to load"""
    calls = []

    def load_object(self, identifier):
        TracingDefaultLoader.calls.append(identifier)
        return super().load_object(identifier)


class CustomLoader(plumpy.DefaultObjectLoader):
    """A loader that differs observably from the default one, in both directions, and whose knowledge lives in the
    INSTANCE (so that a default-constructed `CustomLoader()` — what plumpy makes of the loader class recorded in a
    bundle — is not a substitute for the configured instance).  With `full=True` (see `make_custom`):
       * `alias:<Token>` identifiers exist only here (the default loader raises ValueError for them);
       * it identifies `OutProc` as `alias:Out`;
       * the *default* identifier of `OutProc` is resolved to `OutAlt` (so using the wrong loader changes the outputs).
    Without, it behaves like the default loader."""
    calls = []

    def __init__(self, full=False):
        self.full = full

    def __len__(self):
        # a registry-style loader with nothing registered (yet): FALSY, like an empty container - and still the configured loader
        return 0

    def load_object(self, identifier):
        CustomLoader.calls.append(identifier)
        if self.full:
            if identifier.startswith(ALIAS_PREFIX):
                tok = identifier[len(ALIAS_PREFIX):]
                if tok in TOKENS:
                    return TOKENS[tok]
                raise ValueError(f'unknown alias {identifier}')
            if identifier == default_ident(OutProc):
                return OutAlt
        return super().load_object(identifier)

    def identify_object(self, obj):
        if self.full and obj is OutProc:
            return ALIAS_PREFIX + 'Out'
        return super().identify_object(obj)


def make_custom():
    """the custom loader instance the harness configures"""
    return CustomLoader(full=True)


# ---- reference tables used by the monitors of harness/props/c17.py (independent of the Lean model) -------------------
# user step executed in each `Process.step()` iteration (None = no user code), per class token
PROGRAM = {'Out': [None, 'run'], 'Alt': [None, 'run'], 'Raise': [None, 'run'],
           'Steps': [None, 'run', 's2', 's3'], 'Wait': [None, 'run', None, 's2'], 'Hold': [None, 'run', None, 's2']}


def holds(tok, pos):
    """a Hold process that has not got past its wait stays there until the environment acts"""
    return tok == 'Hold' and pos <= 2


def expected_outcome(tok, n, saved_tok=None, pos=0, act='~'):
    """what a process of class `tok` reports once terminated: ('out', {name: value}) or ('err', exception class name).
    Resumed from a checkpoint taken after `run` (pos >= 2) of a process constructed as `saved_tok`, the outputs are the
    persisted ones, i.e. those of `saved_tok`."""
    if tok == 'Hold':
        if holds(tok, pos) and act == 'kill':
            return ('err', 'KilledError')       # killed while waiting: the error, not the partial outputs
        return ('out', {'partial': n, 'final': n})
    if saved_tok is not None and pos >= 2:
        tok = saved_tok
    if tok == 'Raise':
        return ('err', 'ValueError')
    if tok == 'Alt':
        return ('out', {'alt': n})
    return ('out', {'v': n})


def remaining_steps(tok, pos, act='~'):
    prog = PROGRAM[tok][:2] if (holds(tok, pos) and act == 'kill') else PROGRAM[tok]
    return [s for s in prog[pos:] if s is not None]


def ident_of_token(tok):
    """line-protocol identifier token -> the identifier string sent to the launcher"""
    kind, _, name = tok.partition('.')
    if kind == 'd' and name in TOKENS:
        return default_ident(TOKENS[name])
    if kind == 'a':
        return ALIAS_PREFIX + name
    return UNKNOWN_IDENT


def ref_load(loader_kind, tok):
    """which class (token) the loader of that kind resolves the identifier token to; None = it raises ValueError"""
    kind, _, name = tok.partition('.')
    if loader_kind == 'custom':     # ('fresh' = a default-constructed CustomLoader: behaves like the default loader)
        if kind == 'a':
            return name if name in TOKENS else None
        if tok == 'd.Out':
            return 'Alt'
    return name if kind == 'd' and name in TOKENS else None


def ref_identify(loader_kind, cls_tok):
    return 'a.Out' if (loader_kind == 'custom' and cls_tok == 'Out') else 'd.' + cls_tok
