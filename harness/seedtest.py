"""Run the checks against a seeded mutant: python3 harness/seedtest.py <mutant dir with patch.diff, demo.py> <Cxx> [<Cyy> ...]
Uses a scratch worktree of /repo (never /repo itself, other work may be reading it) through PLUMPY_REPO."""
import json
import os
import subprocess
import sys

ROOT = os.path.dirname(os.path.dirname(os.path.abspath(__file__)))
WT = os.environ.get('MUTREPO', '/root/work/mutrepo')


def sh(cmd, **kw):
    return subprocess.run(cmd, shell=True, capture_output=True, text=True, **kw)


def main():
    mdir = os.path.abspath(sys.argv[1])
    props = sys.argv[2:]
    if not os.path.exists(WT):
        r = sh(f'git -C /repo worktree add --detach {WT} HEAD')
        assert r.returncode == 0, r.stderr
    sh(f'git -C {WT} reset --hard -q && git -C {WT} checkout -q --detach $(git -C /repo rev-parse HEAD)')
    env = dict(os.environ, PYTHONPATH=f'{WT}/src')
    out = dict(mutant=mdir)
    demo = os.path.join(mdir, 'demo.py')
    if os.path.exists(demo):
        r = sh(f'/venv/bin/python {demo}', env=env, timeout=600)
        out['demo_without'] = 'pass' if r.returncode == 0 else 'FAIL ' + (r.stderr or r.stdout)[-200:]
    r = sh(f'git -C {WT} apply {mdir}/patch.diff')
    out['applies'] = r.returncode == 0
    if not out['applies']:
        out['apply_error'] = r.stderr[-300:]
        sh(f'git -C {WT} reset --hard -q && git -C {WT} clean -fdq')
        print(json.dumps(out, indent=1))
        return
    if os.path.exists(demo):
        r = sh(f'/venv/bin/python {demo}', env=env, timeout=600)
        out['demo_with'] = 'pass' if r.returncode == 0 else 'fail'
    r = sh(f'cd {WT} && /venv/bin/python -m pytest -q -p no:cacheprovider --ignore=tests/rmq tests 2>&1 | tail -1', env=env, timeout=900)
    out['suite'] = r.stdout.strip()
    out['checks'] = {}
    for p in props:
        r = sh(f'cd {ROOT} && PLUMPY_REPO={WT} ./check {p} quick', timeout=3600)
        lines = [l for l in r.stdout.split('\n') if l.startswith('VIOLATION') or l.startswith(p + ' ')]
        out['checks'][p] = dict(exit=r.returncode, lines=lines[-2:])
    sh(f'git -C {WT} reset --hard -q && git -C {WT} clean -fdq')
    # regenerate the tables from the real repository again
    sh(f'/venv/bin/python {ROOT}/harness/gen_tables.py /repo {ROOT}/lean/PlumpyModel/Gen')
    print(json.dumps(out, indent=1))


if __name__ == '__main__':
    main()
