"""Outlines as data, real WorkChain classes built from them, and the reference semantics of structured programs.

Outline representation (Python):
  block  := [instr, ...]
  instr  := ('C', f) | ('R', code_or_None) | ('W', p, block) | ('I', [(p_or_None, block), ...])   # None = else_
Oracle tables: {'S': {f: [ret, ...]}, 'P': {p: [bool, ...]}} with ret in None | 'T' (empty ToContext) | int.
When a table is exhausted a step returns None and a predicate returns False (so every run terminates).
"""
import itertools


def tokens_block(block):
    out = [str(len(block))]
    for i in block:
        out += tokens_instr(i)
    return out


def tokens_instr(i):
    if i[0] == 'C':
        return ['C', str(i[1])]
    if i[0] == 'R':
        return ['R', '-' if i[1] is None else str(i[1])]
    if i[0] == 'W':
        return ['W', str(i[1])] + tokens_block(i[2])
    if i[0] == 'I':
        out = ['I', str(len(i[1]))]
        for p, b in i[1]:
            out += (['E'] if p is None else ['P', str(p)]) + tokens_block(b)
        return out
    raise ValueError(i)


def show_ret(r):
    if isinstance(r, (tuple, list)):      # ('A', v): the step registers an awaitable through to_context() AND returns v; ('W', v): returns a future object standing for v
        return f'v{r[1]}'
    return 'n' if r is None else 't' if r == 'T' else f'v{r}'


def tokens_tabs(tabs):
    out = []
    for f, vals in sorted(tabs.get('S', {}).items()):
        out += ['S', str(f), str(len(vals))] + [show_ret(v) for v in vals]
    for p, vals in sorted(tabs.get('P', {}).items()):
        out += ['P', str(p), str(len(vals))] + ['1' if v else '0' for v in vals]
    return out


def case_line(block, tabs):
    return ' '.join(tokens_block(block) + tokens_tabs(tabs))


class Oracle:
    def __init__(self, tabs):
        self.tabs = tabs
        self.sc, self.pc = {}, {}
        self.events = []

    LIMIT = 20000         # no generated program comes anywhere near: a run that does is not following its outline any more

    def _guard(self):
        if len(self.events) > self.LIMIT:
            raise RuntimeError('runaway outline: more than %d calls' % self.LIMIT)

    def step(self, f):
        self._guard()
        i = self.sc.get(f, 0)
        self.sc[f] = i + 1
        vals = self.tabs.get('S', {}).get(f, [])
        r = vals[i] if i < len(vals) else None
        self.events.append(f's{f}:{show_ret(r)}')
        return r

    def pred(self, p):
        self._guard()
        i = self.pc.get(p, 0)
        self.pc[p] = i + 1
        vals = self.tabs.get('P', {}).get(p, [])
        b = bool(vals[i]) if i < len(vals) else False
        self.events.append(f'p{p}:{1 if b else 0}')
        return b


def ref_run(block, tabs, max_events=100000):
    """Textbook small-step semantics on a continuation. Returns (events, result_token, literal_last_step_token)."""
    o = Oracle(tabs)
    k = list(block)
    last = None          # value of the last `_do_step`-visible instruction (None after a predicate evaluated false)
    last_step = None
    while k and len(o.events) < max_events:
        i = k.pop(0)
        if i[0] == 'C':
            v = o.step(i[1])
            last = v
            last_step = v
            if v is not None and v != 'T':
                return o.events, show_ret(v), show_ret(v)
        elif i[0] == 'R':
            return o.events, show_ret(i[1]), show_ret(i[1])
        elif i[0] == 'W':
            if o.pred(i[1]):
                k = list(i[2]) + [i] + k
            else:
                last = None
        elif i[0] == 'I':
            taken = False
            for p, b in i[1]:
                if p is None or o.pred(p):
                    k = list(b) + k
                    taken = True
                    break
            if not taken:
                last = None
    return o.events, show_ret(last), show_ret(last_step)


def build_workchain(block, tabs, name='GenChain', alias=False, required_output=False):
    """A real plumpy WorkChain subclass whose outline is `block`; step/predicate methods consult the oracle tables."""
    import plumpy
    from plumpy.workchains import if_, while_, return_

    fs, ps = set(), set()

    def collect(b):
        for i in b:
            if i[0] == 'C':
                fs.add(i[1])
            elif i[0] == 'W':
                ps.add(i[1])
                collect(i[2])
            elif i[0] == 'I':
                for p, bb in i[1]:
                    if p is not None:
                        ps.add(p)
                    collect(bb)
    collect(block)

    ns = {}

    def mk_step(f):
        def body(self):
            r = self._oracle.step(f)
            if isinstance(r, (tuple, list)) and r[0] == 'M':
                # the value is a Mapping that is NOT a dict (a read-only view): not a context assignment, so it stops the chain
                import types
                return types.MappingProxyType({'verif_token': r[1]})
            if isinstance(r, (tuple, list)) and r[0] == 'W':
                # the VALUE the step returns is itself an awaitable object (a resolved future, e.g. `child.future()` handed on as
                # the result): neither None nor a context assignment, so the chain stops at once with THAT OBJECT as its result
                fut = self.loop.create_future()
                fut.set_result('inner')
                fut.verif_token = r[1]
                return fut
            if isinstance(r, (tuple, list)):
                fut = self.loop.create_future()
                fut.set_result(0)
                self.to_context(extra=fut)      # an awaitable is registered, yet the value must stop the chain at once
                return r[1]
            return (plumpy.ToContext() if f % 2 == 0 else {}) if r == 'T' else r        # an empty plain dict is an (empty) context assignment too
        # step signatures: `(self)`, a decorator-style wrapper `(self, *args, **kwargs)`, keyword-only extras - all take ONE
        # positional argument, self
        if f % 3 == 1:
            def step(self, *args, **kwargs):
                return body(self)
        elif f % 3 == 2:
            def step(self, *, dry_run=False):
                return body(self)
        else:
            def step(self):
                return body(self)
        step.__name__ = f's{f}'
        return step

    def mk_pred(p):
        def pred(self):
            b = self._oracle.pred(p)
            # predicates answer with truthy / falsy values, not necessarily the bools True / False
            if b:
                return True if p % 3 == 0 else 1 if p % 3 == 1 else 2
            return False if p % 3 == 0 else 0 if p % 3 == 1 else None
        pred.__name__ = f'p{p}'
        return pred

    order = sorted(fs)
    for f in fs:
        ns[f's{f}'] = mk_step(f)
        if alias:
            # step functions made by a factory: the function's __name__ is NOT the attribute it is stored under (it names another
            # step, or the inherited method `step`); the outline refers to the function object, which is what must be called
            ns[f's{f}'].__name__ = f's{order[(order.index(f) + 1) % len(order)]}' if len(order) > 1 else 'step'
    for p in ps:
        ns[f'p{p}'] = mk_pred(p)

    def conv_block(b, cls):
        return [conv(i, cls) for i in b]

    def conv(i, cls):
        if i[0] == 'C':
            return getattr(cls, f's{i[1]}')
        if i[0] == 'R':
            return return_ if i[1] is None else return_(i[1])
        if i[0] == 'W':
            return while_(getattr(cls, f'p{i[1]}'))(*conv_block(i[2], cls))
        if i[0] == 'I':
            (p0, b0), rest = i[1][0], i[1][1:]
            node = if_(getattr(cls, f'p{p0}'))(*conv_block(b0, cls))
            for p, bb in rest:
                if p is None:
                    node = node.else_(*conv_block(bb, cls))
                else:
                    node = node.elif_(getattr(cls, f'p{p}'))(*conv_block(bb, cls))
            return node
        raise ValueError(i)

    def define(cls, spec):
        super(klass, cls).define(spec)
        spec.outline(*conv_block(block, cls))
        if required_output:
            # a declared output that no step ever emits: the chain then finishes UNSUCCESSFUL - with the same result all the same
            spec.output('summary', valid_type=int, required=True)

    ns['define'] = classmethod(define)

    def __init__(self, *a, **kw):
        self._oracle = Oracle(tabs)
        plumpy.WorkChain.__init__(self, *a, **kw)
    ns['__init__'] = __init__
    klass = type(name, (plumpy.WorkChain,), ns)
    return klass


def result_token(v):
    import plumpy
    if v is None:
        return 'n'
    if isinstance(v, plumpy.ToContext):
        return 't'
    if hasattr(v, 'verif_token'):          # the future object a step returned as its value
        return f'v{v.verif_token}'
    import types
    if isinstance(v, types.MappingProxyType) and 'verif_token' in v:
        return f"v{v['verif_token']}"
    return f'v{v}'


# ----------------------------------------------------------------------------------------------------------------
# generation

def well_formed(block):
    """`if_` instructions start with a predicate branch, `else_` only last, no empty blocks."""
    if not block:
        return False
    for i in block:
        if i[0] == 'W' and not well_formed(i[2]):
            return False
        if i[0] == 'I':
            bs = i[1]
            if not bs or bs[0][0] is None:
                return False
            for j, (p, b) in enumerate(bs):
                if p is None and j != len(bs) - 1:
                    return False
                if not well_formed(b):
                    return False
    return True


def shapes(n):
    """all block shapes with exactly n nodes (instructions, branches count as part of their `I`), ids left as 0"""
    # memoised enumeration of blocks by total instruction count
    from functools import lru_cache

    @lru_cache(None)
    def blocks(m):
        # non-empty blocks with m instructions in total
        res = []
        for first_size in range(1, m + 1):
            for first in instrs(first_size):
                if first_size == m:
                    res.append((first,))
                else:
                    for rest in blocks(m - first_size):
                        res.append((first,) + rest)
        return tuple(res)

    @lru_cache(None)
    def instrs(m):
        res = []
        if m == 1:
            res += [('C',), ('R', None), ('R', 1)]
        if m >= 2:
            for b in blocks(m - 1):
                res.append(('W', b))
            # if with 1..3 branches sharing m-1 body instructions
            for nb in (1, 2, 3):
                for split in compositions(m - 1, nb):
                    for bodies in itertools.product(*[blocks(s) for s in split]):
                        res.append(('I', bodies, False))
                        if nb >= 2:
                            res.append(('I', bodies, True))   # last branch is else_
        return tuple(res)

    def compositions(total, parts):
        if parts == 1:
            if total >= 1:
                yield (total,)
            return
        for a in range(1, total - parts + 2):
            for rest in compositions(total - a, parts - 1):
                yield (a,) + rest

    return blocks(n)


def number(shape):
    """assign fresh function / predicate ids to a shape, return a block"""
    fc, pc = itertools.count(), itertools.count()

    def blk(b):
        return [ins(i) for i in b]

    def ins(i):
        if i[0] == 'C':
            return ('C', next(fc))
        if i[0] == 'R':
            return ('R', i[1])
        if i[0] == 'W':
            p = next(pc)
            return ('W', p, blk(i[1]))
        if i[0] == 'I':
            bodies, has_else = i[1], i[2]
            brs = []
            for j, b in enumerate(bodies):
                if has_else and j == len(bodies) - 1:
                    brs.append((None, blk(b)))
                else:
                    brs.append((next(pc), blk(b)))
            return ('I', brs)
    return blk(shape)


def random_block(rng, depth, max_len=3, ids=4):
    n = rng.randint(1, max_len)
    return [random_instr(rng, depth, max_len, ids) for _ in range(n)]


def random_instr(rng, depth, max_len, ids):
    r = rng.random()
    if depth <= 0 or r < 0.45:
        return ('C', rng.randrange(ids))
    if r < 0.53:
        return ('R', rng.choice([None, 1, 2]))
    if r < 0.75:
        return ('W', rng.randrange(ids), random_block(rng, depth - 1, max_len, ids))
    nb = rng.randint(1, 3)
    brs = [(rng.randrange(ids), random_block(rng, depth - 1, max_len, ids)) for _ in range(nb)]
    if rng.random() < 0.5:
        brs.append((None, random_block(rng, depth - 1, max_len, ids)))
    return ('I', brs)


def random_tabs(rng, ids=4, stop_prob=0.08, with_awaitable=False):
    tabs = {'S': {}, 'P': {}}
    for f in range(ids + 8):
        n = rng.randint(0, 4)
        vals = []
        for _ in range(n):
            r = rng.random()
            vals.append(rng.randint(0, 9) if r < stop_prob else ('A', rng.randint(0, 9)) if (with_awaitable and r < stop_prob + 0.04) else ('W', rng.randint(0, 9)) if (with_awaitable and r < stop_prob + 0.07) else ('M', rng.randint(0, 9)) if (with_awaitable and r < stop_prob + 0.10) else 'T' if r < 0.35 else None)
        tabs['S'][f] = vals
    for p in range(ids + 8):
        n = rng.randint(0, 5)
        tabs['P'][p] = [rng.random() < 0.6 for _ in range(n)]
    return tabs


def depth_of(block):
    d = 0
    for i in block:
        if i[0] == 'W':
            d = max(d, 1 + depth_of(i[2]))
        elif i[0] == 'I':
            d = max(d, 1 + max(depth_of(b) for _, b in i[1]))
    return d


def kinds_of(block, acc=None):
    acc = acc if acc is not None else {}
    for i in block:
        acc[i[0]] = acc.get(i[0], 0) + 1
        if i[0] == 'W':
            kinds_of(i[2], acc)
        elif i[0] == 'I':
            for p, b in i[1]:
                if p is None:
                    acc['else'] = acc.get('else', 0) + 1
                kinds_of(b, acc)
    return acc
