"""C18 — impl-only supplementary stream: a step left through a BaseException (asyncio cancellation, or a BaseException raised by
user code) while ANOTHER process is awaited inline, in the same task.

REGRESSION CORPUS.  These hand-written families first exposed the seeded change C18-r2-m1 (scope left only on `Exception`) when
the process-stack model had no inline await and no cancellation.  The model now has both (`Act.inline`, `End.raiseBase`,
`Event.cancel`; scenarios `procstack_gen.corpus_inline()` / `random_scenario_inline()` go through the model correspondence); this
file is kept because it is cheap and independent of the generated-class machinery: it is decided by the monitor below on the real
code alone and contributes no model evidence.  Families: a parent step that does `await child.step_until_terminated()`
in its own task, nesting depth 1..3, the child's step having 1..3 await points and ending normally / raising an Exception /
raising a BaseException subclass / being cancelled (task.cancel() on the parent's stepping task) at await point i; the parent
absorbs whatever comes out and carries on.  Observed at every code point: Process.current().
"""
import asyncio

from harness import detloop  # noqa: F401
import plumpy


class BaseBoom(BaseException):
    pass


class Boom(Exception):
    pass


def run_family(depth, awaits, ending, cancel_at):
    """-> list of (label, owner pid, observed pid or None)"""
    loop = detloop.DetLoop()
    asyncio.set_event_loop(loop)
    obs = []
    procs = {}

    def cur():
        c = plumpy.Process.current()
        return None if c is None else getattr(c, '_vpid', '?')

    def rec(label, owner):
        obs.append((label, owner, cur()))

    class Node(plumpy.Process):
        def __init__(self, level, **kw):
            self._level = level
            self._vpid = level
            procs[level] = self
            super().__init__(**kw)

        async def run(self):
            lv = self._level
            rec(f'L{lv}:start', lv)
            if lv < depth:
                child = Node(lv + 1, loop=self.loop)
                try:
                    await child.step_until_terminated()        # inline: the child's steps run in THIS task
                except BaseException as e:  # noqa  (BaseBoom or CancelledError: absorbed, the step carries on)
                    rec(f'L{lv}:absorbed:{type(e).__name__}', lv)
                rec(f'L{lv}:after-child', lv)
                await asyncio.sleep(0)
                rec(f'L{lv}:after-await', lv)
                return lv
            for i in range(awaits):
                await asyncio.sleep(0)
                rec(f'L{lv}:aw{i}', lv)
            if ending == 'exc':
                raise Boom()
            if ending == 'base':
                raise BaseBoom()
            return lv

    class Other(plumpy.Process):
        _vpid = 'other'

        async def run(self):
            for i in range(awaits + 3):
                rec(f'other:{i}', 'other')
                await asyncio.sleep(0)

    top = Node(1, loop=loop)
    other = Other(loop=loop)
    t1 = loop.create_task(top.step_until_terminated())
    loop.create_task(other.step_until_terminated())
    n = 0
    while n < 400:
        if cancel_at is not None and n == cancel_at and not t1.done():
            t1.cancel()
        obs.append(('loop', None, cur()))
        if not loop.step_one():
            break
        n += 1
    states = {k: p.state.value for k, p in procs.items()}
    loop.close()
    return obs, states


def violations(obs):
    return [(label, owner, seen) for label, owner, seen in obs if seen != owner]


def families(thorough):
    for depth in (2, 3) if not thorough else (2, 3, 4):
        for awaits in (1, 2, 3):
            for ending in ('ok', 'exc', 'base'):
                yield depth, awaits, ending, None
            for cancel_at in range(0, 4 * (awaits + depth) + 4):
                yield depth, awaits, 'ok', cancel_at


def run_stream(thorough):
    fails, n, absorbed = [], 0, 0
    for depth, awaits, ending, cancel_at in families(thorough):
        try:
            obs, _states = run_family(depth, awaits, ending, cancel_at)
        except Exception as e:  # noqa
            fails.append(dict(signature='c18-inline-run-raised:' + type(e).__name__, clause='the scenario runs',
                              detail=repr(e)[:200], case=dict(inline=True, depth=depth, awaits=awaits, ending=ending, cancel_at=cancel_at)))
            continue
        n += 1
        absorbed += any(':absorbed:' in o[0] for o in obs)
        bad = violations(obs)
        if bad:
            fails.append(dict(signature='c18-scope-leaked-after-baseexception' if any(':absorbed:' in o[0] for o in obs) else 'c18-inline-current-wrong',
                              clause='once the code of a process returns, yields or is left (also through a cancellation), the previous '
                                     'value of Process.current() is what other code observes',
                              detail=dict(first=bad[0], n_wrong=len(bad)),
                              case=dict(inline=True, depth=depth, awaits=awaits, ending=ending, cancel_at=cancel_at)))
    return dict(runs=n, runs_with_absorbed_baseexception=absorbed), fails
