import Driver.PM
import Driver.PML
import Driver.Expose
import Driver.ExposeFull
import Driver.Ports
import Driver.Outline
import Driver.Fault
import Driver.FaultRun
import Driver.Savable
import Driver.Futures
import Driver.Launcher
import Driver.PortsOut
import Driver.Persister
import Driver.Persist
import Driver.ProcStack
import Driver.Comms
import Driver.Status
import Driver.PlainRestore
import Driver.PMRestore

/-- `pmodel <component>`: line-protocol driver over the executable model definitions. -/
def main (args : List String) : IO UInt32 := do
  match args with
  | ["pm"] => DrvPM.main; return 0
  | ["pml"] => DrvPML.main; return 0
  | ["expose"] => DrvExpose.main; return 0
  | ["exposefull"] => DrvExposeFull.main; return 0
  | ["ports"] => DrvPorts.main; return 0
  | ["outline"] => DrvOutline.main; return 0
  | ["fault"] => DrvFault.main; return 0
  | ["faultrun"] => DrvFaultRun.main; return 0
  | ["savable"] => DrvSavable.main; return 0
  | ["futures"] => DrvFutures.main; return 0
  | ["launcher"] => DrvLauncher.main; return 0
  | ["portsout"] => DrvPortsOut.main; return 0
  | ["persister"] => DrvPersister.main; return 0
  | ["persist"] => DrvPersist.main; return 0
  | ["restore"] => DrvPersist.mainRestore; return 0
  | ["restoreplain"] => DrvPlainRestore.main; return 0
  | ["pmr"] => DrvPMRestore.main; return 0
  | ["procstack"] => DrvProcStack.main; return 0
  | ["comms"] => DrvComms.main; return 0
  | ["status"] => DrvStatus.main; return 0
  | _ => IO.eprintln "usage: pmodel <comms|expose|exposefull|fault|faultrun|futures|launcher|outline|persist|persister|pm|pml|pmr|ports|portsout|procstack|restore|restoreplain|savable|status>"; return 2
