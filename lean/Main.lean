import Driver.PM
import Driver.Expose
import Driver.Ports
import Driver.Outline
import Driver.Comms

/-- `pmodel <component>`: line-protocol driver over the executable model definitions. -/
def main (args : List String) : IO UInt32 := do
  match args with
  | ["pm"] => DrvPM.main; return 0
  | ["expose"] => DrvExpose.main; return 0
  | ["ports"] => DrvPorts.main; return 0
  | ["outline"] => DrvOutline.main; return 0
  | ["comms"] => DrvComms.main; return 0
  | _ => IO.eprintln "usage: pmodel <pm|expose|ports>"; return 2
