import PlumpyModel.PM.Proof5
import PlumpyModel.Outline.Proof
import PlumpyModel.Expose.Proof
import PlumpyModel.Props.C11
import PlumpyModel.Props.C12
