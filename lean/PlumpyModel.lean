import PlumpyModel.PM.Proof5
import PlumpyModel.Outline.Proof
import PlumpyModel.Expose.Proof
import PlumpyModel.Ports.Model
import PlumpyModel.Props.C18
