import PlumpyModel.Futures.Model
/-!
# Scenarios and helper lemmas for C20

The environment owns a chain of futures `0 .. n`: level `i < n` resolves to future `i+1`, level `n` (the innermost
computation) ends with a value, an exception or a cancellation.  It completes the levels in any order (`Ev.complete`,
in any order, repeated or spurious completions included: they are rejected by the futures) and runs loop callbacks in
any order (`Ev.tick i`).
-/
namespace Futures

/-- outcome of the innermost computation -/
inductive Outcome where
  | value (n : Nat)
  | error (n : Nat)
  | cancelled
deriving DecidableEq, Repr

def Outcome.toSt : Outcome → St
  | .value n => .result (.plain n)
  | .error n => .exc (.user n)
  | .cancelled => .cancelled

/-- what each level of the chain `0..n` is completed with -/
def chainD (n : Nat) (o : Outcome) (f : FId) : St :=
  if f < n then .result (.ref (f + 1)) else if f = n then o.toSt else .pending

inductive Ev where
  | complete (f : FId)
  | tick (i : Nat)
deriving Repr

def envStep (d : FId → St) (fuel : Nat) (s : State) : Ev → State
  | .complete f => runStack fuel (complete s f (d f)).1
  | .tick i => tick s fuel i

def envRun (d : FId → St) (fuel : Nat) (s : State) (evs : List Ev) : State := evs.foldl (envStep d fuel) s

/-- `n` fresh futures of one kind -/
def newFutures (k : Kind) : Nat → State → State
  | 0, s => s
  | n+1, s => newFutures k n (alloc s k).1

theorem envRun_append (d fuel s a b) : envRun d fuel s (a ++ b) = envRun d fuel (envRun d fuel s a) b := by
  simp [envRun, List.foldl_append]

theorem Outcome.toSt_ne_pending (o : Outcome) : o.toSt ≠ .pending := by cases o <;> simp [Outcome.toSt]

theorem chainD_ne_pending {n o f} (h : f ≤ n) : chainD n o f ≠ .pending := by
  unfold chainD
  by_cases hf : f < n
  · simp [hf]
  · have : f = n := by omega
    simp [this, Outcome.toSt_ne_pending]

@[simp] theorem runStack_nil (fuel : Nat) (s : State) (h : s.stack = []) : runStack fuel s = s := by
  cases fuel <;> simp [runStack, h]


/-! ## `unwrap_kiwi_future` over a chain of kiwi futures `0..n`; the unwrapping future is `n+1` -/

structure UBase (n : Nat) (o : Outcome) (s : State) : Prop where
  next : s.next = n + 2
  errs : s.errs = []
  fuel : s.fuelOut = false
  ready : s.ready = []
  kind : ∀ f, f ≤ n + 1 → (s.heap f).kind = .kiwi
  sts : ∀ i, i ≤ n → s.st i = .pending ∨ s.st i = chainD n o i
  ucbs : (s.heap (n + 1)).cbs = []

/-- the `unwrap` closure sits at level `k`: registered on it while it is pending, about to be invoked once it is done -/
structure UCursor (n : Nat) (o : Outcome) (k : Nat) (s : State) : Prop extends UBase n o s where
  hk : k ≤ n
  upend : s.st (n + 1) = .pending
  unset : (n + 1) ∉ s.sets
  before : ∀ i, i < k → s.st i = chainD n o i
  others : ∀ i, i ≤ n → i ≠ k → (s.heap i).cbs = []
  here : (s.st k = .pending ∧ (s.heap k).cbs = [.unwrap (n + 1)] ∧ s.stack = []) ∨
         (s.st k = chainD n o k ∧ (s.heap k).cbs = [] ∧ s.stack = [(.unwrap (n + 1), k)])

structure UDelivered (n : Nat) (o : Outcome) (s : State) : Prop extends UBase n o s where
  ust : s.st (n + 1) = o.toSt
  uset : s.sets.count (n + 1) = 1
  all : ∀ i, i ≤ n → s.st i = chainD n o i
  cbs : ∀ i, i ≤ n → (s.heap i).cbs = []
  stack : s.stack = []

/-- quiescent states of the scenario -/
def UQuiet (n : Nat) (o : Outcome) (s : State) : Prop :=
  (∃ k, UCursor n o k s ∧ s.stack = []) ∨ UDelivered n o s


theorem chainD_gt {n o} {f : Nat} (h : n < f) : chainD n o f = .pending := by
  have h1 : ¬ f < n := by omega
  have h2 : ¬ f = n := by omega
  simp [chainD, h1, h2]

theorem chainD_lt {n o} {f : Nat} (h : f < n) : chainD n o f = .result (.ref (f + 1)) := by simp [chainD, h]

theorem chainD_last {n o} : chainD n o n = o.toSt := by simp [chainD]

theorem UCursor.walking {n o k s} (h : UCursor n o k s) (hs : s.stack ≠ []) :
    s.st k = chainD n o k ∧ (s.heap k).cbs = [] ∧ s.stack = [(.unwrap (n + 1), k)] := by
  rcases h.here with ⟨_, _, h3⟩ | h
  · exact absurd h3 hs
  · exact h

theorem UCursor.waiting {n o k s} (h : UCursor n o k s) (hs : s.stack = []) :
    s.st k = .pending ∧ (s.heap k).cbs = [.unwrap (n + 1)] := by
  rcases h.here with ⟨h1, h2, _⟩ | ⟨_, _, h3⟩
  · exact ⟨h1, h2⟩
  · simp [hs] at h3

/-- the closure is invoked on level `k < n`, which resolved to level `k+1`: it moves there -/
theorem unwrap_walk_lt {n o k s} (h : UCursor n o k s) (hs : s.stack = [(.unwrap (n + 1), k)]) (fuel : Nat)
    (hk : k < n) : UCursor n o (k + 1) (invoke { s with stack := [] } fuel .inline (.unwrap (n + 1)) k) := by
  obtain ⟨hst, hcbk, _⟩ := h.walking (by simp [hs])
  rw [chainD_lt hk] at hst
  have hkind : (s.heap (k + 1)).kind = .kiwi := h.kind _ (by omega)
  have hcb : (s.heap (k + 1)).cbs = [] := h.others _ (by omega) (by omega)
  have := h.next; have := h.errs; have := h.fuel; have := h.ready; have := h.kind; have := h.sts
  have := h.ucbs; have := h.upend; have := h.unset; have := h.before; have := h.others
  simp only [invoke, invokeUnwrap, State.st] at *
  simp only [hst, hkind, if_true, addDone]
  by_cases hp : (s.heap (k + 1)).st = .pending
  · simp only [hp, if_true]
    refine ⟨⟨?_, ?_, ?_, ?_, ?_, ?_, ?_⟩, ?_, ?_, ?_, ?_, ?_, ?_⟩ <;> (try simp only [State.setCell, State.st]) <;> grind
  · simp only [hp, if_false]
    refine ⟨⟨?_, ?_, ?_, ?_, ?_, ?_, ?_⟩, ?_, ?_, ?_, ?_, ?_, ?_⟩ <;> (try simp only [State.st]) <;> grind

/-- the closure is invoked on the innermost level: its outcome is delivered to the unwrapping future -/
theorem unwrap_walk_last {n o s} (h : UCursor n o n s) (hs : s.stack = [(.unwrap (n + 1), n)]) (fuel : Nat) :
    UDelivered n o (invoke { s with stack := [] } fuel .inline (.unwrap (n + 1)) n) := by
  obtain ⟨hst, hcbk, _⟩ := h.walking (by simp [hs])
  rw [chainD_last] at hst
  have := h.next; have := h.errs; have := h.fuel; have := h.ready; have := h.kind; have := h.sts
  have := h.ucbs; have := h.upend; have := h.unset; have := h.before; have := h.others
  have hku := h.kind (n + 1) (by omega)
  simp only [invoke, invokeUnwrap, State.st] at *
  cases o <;> simp only [Outcome.toSt] at hst <;>
    simp only [hst, captureSetResult, captureSetExc, setOutcome, cancelFut, fire, Exc.isException, if_true, *] <;>
    refine ⟨⟨?_, ?_, ?_, ?_, ?_, ?_, ?_⟩, ?_, ?_, ?_, ?_, ?_⟩ <;>
    (try simp only [State.setCell, State.st, Outcome.toSt]) <;> grind [List.count_eq_zero]

theorem unwrap_runStack {n o} : ∀ (m k : Nat) (s : State), UCursor n o k s → n + 1 - k ≤ m →
    ∀ fuel, m ≤ fuel → UQuiet n o (runStack fuel s) := by
  intro m
  induction m with
  | zero => intro k s h hm; have := h.hk; omega
  | succ m ih =>
    intro k s h hm fuel hfuel
    by_cases hs : s.stack = []
    · rw [runStack_nil _ _ hs]; exact .inl ⟨k, h, hs⟩
    · obtain ⟨_, _, hst⟩ := h.walking hs
      obtain ⟨fuel, rfl⟩ : ∃ f', fuel = f' + 1 := ⟨fuel - 1, by omega⟩
      simp only [runStack, hst]
      by_cases hk : k < n
      · exact ih (k + 1) _ (unwrap_walk_lt h hst _ hk) (by omega) fuel (by omega)
      · have hkn : k = n := by have := h.hk; omega
        subst hkn
        have hd := unwrap_walk_last h hst (fuel + 1)
        rw [runStack_nil _ _ hd.stack]
        exact .inr hd

/-- the environment completes (or tries to complete again) any future while the closure waits at level `k` -/
theorem unwrap_complete_cursor {n o k s} (h : UCursor n o k s) (hs : s.stack = []) (f : Nat) :
    UCursor n o k (complete s f (chainD n o f)).1 := by
  obtain ⟨hst, hcbk⟩ := h.waiting hs
  have := h.next; have := h.errs; have := h.fuel; have := h.ready; have := h.kind; have := h.sts
  have := h.ucbs; have := h.upend; have := h.unset; have := h.before; have := h.others; have := h.hk
  by_cases hf : f ≤ n
  · have hkf := h.kind f (by omega)
    have hne : chainD n o f ≠ .pending := chainD_ne_pending hf
    simp only [State.st] at *
    by_cases hp : (s.heap f).st = .pending
    · cases hc : chainD n o f <;> simp only [hc] at hne <;>
       simp only [complete, setOutcome, cancelFut, fire, hp, hkf, if_true] <;>
       refine ⟨⟨?_, ?_, ?_, ?_, ?_, ?_, ?_⟩, ?_, ?_, ?_, ?_, ?_, ?_⟩ <;> (try simp only [State.setCell, State.st]) <;> grind
    · cases hc : chainD n o f <;> simp only [hc] at hne <;>
       simp only [complete, setOutcome, cancelFut, fire, hp, hkf, if_false] <;>
       refine ⟨⟨?_, ?_, ?_, ?_, ?_, ?_, ?_⟩, ?_, ?_, ?_, ?_, ?_, ?_⟩ <;> (try simp only [State.st]) <;> grind
  · simp only [chainD_gt (Nat.lt_of_not_le hf), complete]
    exact h

theorem unwrap_complete_delivered {n o s} (h : UDelivered n o s) (f : Nat) :
    UDelivered n o (complete s f (chainD n o f)).1 := by
  have := h.next; have := h.errs; have := h.fuel; have := h.ready; have := h.kind; have := h.sts
  have := h.ucbs; have := h.ust; have := h.uset; have := h.all; have := h.cbs; have := h.stack
  by_cases hf : f ≤ n
  · have hne : chainD n o f ≠ .pending := chainD_ne_pending hf
    have hp : (s.heap f).st ≠ .pending := by have := h.all f hf; simp only [State.st] at this; rw [this]; exact hne
    simp only [State.st] at *
    cases hc : chainD n o f <;> simp only [hc] at hne <;>
      simp only [complete, setOutcome, cancelFut, fire, hp, if_false] <;>
      refine ⟨⟨?_, ?_, ?_, ?_, ?_, ?_, ?_⟩, ?_, ?_, ?_, ?_, ?_⟩ <;> (try simp only [State.st]) <;> grind
  · simp only [chainD_gt (Nat.lt_of_not_le hf), complete]
    exact h

theorem tick_ready_nil (s : State) (fuel i : Nat) (h : s.ready = []) : tick s fuel i = s := by
  simp [tick, h]

theorem unwrap_envStep {n o s} (h : UQuiet n o s) (fuel : Nat) (hfuel : n + 1 ≤ fuel) (ev : Ev) :
    UQuiet n o (envStep (chainD n o) fuel s ev) := by
  cases ev with
  | tick i =>
    have hr : s.ready = [] := by
      rcases h with ⟨k, h, _⟩ | h
      · exact h.ready
      · exact h.ready
    simpa [envStep, tick_ready_nil _ _ _ hr] using h
  | complete f =>
    simp only [envStep]
    rcases h with ⟨k, h, hs⟩ | h
    · exact unwrap_runStack (n + 1) k _ (unwrap_complete_cursor h hs f) (by omega) fuel hfuel
    · have hd := unwrap_complete_delivered h f
      rw [runStack_nil _ _ hd.stack]
      exact .inr hd

theorem unwrap_envRun {n o} (fuel : Nat) (hfuel : n + 1 ≤ fuel) (evs : List Ev) :
    ∀ s, UQuiet n o s → UQuiet n o (envRun (chainD n o) fuel s evs) := by
  induction evs with
  | nil => intro s h; exact h
  | cons ev evs ih => intro s h; exact ih _ (unwrap_envStep h fuel hfuel ev)

end Futures
