import PlumpyModel.Futures.Model
/-!
# Scenarios and helper lemmas for C20

The environment owns a chain of futures `0 .. n`: level `i < n` resolves to future `i+1`, level `n` (the innermost
computation) ends with a value, an exception or a cancellation.  It completes the levels in any order (`Ev.complete`,
in any order, repeated or spurious completions included: they are rejected by the futures) and runs loop callbacks in
any order (`Ev.tick i`).
-/
namespace Futures

/-- outcome of the innermost computation -/
inductive Outcome where
  | value (n : Nat)
  | error (n : Nat)
  | cancelled
deriving DecidableEq, Repr

def Outcome.toSt : Outcome → St
  | .value n => .result (.plain n)
  | .error n => .exc (.user n)
  | .cancelled => .cancelled

/-- what each level of the chain `0..n` is completed with -/
def chainD (n : Nat) (o : Outcome) (f : FId) : St :=
  if f < n then .result (.ref (f + 1)) else if f = n then o.toSt else .pending

inductive Ev where
  | complete (f : FId)
  | tick (i : Nat)
deriving Repr

def envStep (d : FId → St) (fuel : Nat) (s : State) : Ev → State
  | .complete f => runStack fuel (complete s f (d f)).1
  | .tick i => tick s fuel i

def envRun (d : FId → St) (fuel : Nat) (s : State) (evs : List Ev) : State := evs.foldl (envStep d fuel) s

/-- `n` fresh futures of one kind -/
def newFutures (k : Kind) : Nat → State → State
  | 0, s => s
  | n+1, s => newFutures k n (alloc s k).1

theorem envRun_append (d fuel s a b) : envRun d fuel s (a ++ b) = envRun d fuel (envRun d fuel s a) b := by
  simp [envRun, List.foldl_append]

theorem Outcome.toSt_ne_pending (o : Outcome) : o.toSt ≠ .pending := by cases o <;> simp [Outcome.toSt]

theorem chainD_ne_pending {n o f} (h : f ≤ n) : chainD n o f ≠ .pending := by
  unfold chainD
  by_cases hf : f < n
  · simp [hf]
  · have : f = n := by omega
    simp [this, Outcome.toSt_ne_pending]

@[simp] theorem runStack_nil (fuel : Nat) (s : State) (h : s.stack = []) : runStack fuel s = s := by
  cases fuel <;> simp [runStack, h]


theorem fire_st (s : State) (f g : Nat) : (fire s f).st g = s.st g := by
  unfold fire; cases hk : (s.heap f).kind <;> simp only [hk, State.st, State.setCell] <;> split <;> simp_all

theorem fire_next (s : State) (f : Nat) : (fire s f).next = s.next := by
  unfold fire; cases hk : (s.heap f).kind <;> simp [hk, State.setCell]

/-! ## What a completion by the environment does -/

/-- the environment completes a pending asyncio future: its callbacks are scheduled on the loop -/
theorem complete_pending_aio (s : State) (f : Nat) (o : St) (ho : o ≠ .pending) (hp : (s.heap f).st = .pending)
    (hk : (s.heap f).kind = .aio) :
    (complete s f o).1 = { s with
      heap := fun x => if x = f then { kind := .aio, st := o, cbs := [] } else s.heap x,
      ready := s.ready ++ (s.heap f).cbs.map (fun cb => Ready.call cb f),
      sets := f :: s.sets } := by
  cases o with
  | pending => exact absurd rfl ho
  | cancelled => simp [complete, cancelFut, fire, hp, hk, State.setCell]; funext x; by_cases hx : x = f <;> simp [hx]
  | result v => simp [complete, setOutcome, fire, hp, hk, State.setCell]; funext x; by_cases hx : x = f <;> simp [hx]
  | exc e => simp [complete, setOutcome, fire, hp, hk, State.setCell]; funext x; by_cases hx : x = f <;> simp [hx]

theorem complete_pending_kiwi (s : State) (f : Nat) (o : St) (ho : o ≠ .pending) (hp : (s.heap f).st = .pending)
    (hk : (s.heap f).kind = .kiwi) :
    (complete s f o).1 = { s with
      heap := fun x => if x = f then { kind := .kiwi, st := o, cbs := [] } else s.heap x,
      stack := (s.heap f).cbs.map (fun cb => (cb, f)) ++ s.stack,
      sets := f :: s.sets } := by
  cases o with
  | pending => exact absurd rfl ho
  | cancelled => simp [complete, cancelFut, fire, hp, hk, State.setCell]; funext x; by_cases hx : x = f <;> simp [hx]
  | result v => simp [complete, setOutcome, fire, hp, hk, State.setCell]; funext x; by_cases hx : x = f <;> simp [hx]
  | exc e => simp [complete, setOutcome, fire, hp, hk, State.setCell]; funext x; by_cases hx : x = f <;> simp [hx]

theorem complete_done_eq (s : State) (f : Nat) (o : St) (ho : o ≠ .pending) (hp : (s.heap f).st ≠ .pending) :
    (complete s f o).1 = { s with sets := f :: s.sets } := by
  cases o with
  | pending => exact absurd rfl ho
  | cancelled => simp [complete, cancelFut, hp]
  | result v => simp [complete, setOutcome, hp]
  | exc e => simp [complete, setOutcome, hp]

theorem setOutcome_pending_aio (s : State) (f : Nat) (o : St) (hp : (s.heap f).st = .pending)
    (hk : (s.heap f).kind = .aio) :
    setOutcome s f o = ({ s with
      heap := fun x => if x = f then { kind := .aio, st := o, cbs := [] } else s.heap x,
      ready := s.ready ++ (s.heap f).cbs.map (fun cb => Ready.call cb f),
      sets := f :: s.sets }, true) := by
  simp [setOutcome, fire, hp, hk, State.setCell]; funext x; by_cases hx : x = f <;> simp [hx]

theorem cancelFut_pending_aio (s : State) (f : Nat) (hp : (s.heap f).st = .pending) (hk : (s.heap f).kind = .aio) :
    cancelFut s f = { s with
      heap := fun x => if x = f then { kind := .aio, st := .cancelled, cbs := [] } else s.heap x,
      ready := s.ready ++ (s.heap f).cbs.map (fun cb => Ready.call cb f),
      sets := f :: s.sets } := by
  simp [cancelFut, fire, hp, hk, State.setCell]; funext x; by_cases hx : x = f <;> simp [hx]

theorem setOutcome_pending_kiwi (s : State) (f : Nat) (o : St) (hp : (s.heap f).st = .pending)
    (hk : (s.heap f).kind = .kiwi) :
    setOutcome s f o = ({ s with
      heap := fun x => if x = f then { kind := .kiwi, st := o, cbs := [] } else s.heap x,
      stack := (s.heap f).cbs.map (fun cb => (cb, f)) ++ s.stack,
      sets := f :: s.sets }, true) := by
  simp [setOutcome, fire, hp, hk, State.setCell]; funext x; by_cases hx : x = f <;> simp [hx]

theorem cancelFut_pending_kiwi (s : State) (f : Nat) (hp : (s.heap f).st = .pending) (hk : (s.heap f).kind = .kiwi) :
    cancelFut s f = { s with
      heap := fun x => if x = f then { kind := .kiwi, st := .cancelled, cbs := [] } else s.heap x,
      stack := (s.heap f).cbs.map (fun cb => (cb, f)) ++ s.stack,
      sets := f :: s.sets } := by
  simp [cancelFut, fire, hp, hk, State.setCell]; funext x; by_cases hx : x = f <;> simp [hx]

/-! ## A future that is done never changes (every operation of the model) -/

/-- allocation only grows and a future that is done keeps its state -/
def Mono (s s' : State) : Prop :=
  s.next ≤ s'.next ∧ ∀ g, g < s.next → s.st g ≠ .pending → s'.st g = s.st g

theorem Mono.refl (s : State) : Mono s s := ⟨Nat.le_refl _, fun _ _ _ => rfl⟩

theorem Mono.trans {a b c : State} (h1 : Mono a b) (h2 : Mono b c) : Mono a c := by
  refine ⟨Nat.le_trans h1.1 h2.1, fun g hg hp => ?_⟩
  have e1 := h1.2 g hg hp
  have e2 := h2.2 g (Nat.lt_of_lt_of_le hg h1.1) (by rw [e1]; exact hp)
  rw [e2, e1]

theorem mono_fire (s : State) (f : Nat) : Mono s (fire s f) := by
  unfold fire Mono
  cases hk : (s.heap f).kind <;> simp only [hk, State.setCell, State.st] <;> grind

theorem mono_setOutcome (s : State) (f : Nat) (o : St) : Mono s (setOutcome s f o).1 := by
  unfold setOutcome
  by_cases hp : (s.heap f).st = .pending
  · simp only [hp, if_true]
    refine Mono.trans ?_ (mono_fire _ _)
    unfold Mono; simp only [State.setCell, State.st]; grind
  · simp only [hp, if_false]; exact ⟨Nat.le_refl _, fun _ _ _ => rfl⟩

theorem mono_cancelFut (s : State) (f : Nat) : Mono s (cancelFut s f) := by
  unfold cancelFut
  by_cases hp : (s.heap f).st = .pending
  · simp only [hp, if_true]
    refine Mono.trans ?_ (mono_fire _ _)
    unfold Mono; simp only [State.setCell, State.st]; grind
  · simp only [hp, if_false]; exact ⟨Nat.le_refl _, fun _ _ _ => rfl⟩

theorem mono_addDone (s : State) (f : Nat) (cb : Cb) : Mono s (addDone s f cb) := by
  unfold addDone Mono
  by_cases hp : (s.heap f).st = .pending
  · simp only [hp, if_true, State.setCell, State.st]; grind
  · simp only [hp, if_false]; cases hk : (s.heap f).kind <;> simp [State.st]

theorem mono_alloc (s : State) (k : Kind) : Mono s (alloc s k).1 := by
  unfold alloc Mono; simp only [State.st]; grind

theorem mono_logErr (s : State) (src e) : Mono s (s.logErr src e) := ⟨Nat.le_refl _, fun _ _ _ => rfl⟩
theorem mono_setTask (s : State) (t c) : Mono s (s.setTask t c) := ⟨Nat.le_refl _, fun _ _ _ => rfl⟩

theorem mono_setAct (s : State) (t c) : Mono s (s.setAct t c) := ⟨Nat.le_refl _, fun _ _ _ => rfl⟩

theorem mono_captureSetExc (s : State) (src) (t : Nat) (e) : Mono s (captureSetExc s src t e) := by
  unfold captureSetExc
  split
  · split
    · exact mono_setOutcome ..
    · exact (mono_setOutcome ..).trans (mono_logErr ..)
  · exact mono_logErr ..

theorem mono_captureSetResult (s : State) (src) (t : Nat) (v) : Mono s (captureSetResult s src t v) := by
  unfold captureSetResult
  split
  · exact mono_setOutcome ..
  · exact (mono_setOutcome ..).trans (mono_captureSetExc ..)

theorem mono_plumToKiwi (s : State) (p : Nat) : Mono s (plumToKiwi s p).1 :=
  (mono_alloc ..).trans (mono_addDone ..)

theorem mono_unwrapKiwi (s : State) (f : Nat) : Mono s (unwrapKiwi s f).1 :=
  (mono_alloc ..).trans (mono_addDone ..)

theorem mono_invokeUnwrap (s : State) (src) (u f : Nat) : Mono s (invokeUnwrap s src u f) := by
  unfold invokeUnwrap
  split
  · exact mono_cancelFut ..
  · exact mono_logErr ..
  · exact mono_captureSetExc ..
  · split
    · exact mono_addDone ..
    · exact mono_captureSetResult ..
  · exact mono_captureSetResult ..

theorem mono_invokeMirror (s : State) (src) (k f : Nat) : Mono s (invokeMirror s src k f) := by
  unfold invokeMirror
  split
  · exact mono_cancelFut ..
  · exact mono_logErr ..
  · exact mono_captureSetExc ..
  · split
    · exact (mono_plumToKiwi ..).trans (mono_captureSetResult ..)
    · exact mono_captureSetResult ..
  · exact mono_captureSetResult ..

theorem mono_taskSetExc (s : State) (t target : Nat) (e) : Mono s (taskSetExc s t target e) := by
  unfold taskSetExc
  split
  · exact (mono_setOutcome ..).trans (mono_setTask ..)
  · exact mono_setTask ..

theorem mono_taskSetResult (s : State) (t target : Nat) (v) : Mono s (taskSetResult s t target v) := by
  unfold taskSetResult
  split
  · exact (mono_setOutcome ..).trans (mono_setTask ..)
  · exact (mono_setOutcome ..).trans (mono_taskSetExc ..)

theorem mono_advanceCoro (s : State) (t fut : Nat) (c) : Mono s (advanceCoro s t fut c) := by
  unfold advanceCoro
  split
  · exact (mono_setTask ..).trans (mono_addDone ..)
  · exact mono_taskSetResult ..
  · exact (mono_cancelFut ..).trans (mono_setTask ..)
  · exact mono_taskSetExc ..

theorem mono_rpcLoop (t kf : Nat) : ∀ (fuel : Nat) (s : State) (v : Val), Mono s (rpcLoop s t kf fuel v) := by
  intro fuel
  induction fuel with
  | zero => intro s v; exact ⟨Nat.le_refl _, fun _ _ _ => rfl⟩
  | succ n ih =>
    intro s v
    cases v with
    | plain m => simp only [rpcLoop]; exact mono_taskSetResult ..
    | ref g =>
      simp only [rpcLoop]
      split
      · split
        · exact (mono_setTask ..).trans (mono_addDone ..)
        · exact ih ..
        · exact mono_taskSetExc ..
        · exact (mono_cancelFut ..).trans (mono_setTask ..)
      · exact mono_taskSetResult ..

theorem mono_advanceRpc (s : State) (t kf fuel : Nat) (c) : Mono s (advanceRpc s t kf fuel c) := by
  unfold advanceRpc
  split
  · exact mono_taskSetExc ..
  · exact mono_taskSetExc ..
  · exact mono_rpcLoop ..

theorem mono_advance (s : State) (fuel t : Nat) : Mono s (advance s fuel t) := by
  unfold advance
  split
  · exact mono_advanceCoro ..
  · exact mono_advanceRpc ..
  · exact mono_rpcLoop ..
  · exact Mono.refl _

theorem mono_invoke (s : State) (fuel : Nat) (src cb) (f : Nat) : Mono s (invoke s fuel src cb f) := by
  unfold invoke
  split
  · exact mono_invokeUnwrap ..
  · exact mono_invokeMirror ..
  · exact mono_advance ..

theorem mono_runStack : ∀ (fuel : Nat) (s : State), Mono s (runStack fuel s) := by
  intro fuel
  induction fuel with
  | zero => intro s; unfold runStack; split <;> exact ⟨Nat.le_refl _, fun _ _ _ => rfl⟩
  | succ n ih =>
    intro s
    unfold runStack
    split
    · exact Mono.refl _
    · refine Mono.trans ?_ (ih _)
      refine Mono.trans ?_ (mono_invoke ..)
      exact ⟨Nat.le_refl _, fun _ _ _ => rfl⟩

theorem mono_runReady (s : State) (fuel : Nat) (r) : Mono s (runReady s fuel r) := by
  unfold runReady
  split
  · exact mono_invoke ..
  · exact mono_advance ..

theorem mono_tick (s : State) (fuel i : Nat) : Mono s (tick s fuel i) := by
  unfold tick
  split
  · exact Mono.refl _
  · refine Mono.trans ?_ (mono_runStack ..)
    refine Mono.trans ?_ (mono_runReady ..)
    exact ⟨Nat.le_refl _, fun _ _ _ => rfl⟩

theorem mono_drain (fuel : Nat) : ∀ (n : Nat) (s : State), Mono s (drain fuel n s) := by
  intro n
  induction n with
  | zero => intro s; unfold drain; split <;> exact ⟨Nat.le_refl _, fun _ _ _ => rfl⟩
  | succ n ih =>
    intro s
    unfold drain
    split
    · exact Mono.refl _
    · exact (mono_tick ..).trans (ih _)

theorem mono_complete (s : State) (f : Nat) (o : St) : Mono s (complete s f o).1 := by
  unfold complete
  split
  · exact Mono.refl _
  · exact mono_cancelFut ..
  · exact mono_setOutcome ..

theorem mono_createTask (s : State) (c : Coro) : Mono s (createTask s c).1 := by
  refine ⟨by simp [createTask, alloc, State.setTask], fun g hg _ => ?_⟩
  have : g ≠ s.next := by omega
  simp [createTask, alloc, State.setTask, State.st, this]

theorem mono_scheduleRpc (s : State) (c : Call) : Mono s (scheduleRpc s c).1 := by
  refine ⟨by simp [scheduleRpc, alloc, State.setTask], fun g hg _ => ?_⟩
  have : g ≠ s.next := by omega
  simp [scheduleRpc, alloc, State.setTask, State.st, this]

theorem mono_newAction (s : State) (fn : ActFn) : Mono s (newAction s fn).1 := by
  refine ⟨by simp [newAction, alloc, State.setAct], fun g hg _ => ?_⟩
  have : g ≠ s.next := by omega
  simp [newAction, alloc, State.setAct, State.st, this]

theorem mono_actFinish (s : State) (a : Nat) (c : Call) : Mono s (actFinish s a c).1 := by
  unfold actFinish
  split
  · split
    · exact Mono.refl _
    · exact mono_setOutcome ..
  · split
    · split
      · exact Mono.refl _
      · exact mono_setOutcome ..
    · exact Mono.refl _

theorem mono_runAction (s : State) (a : Nat) : Mono s (runAction s a).1 := by
  unfold runAction
  split
  · exact Mono.refl _
  · split
    · exact Mono.refl _
    · split
      · exact mono_actFinish ..
      · split
        · exact ((mono_setAct ..).trans (mono_cancelFut ..)).trans (mono_actFinish ..)
        · exact (mono_setAct ..).trans (mono_actFinish ..)

theorem mono_envStep (d) (fuel : Nat) (s : State) (ev) : Mono s (envStep d fuel s ev) := by
  cases ev with
  | complete f => exact (mono_complete ..).trans (mono_runStack ..)
  | tick i => exact mono_tick ..

theorem mono_envRun (d) (fuel : Nat) (evs : List Ev) : ∀ s, Mono s (envRun d fuel s evs) := by
  induction evs with
  | nil => intro s; exact Mono.refl _
  | cons ev evs ih => intro s; exact (mono_envStep ..).trans (ih _)


/-! ## `unwrap_kiwi_future` over a chain of kiwi futures `0..n`; the unwrapping future is `n+1` -/

structure UBase (n : Nat) (o : Outcome) (s : State) : Prop where
  next : s.next = n + 2
  errs : s.errs = []
  fuel : s.fuelOut = false
  ready : s.ready = []
  kind : ∀ f, f ≤ n + 1 → (s.heap f).kind = .kiwi
  sts : ∀ i, i ≤ n → s.st i = .pending ∨ s.st i = chainD n o i
  ucbs : (s.heap (n + 1)).cbs = []

/-- the `unwrap` closure sits at level `k`: registered on it while it is pending, about to be invoked once it is done -/
structure UCursor (n : Nat) (o : Outcome) (k : Nat) (s : State) : Prop extends UBase n o s where
  hk : k ≤ n
  upend : s.st (n + 1) = .pending
  unset : (n + 1) ∉ s.sets
  before : ∀ i, i < k → s.st i = chainD n o i
  others : ∀ i, i ≤ n → i ≠ k → (s.heap i).cbs = []
  here : (s.st k = .pending ∧ (s.heap k).cbs = [.unwrap (n + 1)] ∧ s.stack = []) ∨
         (s.st k = chainD n o k ∧ (s.heap k).cbs = [] ∧ s.stack = [(.unwrap (n + 1), k)])

structure UDelivered (n : Nat) (o : Outcome) (s : State) : Prop extends UBase n o s where
  ust : s.st (n + 1) = o.toSt
  uset : s.sets.count (n + 1) = 1
  all : ∀ i, i ≤ n → s.st i = chainD n o i
  cbs : ∀ i, i ≤ n → (s.heap i).cbs = []
  stack : s.stack = []

/-- quiescent states of the scenario -/
def UQuiet (n : Nat) (o : Outcome) (s : State) : Prop :=
  (∃ k, UCursor n o k s ∧ s.stack = []) ∨ UDelivered n o s


theorem chainD_gt {n o} {f : Nat} (h : n < f) : chainD n o f = .pending := by
  have h1 : ¬ f < n := by omega
  have h2 : ¬ f = n := by omega
  simp [chainD, h1, h2]

theorem chainD_lt {n o} {f : Nat} (h : f < n) : chainD n o f = .result (.ref (f + 1)) := by simp [chainD, h]

theorem chainD_last {n o} : chainD n o n = o.toSt := by simp [chainD]

theorem UCursor.walking {n o k s} (h : UCursor n o k s) (hs : s.stack ≠ []) :
    s.st k = chainD n o k ∧ (s.heap k).cbs = [] ∧ s.stack = [(.unwrap (n + 1), k)] := by
  rcases h.here with ⟨_, _, h3⟩ | h
  · exact absurd h3 hs
  · exact h

theorem UCursor.waiting {n o k s} (h : UCursor n o k s) (hs : s.stack = []) :
    s.st k = .pending ∧ (s.heap k).cbs = [.unwrap (n + 1)] := by
  rcases h.here with ⟨h1, h2, _⟩ | ⟨_, _, h3⟩
  · exact ⟨h1, h2⟩
  · simp [hs] at h3

/-- the closure is invoked on level `k < n`, which resolved to level `k+1`: it moves there -/
theorem unwrap_walk_lt {n o k s} (h : UCursor n o k s) (hs : s.stack = [(.unwrap (n + 1), k)]) (fuel : Nat)
    (hk : k < n) : UCursor n o (k + 1) (invoke { s with stack := [] } fuel .inline (.unwrap (n + 1)) k) := by
  obtain ⟨hst, hcbk, _⟩ := h.walking (by simp [hs])
  rw [chainD_lt hk] at hst
  have hkind : (s.heap (k + 1)).kind = .kiwi := h.kind _ (by omega)
  have hcb : (s.heap (k + 1)).cbs = [] := h.others _ (by omega) (by omega)
  have := h.next; have := h.errs; have := h.fuel; have := h.ready; have := h.kind; have := h.sts
  have := h.ucbs; have := h.upend; have := h.unset; have := h.before; have := h.others
  simp only [invoke, invokeUnwrap, State.st] at *
  simp only [hst, hkind, if_true, addDone]
  by_cases hp : (s.heap (k + 1)).st = .pending
  · simp only [hp, if_true]
    refine ⟨⟨?_, ?_, ?_, ?_, ?_, ?_, ?_⟩, ?_, ?_, ?_, ?_, ?_, ?_⟩ <;> (try simp only [State.setCell, State.st]) <;> grind
  · simp only [hp, if_false]
    refine ⟨⟨?_, ?_, ?_, ?_, ?_, ?_, ?_⟩, ?_, ?_, ?_, ?_, ?_, ?_⟩ <;> (try simp only [State.st]) <;> grind

/-- the closure is invoked on the innermost level: its outcome is delivered to the unwrapping future -/
theorem unwrap_walk_last {n o s} (h : UCursor n o n s) (hs : s.stack = [(.unwrap (n + 1), n)]) (fuel : Nat) :
    UDelivered n o (invoke { s with stack := [] } fuel .inline (.unwrap (n + 1)) n) := by
  obtain ⟨hst, hcbk, _⟩ := h.walking (by simp [hs])
  rw [chainD_last] at hst
  have := h.next; have := h.errs; have := h.fuel; have := h.ready; have := h.kind; have := h.sts
  have := h.ucbs; have := h.upend; have := h.unset; have := h.before; have := h.others
  have hku := h.kind (n + 1) (by omega)
  simp only [invoke, invokeUnwrap, State.st] at *
  cases o <;> simp only [Outcome.toSt] at hst <;>
    simp only [hst, captureSetResult, captureSetExc, setOutcome, cancelFut, fire, Exc.isException, if_true, *] <;>
    refine ⟨⟨?_, ?_, ?_, ?_, ?_, ?_, ?_⟩, ?_, ?_, ?_, ?_, ?_⟩ <;>
    (try simp only [State.setCell, State.st, Outcome.toSt]) <;> grind [List.count_eq_zero]

theorem unwrap_runStack {n o} : ∀ (m k : Nat) (s : State), UCursor n o k s → n + 1 - k ≤ m →
    ∀ fuel, m ≤ fuel → UQuiet n o (runStack fuel s) := by
  intro m
  induction m with
  | zero => intro k s h hm; have := h.hk; omega
  | succ m ih =>
    intro k s h hm fuel hfuel
    by_cases hs : s.stack = []
    · rw [runStack_nil _ _ hs]; exact .inl ⟨k, h, hs⟩
    · obtain ⟨_, _, hst⟩ := h.walking hs
      obtain ⟨fuel, rfl⟩ : ∃ f', fuel = f' + 1 := ⟨fuel - 1, by omega⟩
      simp only [runStack, hst]
      by_cases hk : k < n
      · exact ih (k + 1) _ (unwrap_walk_lt h hst _ hk) (by omega) fuel (by omega)
      · have hkn : k = n := by have := h.hk; omega
        subst hkn
        have hd := unwrap_walk_last h hst (fuel + 1)
        rw [runStack_nil _ _ hd.stack]
        exact .inr hd

/-- the environment completes (or tries to complete again) any future while the closure waits at level `k` -/
theorem unwrap_complete_cursor {n o k s} (h : UCursor n o k s) (hs : s.stack = []) (f : Nat) :
    UCursor n o k (complete s f (chainD n o f)).1 := by
  obtain ⟨hst, hcbk⟩ := h.waiting hs
  have := h.next; have := h.errs; have := h.fuel; have := h.ready; have := h.kind; have := h.sts
  have := h.ucbs; have := h.upend; have := h.unset; have := h.before; have := h.others; have := h.hk
  by_cases hf : f ≤ n
  · have hkf := h.kind f (by omega)
    have hne : chainD n o f ≠ .pending := chainD_ne_pending hf
    simp only [State.st] at *
    by_cases hp : (s.heap f).st = .pending
    · cases hc : chainD n o f <;> simp only [hc] at hne <;>
       simp only [complete, setOutcome, cancelFut, fire, hp, hkf, if_true] <;>
       refine ⟨⟨?_, ?_, ?_, ?_, ?_, ?_, ?_⟩, ?_, ?_, ?_, ?_, ?_, ?_⟩ <;> (try simp only [State.setCell, State.st]) <;> grind
    · cases hc : chainD n o f <;> simp only [hc] at hne <;>
       simp only [complete, setOutcome, cancelFut, fire, hp, hkf, if_false] <;>
       refine ⟨⟨?_, ?_, ?_, ?_, ?_, ?_, ?_⟩, ?_, ?_, ?_, ?_, ?_, ?_⟩ <;> (try simp only [State.st]) <;> grind
  · simp only [chainD_gt (Nat.lt_of_not_le hf), complete]
    exact h

theorem unwrap_complete_delivered {n o s} (h : UDelivered n o s) (f : Nat) :
    UDelivered n o (complete s f (chainD n o f)).1 := by
  have := h.next; have := h.errs; have := h.fuel; have := h.ready; have := h.kind; have := h.sts
  have := h.ucbs; have := h.ust; have := h.uset; have := h.all; have := h.cbs; have := h.stack
  by_cases hf : f ≤ n
  · have hne : chainD n o f ≠ .pending := chainD_ne_pending hf
    have hp : (s.heap f).st ≠ .pending := by have := h.all f hf; simp only [State.st] at this; rw [this]; exact hne
    simp only [State.st] at *
    cases hc : chainD n o f <;> simp only [hc] at hne <;>
      simp only [complete, setOutcome, cancelFut, fire, hp, if_false] <;>
      refine ⟨⟨?_, ?_, ?_, ?_, ?_, ?_, ?_⟩, ?_, ?_, ?_, ?_, ?_⟩ <;> (try simp only [State.st]) <;> grind
  · simp only [chainD_gt (Nat.lt_of_not_le hf), complete]
    exact h

theorem tick_ready_nil (s : State) (fuel i : Nat) (h : s.ready = []) : tick s fuel i = s := by
  simp [tick, h]

theorem unwrap_envStep {n o s} (h : UQuiet n o s) (fuel : Nat) (hfuel : n + 1 ≤ fuel) (ev : Ev) :
    UQuiet n o (envStep (chainD n o) fuel s ev) := by
  cases ev with
  | tick i =>
    have hr : s.ready = [] := by
      rcases h with ⟨k, h, _⟩ | h
      · exact h.ready
      · exact h.ready
    simpa [envStep, tick_ready_nil _ _ _ hr] using h
  | complete f =>
    simp only [envStep]
    rcases h with ⟨k, h, hs⟩ | h
    · exact unwrap_runStack (n + 1) k _ (unwrap_complete_cursor h hs f) (by omega) fuel hfuel
    · have hd := unwrap_complete_delivered h f
      rw [runStack_nil _ _ hd.stack]
      exact .inr hd

theorem unwrap_envRun {n o} (fuel : Nat) (hfuel : n + 1 ≤ fuel) (evs : List Ev) :
    ∀ s, UQuiet n o s → UQuiet n o (envRun (chainD n o) fuel s evs) := by
  induction evs with
  | nil => intro s h; exact h
  | cons ev evs ih => intro s h; exact ih _ (unwrap_envStep h fuel hfuel ev)

/-- `newFutures k m` only allocates `m` pending futures of kind `k` -/
theorem newFutures_spec (k : Kind) : ∀ (m : Nat) (s : State),
    (newFutures k m s).next = s.next + m ∧
    (∀ f : Nat, (newFutures k m s).heap f = if s.next ≤ f ∧ f < s.next + m then { kind := k } else s.heap f) ∧
    (newFutures k m s).stack = s.stack ∧ (newFutures k m s).ready = s.ready ∧ (newFutures k m s).errs = s.errs ∧
    (newFutures k m s).sets = s.sets ∧ (newFutures k m s).fuelOut = s.fuelOut ∧
    (newFutures k m s).tasks = s.tasks ∧ (newFutures k m s).ntasks = s.ntasks ∧ (newFutures k m s).acts = s.acts := by
  intro m
  induction m with
  | zero => intro s; simp [newFutures]; intro f h1 h2; omega
  | succ m ih =>
    intro s
    obtain ⟨h1, h2, h3⟩ := ih (alloc s k).1
    simp only [newFutures]
    refine ⟨by rw [h1]; simp [alloc]; omega, ?_, by simpa [alloc] using h3⟩
    intro f
    rw [h2]
    simp only [alloc]
    grind

/-- before the adapter is applied: the environment has completed some levels of the chain `0..n` -/
structure UPre (kind : Kind) (n : Nat) (o : Outcome) (s : State) : Prop where
  next : s.next = n + 1
  errs : s.errs = []
  fuel : s.fuelOut = false
  ready : s.ready = []
  stack : s.stack = []
  sets : ∀ f, n < f → f ∉ s.sets
  kind : ∀ f, f ≤ n → (s.heap f).kind = kind
  sts : ∀ i, i ≤ n → s.st i = .pending ∨ s.st i = chainD n o i
  cbs : ∀ f, (s.heap f).cbs = []

theorem upre_init (kind : Kind) (n : Nat) (o : Outcome) : UPre kind n o (newFutures kind (n + 1) {}) := by
  obtain ⟨h1, h2, h3, h4, h5, h6, h7, _⟩ := newFutures_spec kind (n + 1) {}
  refine ⟨by simpa using h1, by simpa using h5, by simpa using h7, by simpa using h4, by simpa using h3, ?_, ?_, ?_, ?_⟩
  · intro f _; rw [h6]; simp
  · intro f hf; rw [h2]; have : f < n + 1 := by omega
    simp [this]
  · intro i hi; left; simp only [State.st]; rw [h2]; split <;> rfl
  · intro f; rw [h2]; split <;> rfl

theorem upre_envStep {kind n o s} (h : UPre kind n o s) (fuel : Nat) (ev : Ev) :
    UPre kind n o (envStep (chainD n o) fuel s ev) := by
  cases ev with
  | tick i => simpa [envStep, tick_ready_nil _ _ _ h.ready] using h
  | complete f =>
    simp only [envStep]
    have := h.next; have := h.errs; have := h.fuel; have := h.ready; have := h.kind; have := h.sts
    have := h.sets; have := h.cbs; have := h.stack
    suffices hc : UPre kind n o (complete s f (chainD n o f)).1 by rw [runStack_nil _ _ hc.stack]; exact hc
    by_cases hf : f ≤ n
    · have hne : chainD n o f ≠ .pending := chainD_ne_pending hf
      have hcb := h.cbs f
      simp only [State.st] at *
      by_cases hp : (s.heap f).st = .pending
      · cases hc : chainD n o f <;> simp only [hc] at hne <;> cases hk : (s.heap f).kind <;>
         simp only [complete, setOutcome, cancelFut, fire, hp, hk, hcb, if_true] <;>
         refine ⟨?_, ?_, ?_, ?_, ?_, ?_, ?_, ?_, ?_⟩ <;> (try simp only [State.setCell, State.st]) <;> grind
      · cases hc : chainD n o f <;> simp only [hc] at hne <;>
         simp only [complete, setOutcome, cancelFut, fire, hp, if_false] <;>
         refine ⟨?_, ?_, ?_, ?_, ?_, ?_, ?_, ?_, ?_⟩ <;> (try simp only [State.st]) <;> grind
    · simp only [chainD_gt (Nat.lt_of_not_le hf), complete]
      exact h

theorem upre_envRun {kind n o} (fuel : Nat) (evs : List Ev) :
    ∀ s, UPre kind n o s → UPre kind n o (envRun (chainD n o) fuel s evs) := by
  induction evs with
  | nil => intro s h; exact h
  | cons ev evs ih => intro s h; exact ih _ (upre_envStep h fuel ev)

/-- applying `unwrap_kiwi_future` to level 0 -/
theorem unwrap_wrap {n o s} (h : UPre .kiwi n o s) :
    (unwrapKiwi s 0).2 = n + 1 ∧ UCursor n o 0 (unwrapKiwi s 0).1 := by
  have := h.next; have := h.errs; have := h.fuel; have := h.ready; have := h.kind; have := h.sts
  have := h.sets; have := h.cbs; have := h.stack
  have h0 := h.sts 0 (by omega)
  refine ⟨by simp [unwrapKiwi, alloc, h.next], ?_⟩
  simp only [State.st] at *
  have hk0 := h.kind 0 (by omega)
  by_cases hp : (s.heap 0).st = .pending
  · simp only [unwrapKiwi, alloc, addDone, h.next]
    have : (if (0:Nat) = n + 1 then ({ kind := .kiwi } : Cell) else s.heap 0) = s.heap 0 := by simp
    simp only [this, hp, if_true]
    refine ⟨⟨?_, ?_, ?_, ?_, ?_, ?_, ?_⟩, ?_, ?_, ?_, ?_, ?_, ?_⟩ <;> (try simp only [State.setCell, State.st]) <;> grind
  · simp only [unwrapKiwi, alloc, addDone, h.next]
    have : (if (0:Nat) = n + 1 then ({ kind := .kiwi } : Cell) else s.heap 0) = s.heap 0 := by simp
    simp only [this, hp, if_false, hk0]
    refine ⟨⟨?_, ?_, ?_, ?_, ?_, ?_, ?_⟩, ?_, ?_, ?_, ?_, ?_, ?_⟩ <;> (try simp only [State.setCell, State.st]) <;> grind

/-! ## Completed levels stay completed -/

theorem done_of_mono {s s' : State} (h : Mono s s') {i : Nat} (hi : i < s.next) (hd : s.st i ≠ .pending) :
    s'.st i ≠ .pending := by rw [h.2 i hi hd]; exact hd

theorem complete_done (s : State) (f : Nat) (o : St) (ho : o ≠ .pending) : (complete s f o).1.st f ≠ .pending := by
  have hfire : ∀ s' : State, (fire s' f).st f = s'.st f := fun s' => fire_st s' f f
  cases o with
  | pending => exact absurd rfl ho
  | cancelled =>
    simp only [complete, cancelFut]
    by_cases hp : (s.heap f).st = .pending
    · simp only [hp, if_true, hfire]; simp [State.st, State.setCell]
    · simpa [hp, State.st] using hp
  | result v =>
    simp only [complete, setOutcome]
    by_cases hp : (s.heap f).st = .pending
    · simp only [hp, if_true, hfire]; simp [State.st, State.setCell]
    · simpa [hp, State.st] using hp
  | exc e =>
    simp only [complete, setOutcome]
    by_cases hp : (s.heap f).st = .pending
    · simp only [hp, if_true, hfire]; simp [State.st, State.setCell]
    · simpa [hp, State.st] using hp

theorem complete_next (s : State) (f : Nat) (o : St) : (complete s f o).1.next = s.next := by
  have hfire : ∀ s' : State, (fire s' f).next = s'.next := fun s' => fire_next s' f
  cases o <;> simp only [complete, cancelFut, setOutcome] <;> (try split) <;> simp [hfire, State.setCell]

/-- once the environment has completed level `i`, it stays complete whatever happens afterwards -/
theorem envRun_complete_done (d : FId → St) (fuel : Nat) (i : Nat) (hd : d i ≠ .pending) :
    ∀ (evs : List Ev) (s : State), i < s.next → Ev.complete i ∈ evs → (envRun d fuel s evs).st i ≠ .pending := by
  intro evs
  induction evs with
  | nil => intro s _ h; simp at h
  | cons ev evs ih =>
    intro s hi hmem
    have hstep := mono_envStep d fuel s ev
    have hi' : i < (envStep d fuel s ev).next := Nat.lt_of_lt_of_le hi hstep.1
    rcases List.mem_cons.mp hmem with h | h
    · subst h
      have h1 : (complete s i (d i)).1.st i ≠ .pending := complete_done s i (d i) hd
      have h2 : (envStep d fuel s (.complete i)).st i ≠ .pending :=
        done_of_mono (mono_runStack fuel _) (by rw [complete_next]; exact hi) h1
      exact done_of_mono (mono_envRun d fuel evs _) hi' h2
    · exact ih _ hi' h

end Futures
