import PlumpyModel.Futures.Proof
/-!
# `Process._schedule_rpc` whose callback returns level 0 of a chain of loop futures `0..n`

The reply future is the kiwi future `n+1`, the helper task (`run_callback`) is task `0`.
-/
namespace Futures

structure RBase (n : Nat) (o : Outcome) (s : State) : Prop where
  next : s.next = n + 2
  errs : s.errs = []
  fuel : s.fuelOut = false
  stack : s.stack = []
  kindp : ∀ f, f ≤ n → (s.heap f).kind = .aio
  kindk : (s.heap (n + 1)).kind = .kiwi
  sts : ∀ i, i ≤ n → s.st i = .pending ∨ s.st i = chainD n o i
  kcbs : (s.heap (n + 1)).cbs = []

/-- the reply has not been delivered -/
structure RLive (n : Nat) (s : State) : Prop where
  kpend : s.st (n + 1) = .pending
  unset : (n + 1) ∉ s.sets

def RStart (n : Nat) (s : State) : Prop :=
  RLive n s ∧ s.tasks 0 = .rpcCall (n + 1) (.ret (.ref 0)) ∧ s.ready = [.start 0] ∧ ∀ g, g ≤ n → (s.heap g).cbs = []

/-- `run_callback` is suspended in `await` on level `j` -/
def RBlocked (n : Nat) (o : Outcome) (s : State) : Prop :=
  ∃ j, j ≤ n ∧ RLive n s ∧ s.tasks 0 = .rpcLoop (n + 1) (.ref j) ∧ (∀ i, i < j → s.st i = chainD n o i) ∧
    s.st j = .pending ∧ (s.heap j).cbs = [.wake 0] ∧ (∀ g, g ≤ n → g ≠ j → (s.heap g).cbs = []) ∧ s.ready = []

/-- level `j` is done and the wake-up of `run_callback` is scheduled -/
def RWoken (n : Nat) (o : Outcome) (s : State) : Prop :=
  ∃ j, j ≤ n ∧ RLive n s ∧ s.tasks 0 = .rpcLoop (n + 1) (.ref j) ∧ (∀ i, i < j → s.st i = chainD n o i) ∧
    s.ready = [.call (.wake 0) j] ∧ ∀ g, g ≤ n → (s.heap g).cbs = []

def RDone (n : Nat) (o : Outcome) (s : State) : Prop :=
  s.tasks 0 = .finished none ∧ s.ready = [] ∧ (∀ g, g ≤ n → (s.heap g).cbs = []) ∧
    (∀ i, i ≤ n → s.st i = chainD n o i) ∧ s.st (n + 1) = o.toSt ∧ s.sets.count (n + 1) = 1

def RInv (n : Nat) (o : Outcome) (s : State) : Prop :=
  RBase n o s ∧ (RStart n s ∨ RBlocked n o s ∨ RWoken n o s ∨ RDone n o s)

theorem rpc_wrap {n o s} (h : UPre .aio n o s) (hnt : s.ntasks = 0) :
    (scheduleRpc s (.ret (.ref 0))).2 = n + 1 ∧ RInv n o (scheduleRpc s (.ret (.ref 0))).1 := by
  refine ⟨by simp [scheduleRpc, alloc, h.next], ?_⟩
  simp only [scheduleRpc, alloc, h.next, hnt, h.ready, State.setTask, List.nil_append]
  refine ⟨⟨rfl, h.errs, h.fuel, h.stack, ?_, ?_, ?_, ?_⟩, .inl ⟨⟨?_, ?_⟩, ?_, rfl, ?_⟩⟩ <;> (try simp only [State.st])
  · have := h.kind; grind
  · simp
  · have := h.sts; simp only [State.st] at this; grind
  · simp
  · simp
  · exact h.sets (n + 1) (by omega)
  · simp
  · have := h.cbs; grind

/-- the loop finds level `j` pending: `run_callback` suspends on it -/
theorem rpc_block {n o j s} (hj : j ≤ n) (hb : RBase n o s) (hl : RLive n s)
    (hbelow : ∀ i, i < j → s.st i = chainD n o i) (hcbs : ∀ g, g ≤ n → (s.heap g).cbs = []) (hr : s.ready = [])
    (hs : s.st j = .pending) (fuel : Nat) :
    RBase n o (rpcLoop s 0 (n + 1) (fuel + 1) (.ref j)) ∧ RBlocked n o (rpcLoop s 0 (n + 1) (fuel + 1) (.ref j)) := by
  have hkj := hb.kindp j (by omega)
  simp only [rpcLoop, hkj, if_true, hs]
  simp only [addDone, State.setTask, State.setCell]
  simp only [State.st] at hs
  simp only [hs, if_true, hcbs j (by omega), List.nil_append]
  refine ⟨⟨hb.next, hb.errs, hb.fuel, hb.stack, ?_, ?_, ?_, ?_⟩, ⟨j, by omega, ⟨?_, hl.unset⟩, ?_, ?_, ?_, ?_, ?_, hr⟩⟩ <;>
    (try simp only [State.st])
  · have := hb.kindp; grind
  · have := hb.kindk; grind
  · have := hb.sts; simp only [State.st] at this; grind
  · have := hb.kcbs; grind
  · have := hl.kpend; simp only [State.st] at this; grind
  · simp
  · intro i hi; have := hbelow i hi; simp only [State.st] at this; grind
  · grind
  · grind
  · grind

/-- the loop reaches the innermost level, which is done: its outcome is delivered to the reply future -/
theorem rpc_last {n o s} (hb : RBase n o s) (hl : RLive n s)
    (hbelow : ∀ i, i < n → s.st i = chainD n o i) (hcbs : ∀ g, g ≤ n → (s.heap g).cbs = []) (hr : s.ready = [])
    (hsn : s.st n ≠ .pending) (fuel : Nat) :
    RBase n o (rpcLoop s 0 (n + 1) (fuel + 2) (.ref n)) ∧ RDone n o (rpcLoop s 0 (n + 1) (fuel + 2) (.ref n)) := by
  have hkj := hb.kindp n (by omega)
  have hkk := hb.kindk
  have hkc := hb.kcbs
  have hkp : (s.heap (n + 1)).st = .pending := hl.kpend
  simp only [rpcLoop, hkj, if_true]
  cases hs : s.st n with
  | pending => exact absurd hs hsn
    | result v =>
      have hv : ∃ x, v = .plain x ∧ o.toSt = .result v := by
        have := hb.sts n (by omega)
        rw [hs, chainD_last] at this
        cases o <;> simp_all [Outcome.toSt]
      obtain ⟨x, hv1, hv2⟩ := hv
      rw [hv1]
      simp only [rpcLoop, taskSetResult, setOutcome_pending_kiwi s (n + 1) _ hkp hkk, if_true, hkc, List.map_nil, List.nil_append,
        State.setTask]
      refine ⟨⟨hb.next, hb.errs, hb.fuel, hb.stack, ?_, ?_, ?_, ?_⟩, ⟨by simp, hr, ?_, ?_, ?_, ?_⟩⟩ <;>
        (try simp only [State.st])
      · have := hb.kindp; grind
      · simp
      · have := hb.sts; simp only [State.st] at this; grind
      · simp
      · grind
      · intro i hi
        have hne : i ≠ n + 1 := by omega
        simp only [hne, if_false]
        by_cases hij : i = n
        · subst hij; have := hb.sts i (by omega); simp only [State.st] at this hs; grind
        · have := hbelow i (by omega); simpa [State.st] using this
      · rw [hv2, hv1]; simp
      · have := hl.unset; grind [List.count_eq_zero]
    | exc e =>
      have he : ∃ x, e = .user x ∧ o.toSt = .exc e := by
        have := hb.sts n (by omega)
        rw [hs, chainD_last] at this
        cases o <;> simp_all [Outcome.toSt]
      obtain ⟨x, he1, he2⟩ := he
      have hex : e.isException = true := by rw [he1]; rfl
      simp only [taskSetExc, hex, if_true, setOutcome_pending_kiwi s (n + 1) _ hkp hkk, hkc, List.map_nil, List.nil_append,
        State.setTask]
      refine ⟨⟨hb.next, hb.errs, hb.fuel, hb.stack, ?_, ?_, ?_, ?_⟩, ⟨by simp, hr, ?_, ?_, ?_, ?_⟩⟩ <;>
        (try simp only [State.st])
      · have := hb.kindp; grind
      · simp
      · have := hb.sts; simp only [State.st] at this; grind
      · simp
      · grind
      · intro i hi
        have hne : i ≠ n + 1 := by omega
        simp only [hne, if_false]
        by_cases hij : i = n
        · subst hij; have := hb.sts i (by omega); simp only [State.st] at this hs; grind
        · have := hbelow i (by omega); simpa [State.st] using this
      · rw [he2]; simp
      · have := hl.unset; grind [List.count_eq_zero]
    | cancelled =>
      have hc : o.toSt = .cancelled := by
        have := hb.sts n (by omega)
        rw [hs, chainD_last] at this
        cases o <;> simp_all [Outcome.toSt]
      simp only [cancelFut_pending_kiwi s (n + 1) hkp hkk, hkc, List.map_nil, List.nil_append, State.setTask]
      refine ⟨⟨hb.next, hb.errs, hb.fuel, hb.stack, ?_, ?_, ?_, ?_⟩, ⟨by simp, hr, ?_, ?_, ?_, ?_⟩⟩ <;>
        (try simp only [State.st])
      · have := hb.kindp; grind
      · simp
      · have := hb.sts; simp only [State.st] at this; grind
      · simp
      · grind
      · intro i hi
        have hne : i ≠ n + 1 := by omega
        simp only [hne, if_false]
        by_cases hij : i = n
        · subst hij; have := hb.sts i (by omega); simp only [State.st] at this hs; grind
        · have := hbelow i (by omega); simpa [State.st] using this
      · rw [hc]; simp
      · have := hl.unset; grind [List.count_eq_zero]

/-- the unwrapping loop of `run_callback`, entered at level `j` with all levels below `j` done -/
theorem rpcLoop_spec {n o} : ∀ (m j : Nat) (s : State), n - j ≤ m → j ≤ n → RBase n o s → RLive n s →
    (∀ i, i < j → s.st i = chainD n o i) → (∀ g, g ≤ n → (s.heap g).cbs = []) → s.ready = [] →
    ∀ fuel, m + 2 ≤ fuel →
    RBase n o (rpcLoop s 0 (n + 1) fuel (.ref j)) ∧
      (RBlocked n o (rpcLoop s 0 (n + 1) fuel (.ref j)) ∨ RDone n o (rpcLoop s 0 (n + 1) fuel (.ref j))) := by
  intro m
  induction m with
  | zero =>
    intro j s hm hj hb hl hbelow hcbs hr fuel hfuel
    have hjn : j = n := by omega
    subst hjn
    obtain ⟨fuel, rfl⟩ : ∃ k, fuel = k + 2 := ⟨fuel - 2, by omega⟩
    by_cases hs : s.st j = .pending
    · have := rpc_block hj hb hl hbelow hcbs hr hs (fuel + 1)
      exact ⟨this.1, .inl this.2⟩
    · have := rpc_last hb hl hbelow hcbs hr hs fuel
      exact ⟨this.1, .inr this.2⟩
  | succ m ih =>
    intro j s hm hj hb hl hbelow hcbs hr fuel hfuel
    obtain ⟨fuel, rfl⟩ : ∃ k, fuel = k + 2 := ⟨fuel - 2, by omega⟩
    by_cases hs : s.st j = .pending
    · have := rpc_block hj hb hl hbelow hcbs hr hs (fuel + 1)
      exact ⟨this.1, .inl this.2⟩
    · by_cases hjn : j = n
      · subst hjn
        have := rpc_last hb hl hbelow hcbs hr hs fuel
        exact ⟨this.1, .inr this.2⟩
      · have hlt : j < n := by omega
        have hsj : s.st j = .result (.ref (j + 1)) := by
          have := hb.sts j hj
          rw [chainD_lt hlt] at this
          rcases this with h | h
          · exact absurd h hs
          · exact h
        have hkj := hb.kindp j hj
        have hstep : rpcLoop s 0 (n + 1) (fuel + 2) (.ref j) = rpcLoop s 0 (n + 1) (fuel + 1) (.ref (j + 1)) := by
          simp only [rpcLoop, hkj, if_true, hsj]
        rw [hstep]
        refine ih (j + 1) s (by omega) (by omega) hb hl ?_ hcbs hr (fuel + 1) (by omega)
        intro i hi
        by_cases hij : i = j
        · subst hij; rw [hsj, chainD_lt hlt]
        · exact hbelow i (by omega)

/-- how the heap changes when the environment completes level `g ≤ n` -/
theorem rpc_complete_frame {n o s} (hb : RBase n o s) (g : Nat) (hg : g ≤ n) :
    let s' := (complete s g (chainD n o g)).1
    s'.next = s.next ∧ s'.errs = s.errs ∧ s'.fuelOut = s.fuelOut ∧ s'.stack = s.stack ∧ s'.tasks = s.tasks ∧
    s'.sets = g :: s.sets ∧ (∀ x, x ≠ g → s'.heap x = s.heap x) ∧
    (∀ x, s.st x ≠ .pending → s'.st x = s.st x) ∧ (s'.heap g).kind = .aio ∧ s'.st g = chainD n o g ∧
    ((s.st g ≠ .pending ∧ s'.heap g = s.heap g ∧ s'.ready = s.ready) ∨
     (s.st g = .pending ∧ (s'.heap g).cbs = [] ∧
        s'.ready = s.ready ++ (s.heap g).cbs.map (fun cb => Ready.call cb g))) := by
  have hkg := hb.kindp g hg
  have hne : chainD n o g ≠ .pending := chainD_ne_pending hg
  by_cases hp : (s.heap g).st = .pending
  · simp only [complete_pending_aio s g _ hne hp hkg, State.st]
    refine ⟨?_, ?_, ?_, ?_, ?_, ?_, ?_, ?_, ?_, ?_, .inr ⟨hp, ?_, ?_⟩⟩ <;> first | trivial | rfl | grind
  · simp only [complete_done_eq s g _ hne hp, State.st]
    have := hb.sts g hg
    simp only [State.st] at this
    refine ⟨?_, ?_, ?_, ?_, ?_, ?_, ?_, ?_, hkg, ?_, .inl ⟨hp, ?_, ?_⟩⟩ <;> first | trivial | rfl | grind

theorem rpc_complete {n o s} (h : RInv n o s) (g : Nat) : RInv n o (complete s g (chainD n o g)).1 := by
  by_cases hg' : ¬ g ≤ n
  · simp only [chainD_gt (Nat.lt_of_not_le hg'), complete]; exact h
  have hg : g ≤ n := Decidable.of_not_not hg'
  obtain ⟨hb, hpos⟩ := h
  obtain ⟨f1, f2, f3, f4, f5, f6, f7, f8, f9, f10, f11⟩ := rpc_complete_frame hb g hg
  have hgk : n + 1 ≠ g := by omega
  have hbase : RBase n o (complete s g (chainD n o g)).1 := by
    refine ⟨by rw [f1]; exact hb.next, by rw [f2]; exact hb.errs, by rw [f3]; exact hb.fuel, by rw [f4]; exact hb.stack,
      ?_, by rw [f7 _ hgk]; exact hb.kindk, ?_, by rw [f7 _ hgk]; exact hb.kcbs⟩
    · intro x hx
      by_cases hxg : x = g
      · subst hxg; exact f9
      · rw [f7 x hxg]; exact hb.kindp x hx
    · intro x hx
      by_cases hxg : x = g
      · subst hxg; exact .inr f10
      · have := hb.sts x hx
        simp only [State.st] at this ⊢
        rw [f7 x hxg]; exact this
  have hlive : RLive n s → RLive n (complete s g (chainD n o g)).1 := by
    intro hl
    refine ⟨?_, ?_⟩
    · simp only [State.st]; rw [f7 _ hgk]; exact hl.kpend
    · rw [f6]; have := hl.unset; grind
  have hready : (∀ x, x ≤ n → (s.heap x).cbs = []) → (complete s g (chainD n o g)).1.ready = s.ready := by
    intro hc
    rcases f11 with ⟨_, _, h3⟩ | ⟨_, _, h4⟩
    · exact h3
    · rw [h4, hc g hg]; simp
  have hcbs : ∀ x, (s.heap x).cbs = [] → ((complete s g (chainD n o g)).1.heap x).cbs = [] := by
    intro x hx
    by_cases hxg : x = g
    · subst hxg
      rcases f11 with ⟨_, h2, _⟩ | ⟨_, h2, _⟩
      · rw [h2]; exact hx
      · exact h2
    · rw [f7 x hxg]; exact hx
  have hbelow : ∀ j, j ≤ n → (∀ i, i < j → s.st i = chainD n o i) →
      ∀ i, i < j → (complete s g (chainD n o g)).1.st i = chainD n o i := by
    intro j hj hbl i hi
    have := hbl i hi
    rw [f8 i (by rw [this]; exact chainD_ne_pending (by omega))]
    exact this
  refine ⟨hbase, ?_⟩
  rcases hpos with ⟨hl, ht, hr, hc⟩ | ⟨j, hj, hl, ht, hbl, hpj, hcj, hco, hr⟩ | ⟨j, hj, hl, ht, hbl, hr, hc⟩ |
      ⟨ht, hr, hc, hall, hst, hcnt⟩
  · left
    exact ⟨hlive hl, by rw [f5]; exact ht, by rw [hready hc]; exact hr, fun x hx => hcbs x (hc x hx)⟩
  · by_cases hgj : g = j
    · subst hgj
      right; right; left
      rcases f11 with ⟨h1, _, _⟩ | ⟨_, h2, h4⟩
      · exact absurd hpj h1
      · refine ⟨g, hj, hlive hl, by rw [f5]; exact ht, hbelow g hj hbl, by rw [h4, hr, hcj]; rfl, ?_⟩
        intro x hx
        by_cases hxg : x = g
        · subst hxg; exact h2
        · rw [f7 x hxg]; exact hco x hx hxg
    · right; left
      have hcg := hco g hg hgj
      refine ⟨j, hj, hlive hl, by rw [f5]; exact ht, hbelow j hj hbl, ?_, ?_, ?_, ?_⟩
      · simp only [State.st]; rw [f7 j (Ne.symm hgj)]; exact hpj
      · rw [f7 j (Ne.symm hgj)]; exact hcj
      · intro x hx hxj; exact hcbs x (hco x hx hxj)
      · rcases f11 with ⟨_, _, h3⟩ | ⟨_, _, h4⟩
        · rw [h3]; exact hr
        · rw [h4, hcg]; simpa using hr
  · right; right; left
    exact ⟨j, hj, hlive hl, by rw [f5]; exact ht, hbelow j hj hbl, by rw [hready hc]; exact hr, fun x hx => hcbs x (hc x hx)⟩
  · right; right; right
    refine ⟨by rw [f5]; exact ht, by rw [hready hc]; exact hr, fun x hx => hcbs x (hc x hx), ?_, ?_, ?_⟩
    · intro i hi
      rw [f8 i (by rw [hall i hi]; exact chainD_ne_pending hi)]; exact hall i hi
    · simp only [State.st]; rw [f7 _ hgk]; exact hst
    · rw [f6]; grind

theorem RBase.ready_irrel {n o s} (hb : RBase n o s) (r : List Ready) : RBase n o { s with ready := r } :=
  ⟨hb.next, hb.errs, hb.fuel, hb.stack, hb.kindp, hb.kindk, hb.sts, hb.kcbs⟩

theorem RLive.ready_irrel {n s} (hl : RLive n s) (r : List Ready) : RLive n { s with ready := r } :=
  ⟨hl.kpend, hl.unset⟩

theorem rpc_tick {n o s} (h : RInv n o s) (fuel : Nat) (hfuel : n + 2 ≤ fuel) (i : Nat) : RInv n o (tick s fuel i) := by
  obtain ⟨hb, hpos⟩ := h
  rcases hpos with ⟨hl, ht, hr, hc⟩ | ⟨j, hj, hl, ht, hbl, hpj, hcj, hco, hr⟩ | ⟨j, hj, hl, ht, hbl, hr, hc⟩ |
      ⟨ht, hr, hc, hall, hst, hcnt⟩
  · cases i with
    | succ i => simp only [tick, hr, List.getElem?_cons_succ, List.getElem?_nil]; exact ⟨hb, .inl ⟨hl, ht, hr, hc⟩⟩
    | zero =>
      simp only [tick, hr, List.getElem?_cons_zero, List.eraseIdx_cons_zero, runReady, advance, ht, advanceRpc]
      have hsp := rpcLoop_spec n 0 _ (by omega) (by omega) (hb.ready_irrel []) (hl.ready_irrel [])
        (fun i hi => absurd hi (by omega)) hc rfl fuel hfuel
      rw [runStack_nil _ _ hsp.1.stack]
      exact ⟨hsp.1, by rcases hsp.2 with h | h
                       · exact .inr (.inl h)
                       · exact .inr (.inr (.inr h))⟩
  · rw [tick_ready_nil _ _ _ hr]; exact ⟨hb, .inr (.inl ⟨j, hj, hl, ht, hbl, hpj, hcj, hco, hr⟩)⟩
  · cases i with
    | succ i =>
      simp only [tick, hr, List.getElem?_cons_succ, List.getElem?_nil]
      exact ⟨hb, .inr (.inr (.inl ⟨j, hj, hl, ht, hbl, hr, hc⟩))⟩
    | zero =>
      simp only [tick, hr, List.getElem?_cons_zero, List.eraseIdx_cons_zero, runReady, invoke, advance, ht]
      have hsp := rpcLoop_spec (n - j) j _ (Nat.le_refl _) hj (hb.ready_irrel []) (hl.ready_irrel []) hbl hc rfl fuel
        (by omega)
      rw [runStack_nil _ _ hsp.1.stack]
      exact ⟨hsp.1, by rcases hsp.2 with h | h
                       · exact .inr (.inl h)
                       · exact .inr (.inr (.inr h))⟩
  · rw [tick_ready_nil _ _ _ hr]; exact ⟨hb, .inr (.inr (.inr ⟨ht, hr, hc, hall, hst, hcnt⟩))⟩

theorem rpc_envStep {n o s} (h : RInv n o s) (fuel : Nat) (hfuel : n + 2 ≤ fuel) (ev : Ev) :
    RInv n o (envStep (chainD n o) fuel s ev) := by
  cases ev with
  | tick i => exact rpc_tick h fuel hfuel i
  | complete f =>
    have h' := rpc_complete h f
    simp only [envStep]
    rw [runStack_nil _ _ h'.1.stack]
    exact h'

theorem rpc_envRun {n o} (fuel : Nat) (hfuel : n + 2 ≤ fuel) (evs : List Ev) :
    ∀ s, RInv n o s → RInv n o (envRun (chainD n o) fuel s evs) := by
  induction evs with
  | nil => intro s h; exact h
  | cons ev evs ih => intro s h; exact ih _ (rpc_envStep h fuel hfuel ev)

theorem upre_ntasks {kind n o} (fuel : Nat) (evs : List Ev) :
    (envRun (chainD n o) fuel (newFutures kind (n + 1) {}) evs).ntasks = 0 := by
  suffices h : ∀ s : State, UPre kind n o s → s.ntasks = 0 → (envRun (chainD n o) fuel s evs).ntasks = 0 by
    refine h _ (upre_init kind n o) ?_
    have := (newFutures_spec kind (n + 1) {}).2.2.2.2.2.2.2.2.1
    simpa using this
  induction evs with
  | nil => intro s _ h; exact h
  | cons ev evs ih =>
    intro s hp hn
    refine ih _ (upre_envStep hp fuel ev) ?_
    cases ev with
    | tick i => simpa [envStep, tick_ready_nil _ _ _ hp.ready] using hn
    | complete f =>
      have hc := upre_envStep hp fuel (.complete f)
      simp only [envStep] at hc ⊢
      have hnt : (complete s f (chainD n o f)).1.ntasks = s.ntasks := by
        have hfire : ∀ s' : State, (fire s' f).ntasks = s'.ntasks := by
          intro s'; unfold fire; cases hk : (s'.heap f).kind <;> simp [hk, State.setCell]
        cases chainD n o f <;> simp only [complete, cancelFut, setOutcome] <;> (try split) <;> simp [hfire, State.setCell]
      have hst : (complete s f (chainD n o f)).1.stack = [] := by
        by_cases hf : f ≤ n
        · have hne := chainD_ne_pending (n := n) (o := o) hf
          by_cases hpd : (s.heap f).st = .pending
          · cases hk : (s.heap f).kind
            · rw [complete_pending_kiwi s f _ hne hpd hk]; simp [hp.cbs f, hp.stack]
            · rw [complete_pending_aio s f _ hne hpd hk]; exact hp.stack
          · rw [complete_done_eq s f _ hne hpd]; exact hp.stack
        · simp only [chainD_gt (Nat.lt_of_not_le hf), complete]; exact hp.stack
      rw [runStack_nil _ _ hst, hnt]; exact hn

end Futures
